"""F10 (C18): before the fix commit, a traced function calling ops.sum(x, axis=0) produced a program summing over all axes.
Run: PYTHONPATH=/repo /venv/bin/python findings/F10_tracer_drops_kwargs_demo.py  (exit 0 = correct)"""
import numpy as np
import funsor
from funsor import ops
from funsor.ops.tracer import trace_function
funsor.set_backend("numpy")
def fn(x):
    return ops.sum(x, axis=0)
x = np.arange(6.0).reshape(2, 3)
prog = trace_function(fn, dict(x=x))
y = np.arange(6.0, 12.0).reshape(2, 3)
got = prog(x=y)
exp = fn(y)
assert np.shape(got) == np.shape(exp) and np.allclose(got, exp), f"traced program gives {got!r}, function gives {exp!r}"
def fn2(x):
    return ops.clamp(x, min=1.0, max=4.0)
prog = trace_function(fn2, dict(x=x))
assert np.allclose(prog(x=y), fn2(y)), (prog(x=y), fn2(y))
print("ok")
