"""F11 (C15/C08/C11): before the fix commit, ops.sample(array(-inf), array(-inf)) was nan; ops.logaddexp gives -inf.
Run: PYTHONPATH=/repo /venv/bin/python findings/F11_sample_nan_on_arrays_demo.py  (exit 0 = correct)"""
import math
import warnings

import numpy as np

import funsor
from funsor import ops

warnings.simplefilter("ignore")
inf = math.inf
a, b = np.array([-inf, 0.0]), np.array([-inf, -inf])
got, want = ops.sample(a, b), ops.logaddexp(a, b)
assert not np.isnan(got).any() and (got == want).all(), f"sample gives {got}, logaddexp gives {want}"
got = ops.sample(-inf, a)
assert not np.isnan(got).any(), got
print("ok")
