"""F12 (C15): before the fix commit, ops.safediv(array, 0.0) was plain division: [nan, inf] for [0., 1.] / 0.0.
Run: PYTHONPATH=/repo /venv/bin/python findings/F12_scalar_safediv_nan_demo.py  (exit 0 = correct)"""
import warnings

import numpy as np

import funsor
from funsor import ops

warnings.simplefilter("ignore")
x = np.array([0.0, 1.0])
got, want = ops.safediv(x, 0.0), ops.safediv(x, np.array([0.0, 0.0]))
assert not np.isnan(got).any() and (got == want).all(), f"safediv(array, 0.0) = {got}, safediv(array, array(0.)) = {want}"
print("ok")
