"""F13 (C18): before the fix commit, trace_function(lambda x, y: x, ...) gave a program that returns y.
Run: PYTHONPATH=/repo /venv/bin/python findings/F13_tracer_returns_last_input_demo.py  (exit 0 = correct or rejected)"""
import numpy as np
import funsor
from funsor import ops
from funsor.ops.tracer import trace_function
funsor.set_backend("numpy")
x, y = np.array([1.0, 2.0]), np.array([3.0, 4.0])
try:
    prog = trace_function(lambda x, y: x, dict(x=x, y=y))
except ValueError as e:
    print("rejected:", e)
else:
    got = prog(x=x, y=y)
    assert np.allclose(got, x), f"traced identity-on-x returns {got!r}, expected {x!r}"
print("ok")
