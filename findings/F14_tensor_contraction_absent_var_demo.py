"""F14 (C08/C01/C02): before the fix commit, Contraction(add, mul, {i}, a[j], b[j]) was a*b instead of |i|*a*b.
Run: PYTHONPATH=/repo /venv/bin/python findings/F14_tensor_contraction_absent_var_demo.py  (exit 0 = correct)"""
from collections import OrderedDict

import numpy as np

import funsor
from funsor import Bint, Tensor, ops
from funsor.cnf import Contraction
from funsor.terms import Variable

funsor.set_backend("numpy")
a = Tensor(np.array([1.0, 2.0]), OrderedDict(j=Bint[2]))
b = Tensor(np.array([3.0, 4.0]), OrderedDict(j=Bint[2]))
i = Variable("i", Bint[3])
got = Contraction(ops.add, ops.mul, frozenset({i}), a, b)
assert np.allclose(got.data, [9.0, 24.0]), f"sum_i a[j]*b[j] with |i|=3: got {got.data}, expected [9, 24]"
got = Contraction(ops.logaddexp, ops.add, frozenset({i}), a, b)
assert np.allclose(got.data, np.array([4.0, 6.0]) + np.log(3)), got.data
print("ok")
