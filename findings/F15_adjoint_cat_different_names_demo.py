"""F15 (C11): before the fix commit, the adjoint of the parts of Cat("x", parts, "t") was the whole incoming adjoint (150) instead of its slices.
Run: PYTHONPATH=/repo /venv/bin/python findings/F15_adjoint_cat_different_names_demo.py  (exit 0 = correct)"""
from collections import OrderedDict
import numpy as np
import funsor
from funsor import Bint, Tensor, ops
from funsor.adjoint import adjoint
from funsor.interpretations import lazy, reflect
from funsor.terms import Cat, Variable
funsor.set_backend("numpy")

def run(name, part_name):
    a = Tensor(np.array([1.0, 2.0]), OrderedDict([(part_name, Bint[2])]))
    b = Tensor(np.array([3.0, 4.0, 5.0]), OrderedDict([(part_name, Bint[3])]))
    w = Tensor(np.array([10.0, 20.0, 30.0, 40.0, 50.0]), OrderedDict([(name, Bint[5])]))
    with lazy:
        expr = (Cat(name, (a, b), part_name) * w).reduce(ops.add, name)
    adj = adjoint(ops.add, ops.mul, expr)
    ga, gb = adj[a], adj[b]
    return ga, gb

ga, gb = run("x", "x")
print("same names:", ga.inputs, ga.data, gb.inputs, gb.data)
ga, gb = run("x", "t")
print("different names:", ga.inputs, getattr(ga, "data", ga), gb.inputs, getattr(gb, "data", gb))
assert tuple(ga.inputs) == ("t",) and np.allclose(ga.data, [10.0, 20.0]), (ga.inputs, ga)
assert tuple(gb.inputs) == ("t",) and np.allclose(gb.data, [30.0, 40.0, 50.0]), (gb.inputs, gb)
print("ok")
