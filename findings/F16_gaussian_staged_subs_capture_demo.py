"""F16 (C04): before fix f0aed5d, Gaussian.eager_subs applied the affine pairs first and wrapped the result in Subs(result, remaining);
g(x=2*y, y=exp(z)) then rewrote the y that came in with the value 2*y as well: the result lost its input y and had the wrong value.
Run: PYTHONPATH=/repo /venv/bin/python findings/F16_gaussian_staged_subs_capture_demo.py  (exit 0 = correct)"""
from collections import OrderedDict
import numpy as np
import funsor
from funsor import Real, Variable
from funsor.gaussian import Gaussian
from funsor.tensor import Tensor
funsor.set_backend("numpy")
rng = np.random.RandomState(0)
g = Gaussian(white_vec=rng.randn(2), prec_sqrt=rng.randn(2, 2), inputs=OrderedDict(x=Real, y=Real))
y, z = Variable("y", Real), Variable("z", Real)
T = lambda v: Tensor(np.array(v))
r = g(x=2 * y, y=z.exp())
print("inputs:", dict(r.inputs))
yv, zv = 0.3, 0.7
want = g(x=T(2 * yv), y=T(np.exp(zv))).data
assert set(r.inputs) == {"y", "z"}, r.inputs
got = r(y=T(yv), z=T(zv)).data
print(want, got)
assert np.allclose(want, got)
print("ok")
