"""F17 (C04): before fix 5ae107f, Gaussian._eager_subs_affine removed each substituted key and added the names of its value in one
loop: g(x=2*y, y=3*x) lost the input y (deleted by the second pair after the first had added it) and evaluated to the wrong number.
Run: PYTHONPATH=/repo /venv/bin/python findings/F17_gaussian_affine_swap_demo.py  (exit 0 = correct)"""
from collections import OrderedDict
import numpy as np
import funsor
from funsor import Real, Variable
from funsor.gaussian import Gaussian
from funsor.tensor import Tensor
funsor.set_backend("numpy")
rng = np.random.RandomState(0)
g = Gaussian(white_vec=rng.randn(2), prec_sqrt=rng.randn(2, 2), inputs=OrderedDict(x=Real, y=Real))
x, y = Variable("x", Real), Variable("y", Real)
T = lambda v: Tensor(np.array(v))
r = g(x=2 * y, y=3 * x)
print("inputs:", dict(r.inputs))
assert set(r.inputs) == {"x", "y"}, r.inputs
xv, yv = 0.4, 0.3
want = g(x=T(2 * yv), y=T(3 * xv)).data
got = r(x=T(xv), y=T(yv)).data
print(want, got)
assert np.allclose(want, got)
print("ok")
