"""F18/F19 (C04): before fix 875b204, Tensor.eager_subs substituted a Variable by renaming the input first.
  F18  t(i='j') with j already an input: the two inputs collapsed - inputs {j}, output Reals[3] (the whole matrix) instead of the diagonal.
  F19  t(i='j', j=0): the later pair rewrote the renamed input too - no inputs, data t[0, :] instead of inputs {j}, data t[:, 0].
Run: PYTHONPATH=/repo /venv/bin/python findings/F18_tensor_rename_onto_existing_input_demo.py  (exit 0 = correct)"""
from collections import OrderedDict
import numpy as np
import funsor
from funsor import Bint, Tensor
funsor.set_backend("numpy")
t = Tensor(np.arange(9.0).reshape(3, 3), OrderedDict(i=Bint[3], j=Bint[3]))
r = t(i="j")
print("t(i='j'):", dict(r.inputs), r.output, r.data)
assert dict(r.inputs) == {"j": Bint[3]} and r.output.shape == () and np.allclose(r.data, [0.0, 4.0, 8.0])
r = t(i="j", j=0)
print("t(i='j', j=0):", dict(r.inputs), r.data)
assert dict(r.inputs) == {"j": Bint[3]} and np.allclose(r.data, t.data[:, 0])
u = Tensor(np.arange(27.0).reshape(3, 3, 3), OrderedDict(i=Bint[3], j=Bint[3], k=Bint[3]))
r = u(i="j", j="k", k=0).align(("j", "k"))
assert np.allclose(r.data, u.data[:, :, 0])
r = t(i="j", j="i")  # a swap is still a pure renaming
assert list(r.inputs) == ["j", "i"] and r.data is t.data
print("ok")
