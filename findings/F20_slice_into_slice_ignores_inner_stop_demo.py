"""F20 (C04, C06): before fix d8e504e, Slice.eager_subs composed two slices with the OUTER stop only:
Slice('i', 0, 10, 1, 10)(i=Slice('j', 2, 5, 1, 10)) was Slice(j, 2, 10, 1, 10) with input j: Bint[8] (3 elements expected).
Run: PYTHONPATH=/repo /venv/bin/python findings/F20_slice_into_slice_ignores_inner_stop_demo.py  (exit 0 = correct)"""
from collections import OrderedDict
import numpy as np
import funsor
from funsor import Bint, Tensor
from funsor.terms import Slice
funsor.set_backend("numpy")
r = Slice("i", 0, 10, 1, 10)(i=Slice("j", 2, 5, 1, 10))
print(r, dict(r.inputs))
assert r.inputs["j"].size == 3
r = Slice("i", 1, 10, 2, 10)(i=Slice("j", 1, 4, 2, 5))
vals = [int(r(j=k).data) for k in range(r.inputs["j"].size)]
print(r, vals)
assert vals == [3, 7]
x = Tensor(np.arange(10.0), OrderedDict(i=Bint[10]))
y = x(i=Slice("j", 0, 10, 1, 10))(j=Slice("k", 2, 5, 1, 10))
assert list(y.data) == [2.0, 3.0, 4.0], y.data
print("ok")
