"""F21 (C04): before fix 22f02c4, MarkovProduct.eager_subs renamed variables first and applied the other pairs to the result:
m(curr='prev', prev=0) rewrote the renamed input as well - no inputs, value M[0, 0] - instead of inputs {prev}, values M[0, :].
Run: PYTHONPATH=/repo /venv/bin/python findings/F21_markov_product_rename_then_subs_demo.py  (exit 0 = correct)"""
from collections import OrderedDict
import numpy as np
import funsor
from funsor import Bint, Tensor, Variable, ops
from funsor.interpretations import lazy
from funsor.sum_product import MarkovProduct
funsor.set_backend("numpy")
rng = np.random.RandomState(0)
T = 4
trans = Tensor(rng.rand(T, 3, 3), OrderedDict(time=Bint[T], prev=Bint[3], curr=Bint[3]))
time = Variable("time", Bint[T])
with lazy:
    m = MarkovProduct(ops.add, ops.mul, trans, time, {"prev": "curr"})
    r = m(curr="prev", prev=0)
full = funsor.reinterpret(m)
got = funsor.reinterpret(r)
print(dict(got.inputs), getattr(got, "data", got))
assert dict(got.inputs) == {"prev": Bint[3]}, got.inputs
assert np.allclose(got.data, full(prev=0).data)
with lazy:
    d = m(curr="prev")
dv = funsor.reinterpret(d)
assert np.allclose(dv.data, [full(prev=i, curr=i).data for i in range(3)])
print("ok")
