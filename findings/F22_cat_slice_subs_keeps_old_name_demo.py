"""F22 (C04): before the fix, Cat.eager_subs rebuilt the Cat under its old name when a Slice was substituted:
Cat('i', parts)(i=Slice('j', 1, 4, 1, 5)) still had the input i (and no input j).
Run: PYTHONPATH=/repo /venv/bin/python findings/F22_cat_slice_subs_keeps_old_name_demo.py  (exit 0 = correct)"""
from collections import OrderedDict
import numpy as np
import funsor
from funsor import Bint, Tensor
from funsor.interpretations import lazy
from funsor.terms import Cat, Slice
funsor.set_backend("numpy")
a = Tensor(np.array([0.0, 1.0, 2.0]), OrderedDict(i=Bint[3]))
b = Tensor(np.array([3.0, 4.0]), OrderedDict(i=Bint[2]))
full = np.arange(5.0)
with lazy:
    c = Cat("i", (a, b))
for start, stop, step in [(1, 4, 1), (0, 5, 2), (1, 5, 3)]:
    with lazy:
        r = c(i=Slice("j", start, stop, step, 5))
    rv = funsor.reinterpret(r)
    print((start, stop, step), dict(rv.inputs), rv.data)
    assert list(rv.inputs) == ["j"], rv.inputs
    assert np.allclose(rv.data, full[start:stop:step])
print("ok")
