"""F23 (C18): before fix 1cd014c, trace_function emitted the traced dag in reverse order of discovery from the root, which is not a
topological order: tracing add(a := mul(x, x), exp(a)) numbered exp(a) before a and failed with KeyError.
Run: PYTHONPATH=/repo /venv/bin/python findings/F23_tracer_diamond_order_demo.py  (exit 0 = correct)"""
import numpy as np
import funsor
from funsor import ops
from funsor.ops.tracer import trace_function
funsor.set_backend("numpy")

def fn(x):
    a = ops.mul(x, x)
    return ops.add(a, ops.exp(a))

x = np.array(0.5)
prog = trace_function(fn, dict(x=x))
got, want = prog(x=x), fn(x)
print(got, want)
assert np.allclose(got, want)
ns = {}
exec(prog.as_code(name="p"), ns)
assert np.allclose(ns["p"](x), want)
print("ok")
