"""F24 (C18): before fix 2d6ca1e, compile_funsor allocated a value number for the Python tuple that precedes every Tuple node in the
A-normal form without emitting a slot for it; any Tuple that is not the root shifted all later numbers and the program raised IndexError.
Run: PYTHONPATH=/repo /venv/bin/python findings/F24_compile_nested_tuple_demo.py  (exit 0 = correct)"""
import numpy as np
import funsor
from funsor import Real, Variable
from funsor.compiler import compile_funsor
from funsor.interpretations import lazy
from funsor.terms import Tuple
funsor.set_backend("numpy")
x, y = Variable("x", Real), Variable("y", Real)
with lazy:
    e = Tuple((Tuple((x, y)), x * y))
p = compile_funsor(e)
got = p(x=np.array(2.0), y=np.array(3.0))
print(got)
assert float(got[0][0]) == 2.0 and float(got[0][1]) == 3.0 and float(got[1]) == 6.0
print("ok")
