"""F25 (C08, C02): before the fix, optimize_contract_finitary_funsor only reduced variables that occur in the inputs of its terms; a reduced
variable that no term mentions was dropped, so sum_{i,j} a[j] b[j] c[j,k] was |i| = 2 times too small after apply_optimizer.
Run: PYTHONPATH=/repo /venv/bin/python findings/F25_optimizer_drops_absent_variable_demo.py  (exit 0 = correct)"""
from collections import OrderedDict
import numpy as np
import funsor
from funsor import Bint, Tensor, ops
from funsor.interpretations import normalize
from funsor.optimizer import apply_optimizer
from funsor.terms import Variable
funsor.set_backend("numpy")
rng = np.random.RandomState(0)
a = Tensor(rng.rand(3), OrderedDict(j=Bint[3]))
b = Tensor(rng.rand(3), OrderedDict(j=Bint[3]))
c = Tensor(rng.rand(3, 4), OrderedDict(j=Bint[3], k=Bint[4]))
i, j = Variable("i", Bint[2]), Variable("j", Bint[3])
for red, prod, x in ((ops.add, ops.mul, (a, b, c)), (ops.logaddexp, ops.add, (a.log(), b.log(), c.log()))):
    with normalize:
        e = prod(prod(x[0], x[1]), x[2]).reduce(red, frozenset({i, j}))
    naive = funsor.reinterpret(e)
    opt = funsor.reinterpret(apply_optimizer(e))
    print(red, naive.data, opt.data)
    assert np.allclose(naive.data, opt.data)
print("ok")
