"""F26 (C04): before the fix, Cat.eager_subs started a part too early when the part contains the start of a strided slice:
Cat('i', (a[3], b[2]))(i=Slice('j', 2, 5, 2, 5)) gave [0, 2, 4] instead of [2, 4] (40 of 400 combinations on a small grid were wrong).
Run: PYTHONPATH=/repo /venv/bin/python findings/F26_cat_strided_slice_start_demo.py  (exit 0 = correct)"""
from collections import OrderedDict
import numpy as np
import funsor
from funsor import Bint, Tensor
from funsor.interpretations import lazy
from funsor.terms import Cat, Slice
funsor.set_backend("numpy")
bad = total = 0
for sizes in [(3, 2), (5, 3), (2, 2, 3), (1, 4, 1)]:
    n = sum(sizes)
    full = np.arange(float(n))
    parts, o = [], 0
    for sz in sizes:
        parts.append(Tensor(full[o:o + sz], OrderedDict(i=Bint[sz])))
        o += sz
    with lazy:
        c = Cat("i", tuple(parts))
    for start in range(n):
        for stop in range(start + 1, n + 1):
            for step in (1, 2, 3, 4):
                total += 1
                with lazy:
                    r = c(i=Slice("j", start, stop, step, n))
                rv = funsor.reinterpret(r)
                got = list(rv.data) if rv.inputs else [float(rv.data)]
                if got != list(full[start:stop:step]):
                    bad += 1
                    if bad <= 3:
                        print(sizes, (start, stop, step), got, list(full[start:stop:step]))
print("wrong:", bad, "of", total)
assert bad == 0
print("ok")
