"""F27 (C15): before the fix, ops.clamp on Python scalars raised TypeError: the default implementation called its own parameters
`min` / `max` (bounds) as if they were the functions of that name.  Arrays were served by the np.clip registration.
Run: PYTHONPATH=/repo /venv/bin/python findings/F27_scalar_clamp_demo.py  (exit 0 = correct)"""
import numpy as np
import funsor
from funsor import ops
funsor.set_backend("numpy")
for x, lo, hi in [(0.5, 0.0, 1.0), (-2.0, 0.0, 1.0), (3.0, 0.0, 1.0), (3.0, None, 1.0), (-3.0, 0.0, None)]:
    s = ops.clamp(x, lo, hi)
    a = ops.clamp(np.array(x), lo, hi)
    print(x, lo, hi, s, a)
    assert float(s) == float(a)
print("ok")
