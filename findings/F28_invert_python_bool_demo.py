"""F28 (C15): before the fix, ops.invert(True) was -2 (operator.invert on a Python bool is the integer bitwise operation) while
ops.invert(np.array(True)) was False: the op gave different answers on a Python scalar and on a 0-d array.
Run: PYTHONPATH=/repo /venv/bin/python findings/F28_invert_python_bool_demo.py  (exit 0 = correct)"""
import numpy as np
import funsor
from funsor import ops
funsor.set_backend("numpy")
for b in (True, False):
    s, a = ops.invert(b), ops.invert(np.array(b))
    print(b, s, a)
    assert bool(s) == bool(a) and s in (True, False)
assert ops.invert(5) == ops.invert(np.array(5)) == -6  # integers keep the bitwise meaning on both sides
print("ok")
