"""F29 (C18): before the fix, OpProgram.as_code printed a Tuple without components as `(,)`; the generated source was a SyntaxError.
Run: PYTHONPATH=/repo /venv/bin/python findings/F29_as_code_empty_tuple_demo.py  (exit 0 = correct)"""
import numpy as np
import funsor
from funsor import Real, Variable
from funsor.compiler import compile_funsor
from funsor.terms import Tuple
funsor.set_backend("numpy")
x = Variable("x", Real)
for e in (Tuple(()), Tuple((x,)), Tuple((x, x * x))):
    p = compile_funsor(e)
    ns = {}
    exec(p.as_code(name="q"), ns)
    kw = {k: np.array(2.0) for k in e.inputs}
    a, b = p(**kw), ns["q"](**kw)
    print(repr(a), repr(b))
    assert isinstance(b, tuple) and len(a) == len(b)
print("ok")
