"""F30 (C17): before the fix, entering the same AdjointTape again while it was active overwrote the interpretation the outer entry
delegates to: after `with tape: with lazy: with tape: pass`, terms built in the outer block were interpreted lazily.
Run: PYTHONPATH=/repo /venv/bin/python findings/F30_adjoint_tape_reentry_demo.py  (exit 0 = correct)"""
from collections import OrderedDict
import numpy as np
import funsor
from funsor import Bint, Tensor
from funsor.adjoint import AdjointTape
from funsor.interpretations import lazy
from funsor.interpreter import get_interpretation
funsor.set_backend("numpy")
t = Tensor(np.arange(3.0), OrderedDict(i=Bint[3]))
u = Tensor(np.ones(3), OrderedDict(i=Bint[3]))
tape = AdjointTape()
before = get_interpretation()
with tape:
    with lazy:
        with tape:
            pass
    r = t + u
print(type(r).__name__)
assert get_interpretation() is before
assert isinstance(r, Tensor), type(r)
print("ok")
