"""F31 (C05, OPEN - known finding): Approximate.__init__ declares its approx_vars both fresh and bound.  A lazily built Approximate
therefore lists the alpha-mangled name among its inputs and has lost the input the user named:
    with lazy: m.approximate(ops.logaddexp, g, "x")  ->  inputs {a, x__BOUND_1}
Not repaired: removing the `bound` declaration makes test_approximations::test_gaussian_smoke[mean_approximate] - an xfail-marked test
("alpha conversion bug") that currently x-passes and is counted in the pinned baseline - fail, so the unedited suite would not pass.
Run: PYTHONPATH=/repo /venv/bin/python findings/F31_lazy_approximate_leaks_bound_name_demo.py  (exit 1 shows the defect)"""
from collections import OrderedDict
import numpy as np
import funsor
from funsor import Bint, Tensor, ops
from funsor.interpretations import lazy
funsor.set_backend("numpy")
m = Tensor(np.arange(6.0).reshape(2, 3), OrderedDict(a=Bint[2], x=Bint[3]))
g = Tensor(np.ones((2, 3)), OrderedDict(a=Bint[2], x=Bint[3]))
with lazy:
    r = m.approximate(ops.logaddexp, g, "x")
print(type(r).__name__, dict(r.inputs))
rv = funsor.reinterpret(r)
print(dict(rv.inputs))
assert set(r.inputs) == {"a", "x"}, r.inputs
assert set(rv.inputs) == {"a", "x"}, rv.inputs
print("ok")
