"""F32 (C06, C04): before the fix, Delta.__init__ took its inputs from the points only: Delta('x', point, log_density(i)) had inputs {x},
so substituting i was silently ignored although the value depends on i.
Run: PYTHONPATH=/repo /venv/bin/python findings/F32_delta_log_density_inputs_demo.py  (exit 0 = correct)"""
from collections import OrderedDict
import numpy as np
import funsor
from funsor import Bint, Tensor
from funsor.delta import Delta
funsor.set_backend("numpy")
ld = Tensor(np.array([0.1, 0.2, 0.3]), OrderedDict(i=Bint[3]))
d = Delta("x", Tensor(np.array(1.0)), ld)
print(dict(d.inputs))
assert set(d.inputs) == {"x", "i"}, d.inputs
r = d(i=0)
assert "i" not in r.inputs
v = d(x=Tensor(np.array(1.0)))
assert dict(v.inputs) == {"i": Bint[3]} and np.allclose(v.data, [0.1, 0.2, 0.3])
print("ok")
