"""F33 (C04): before the fix, a pair was applied twice when the rebuilt node evaluated eagerly: SubstituteInterpretation chose the pairs by
the fresh names of the RESULT (for a Tensor: all inputs, including those the substituted values brought in).
  lazy t.reduce(max, 'j')(i=idx), idx depending on i  ->  t[idx[idx[i]]].max(j)  instead of  t[idx[i]].max(j)
  (x + u[j])(x=w[j], j=0)                              ->  scalar w[0] + u[0]     instead of  w[j] + u[0]
Run: PYTHONPATH=/repo /venv/bin/python findings/F33_double_substitution_demo.py  (exit 0 = correct)"""
from collections import OrderedDict
import numpy as np
import funsor
from funsor import Bint, Real, Tensor, Variable, ops
from funsor.interpretations import lazy
funsor.set_backend("numpy")
x = Variable("x", Real)
u = Tensor(np.array([1.0, 2.0, 3.0]), OrderedDict(j=Bint[3]))
w = Tensor(np.array([10.0, 20.0, 30.0]), OrderedDict(j=Bint[3]))
r = (x + u)(x=w, j=0)
print(dict(r.inputs), r.data)
assert dict(r.inputs) == {"j": Bint[3]} and np.allclose(r.data, w.data + u.data[0])
t = Tensor(np.arange(9.0).reshape(3, 3), OrderedDict(i=Bint[3], j=Bint[3]))
idx = Tensor(np.array([1, 2, 0]), OrderedDict(i=Bint[3]), 3)
with lazy:
    g = t.reduce(ops.max, "j")
r2 = g(i=idx)
print(r2.data)
assert np.allclose(r2.data, t.data[idx.data].max(-1))
print("ok")
