"""F34 (C04, C02): before the fix, affine_inputs reported a Reduce with ANY op as affine in what its operand is affine in, so
Gaussian(y)(y=max_i x[i]) was substituted as a linear change of variables: -0.64 instead of -2.20 at x = [0.3, -1, 2].
Run: PYTHONPATH=/repo /venv/bin/python findings/F34_affine_inputs_of_nonlinear_reduce_demo.py  (exit 0 = correct)"""
from collections import OrderedDict
import numpy as np
import funsor
from funsor import Bint, Real, Reals, Tensor, Variable, ops
from funsor.affine import affine_inputs
from funsor.gaussian import Gaussian
from funsor.interpretations import lazy
from funsor.terms import Reduce
funsor.set_backend("numpy")
g = Gaussian(white_vec=np.array([0.7]), prec_sqrt=np.array([[1.4]]), inputs=OrderedDict(y=Real))
x, i = Variable("x", Reals[3]), Variable("i", Bint[3])
with lazy:
    m = Reduce(ops.max, x[i], frozenset({i}))
    s = Reduce(ops.add, x[i], frozenset({i}))
print("affine in (max):", set(affine_inputs(m)), "(add):", set(affine_inputs(s)))
assert affine_inputs(m) == frozenset() and affine_inputs(s) == frozenset({"x"})
xv = Tensor(np.array([0.3, -1.0, 2.0]))
for name, e, val in (("max", m, 2.0), ("add", s, 1.3)):
    got, want = g(y=e)(x=xv), g(y=Tensor(np.array(val)))
    print(name, float(got.data), float(want.data))
    assert np.allclose(got.data, want.data), name
print("ok")
