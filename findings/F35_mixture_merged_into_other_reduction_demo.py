"""F35 (C02): before the fix, normalize_contraction_commute_joint merged a logaddexp Gaussian mixture into an outer contraction with a
DIFFERENT reduction: max_j(logaddexp_i(t[i] + g[i, y]) + u[j]) was normalized to a max over {i, j} (0.9229 instead of 0.9397 at y = 0.3).
After the fix the rule declines; the normal form keeps the two reductions apart.
Run: PYTHONPATH=/repo /venv/bin/python findings/F35_mixture_merged_into_other_reduction_demo.py  (exit 0 = correct)"""
from collections import OrderedDict
import numpy as np
import funsor
from funsor import Bint, Real, Variable, ops
from funsor.cnf import Contraction
from funsor.interpretations import normalize
from funsor.testing import random_gaussian, random_tensor
funsor.set_backend("numpy")
np.random.seed(0)
t = random_tensor(OrderedDict(i=Bint[2]))
g = random_gaussian(OrderedDict(i=Bint[2], y=Real))
u = random_tensor(OrderedDict(j=Bint[3]))
i, j = Variable("i", Bint[2]), Variable("j", Bint[3])
with normalize:
    inner = Contraction(ops.logaddexp, ops.add, frozenset({i}), t, g)
    e = Contraction(ops.max, ops.add, frozenset({j}), inner, u)
print(type(e).__name__, e.red_op, sorted(v.name.split("__")[0] for v in e.reduced_vars))
# the outer max may not have swallowed the mixture's variable i
assert not (e.red_op is ops.max and len(e.reduced_vars) == 2), "mixture variable reduced with max"
print("ok")
