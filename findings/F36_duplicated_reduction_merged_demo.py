"""F36 (C08, C02, C05): before the fix, unfold / normalize merged two nested reductions that bind the SAME variable (copies of a duplicated
subterm keep their mangled bound names): ((x+y).reduce(add,"i"))**2 gave [299, 989, 2079] after apply_optimizer instead of [529, 1849, 3969];
the logaddexp and the real-parameter versions failed the same way.
Run: PYTHONPATH=/repo /venv/bin/python findings/F36_duplicated_reduction_merged_demo.py  (exit 0 = correct)"""
import numpy as np, funsor
from collections import OrderedDict
from funsor import Bint, Tensor, ops, Real, Variable
from funsor.interpretations import lazy, normalize
from funsor.optimizer import apply_optimizer
funsor.set_backend("numpy")
x=Tensor(np.array([1.,2.]), OrderedDict(i=Bint[2])); y=Tensor(np.array([10.,20.,30.]), OrderedDict(j=Bint[3]))
p=Variable("p",Real)
cases=[]
with lazy:
    r=(x+y).reduce(ops.add,"i"); cases.append(("add-mul", r*r, {}))
    l=ops.logaddexp(x,y).reduce(ops.logaddexp,"i"); cases.append(("log", l+l, {}))
    q=(x+p).reduce(ops.add,"i"); cases.append(("param", q*q, {"p": Tensor(np.array(10.))}))
for name,e,sub in cases:
    naive=funsor.reinterpret(e); opt=funsor.reinterpret(apply_optimizer(e))
    if sub: naive=naive(**sub); opt=opt(**sub)
    print(name, naive.data, opt.data)
    assert np.allclose(naive.data,opt.data), name
with normalize:
    n=(x+y).reduce(ops.add,"i"); nn=n*n
assert np.allclose(funsor.reinterpret(nn).data, [529.,1849.,3969.])
print("ok")
