"""F37 (C04, R04.25): affine_inputs of a sum was the union of the operands' affine inputs, so y + y*y (y affine in the left
operand, present but not affine in the right one) was declared affine in y; substituting it into a Gaussian then used the
linear change-of-variables path and returned the density of x = 2*y."""
import sys
from collections import OrderedDict
import numpy as np
import funsor
from funsor import Variable, Real, Tensor
from funsor.affine import affine_inputs, is_affine
from funsor.testing import random_gaussian

funsor.set_backend("numpy")
np.random.seed(0)
y = Variable("y", Real)
bad = []
for name, e in [("y + y*y", y + y * y), ("y - y.exp()", y - y.exp()), ("y*y + y", y * y + y)]:
    if is_affine(e) or "y" in affine_inputs(e):
        bad.append(f"{name}: affine_inputs = {set(affine_inputs(e))}")
g = random_gaussian(OrderedDict(x=Real))
r = g(x=y + y * y)
for v in (0.7, -1.3):
    got = r(y=Tensor(np.array(v)))
    want = g(x=Tensor(np.array(v + v * v)))
    if not np.allclose(got.data, want.data):
        bad.append(f"g(x=y+y*y)(y={v}) = {float(got.data):.4f}, want {float(want.data):.4f}")
# sanity: genuinely affine sums still are
z = Variable("z", Real)
assert is_affine(y + 2 * z) and is_affine(y - 3.0) and affine_inputs(2 * y + z * z) == frozenset({"y"})
if "y" in affine_inputs(y * z + y):
    bad.append("y*z + y: affine_inputs contains y")
if bad:
    print("FAIL:", *bad, sep="\n  ")
    sys.exit(1)
print("OK")
