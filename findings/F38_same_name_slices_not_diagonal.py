"""F38 (C04, R04.27): Tensor.eager_subs substitutes Variables and Slices by renaming, and materialises a value instead when the
same variable is substituted for two inputs (a diagonal).  Only Variables were counted, so two Slices over the same name - or a
Variable and a Slice - were both applied by renaming: the second renaming overwrote the first input."""
import sys
from collections import OrderedDict
import numpy as np
import funsor
from funsor import Tensor, Variable, Bint, Slice

funsor.set_backend("numpy")
x = np.arange(16.0).reshape(4, 4)
t = Tensor(x, OrderedDict(a=Bint[4], b=Bint[4]))
bad = []


def check(label, r, want, names):
    if tuple(r.inputs) != names or r.output.shape != () or not np.allclose(r.data, want):
        bad.append(f"{label}: inputs {dict(r.inputs)}, output {r.output}, data {np.asarray(r.data).tolist()} (want inputs {names}, data {want.tolist()})")


check("two slices", t(a=Slice("k", 0, 4, 2, 4), b=Slice("k", 0, 4, 2, 4)), np.array([x[0, 0], x[2, 2]]), ("k",))
check("variable and slice", t(a=Variable("k", Bint[4]), b=Slice("k", 0, 4, 1, 4)), np.diag(x), ("k",))
check("slices of different parts", t(a=Slice("k", 0, 2, 1, 4), b=Slice("k", 2, 4, 1, 4)), np.array([x[0, 2], x[1, 3]]), ("k",))
# controls: plain diagonal by variables, independent slices
check("two variables", t(a="k", b="k"), np.diag(x), ("k",))
r = t(a=Slice("k", 0, 4, 2, 4), b=Slice("m", 1, 3, 1, 4))
if tuple(r.inputs) != ("k", "m") or not np.allclose(r.data, x[0:4:2, 1:3]):
    bad.append("independent slices changed")
if bad:
    print("FAIL:", *bad, sep="\n  ")
    sys.exit(1)
print("OK")
