"""F39 (C06 R06.18 / C05 R05.15): eager Independent(Delta) binds the batch variable in the term named diag_var only and copies the
other terms of the Delta unchanged; if one of them depends on the batch variable the evaluated result has it as a free input that
the lazy term does not declare."""
import sys
from collections import OrderedDict
import numpy as np
import funsor
from funsor import Tensor, Bint, Reals, Real, Independent, Number
from funsor.delta import Delta
from funsor.interpretations import lazy, reflect
from funsor.interpreter import reinterpret

funsor.set_backend("numpy")
p = Tensor(np.arange(3.0), OrderedDict(i=Bint[3]))
q = Tensor(np.arange(3.0) * 2, OrderedDict(i=Bint[3]))
zero = Number(0.0)
bad = []
with reflect:
    d = Delta((("x_i", (p, zero)), ("y", (q, zero))))
    term = Independent(d, "x", "i", "x_i")
declared = dict(term.inputs)
value = reinterpret(term)
if set(value.inputs) != set(declared):
    bad.append(f"lazy term declares inputs {sorted(declared)}, eager evaluation returns {type(value).__name__} with inputs {sorted(value.inputs)}")
# control: only the diagonal term depends on i
with reflect:
    d2 = Delta((("x_i", (p, zero)), ("y", (Tensor(np.array(5.0)), zero))))
    term2 = Independent(d2, "x", "i", "x_i")
v2 = reinterpret(term2)
if set(v2.inputs) != set(term2.inputs) or not isinstance(v2, Delta):
    bad.append("control changed: %r" % (v2,))
if bad:
    print("FAIL:", *bad, sep="\n  ")
    sys.exit(1)
print("OK")
