# Known finding F3 (property C06): the static type of integer floor division is not an upper bound of its values.
from funsor.domains import Bint, find_domain
from funsor import ops
from funsor.terms import Number
out = find_domain(ops.floordiv, Bint[5], Bint[3])
val = ops.floordiv(4, 1)
print("declared", out, "value", val)
assert val < out.size, f"4 // 1 = {val} is not in [0, {out.size}) although both operands are in range"
