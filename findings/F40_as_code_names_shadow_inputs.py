"""F40 (C18, R18.16): OpProgram.as_code() names its locals v0, v1, ... and first copies every input into one of them; the inputs are
the parameters of the printed function, so an input that is itself called v0 / v1 is overwritten before it is read."""
import sys
import numpy as np
import funsor
from funsor import Variable, Real
from funsor.compiler import compile_funsor

funsor.set_backend("numpy")
bad = []
for names in (("v1", "v0"), ("v0", "v1"), ("v2", "a"), ("a", "b")):
    x, y = (Variable(n, Real) for n in names)
    expr = x ** y
    program = compile_funsor(expr)
    subs = {names[0]: np.array(2.0), names[1]: np.array(3.0)}
    want = program(**subs)
    env = {}
    exec(program.as_code(name="printed"), None, env)
    got = env["printed"](**subs)
    if not np.allclose(got, want) or not np.allclose(want, 8.0):
        bad.append(f"inputs {names}: program gives {float(want)}, printed source gives {float(got)}")
if bad:
    print("FAIL:", *bad, sep="\n  ")
    sys.exit(1)
print("OK")
