"""F41 (C04, R04.28): Tensor.eager_subs materialises the values of two inputs that are renamed onto one name (a diagonal), but
the keys stayed in the set of inputs 'renamed away' that the clash test consults, so a third renaming onto one of those keys was
applied by renaming although the key keeps its name: two inputs collapsed into one and a batch dim ended up in the output."""
import sys
from collections import OrderedDict
import itertools
import numpy as np
import funsor
from funsor import Tensor, Variable, Bint

funsor.set_backend("numpy")
x = np.arange(27.0).reshape(3, 3, 3)
t = Tensor(x, OrderedDict(i=Bint[3], j=Bint[3], k=Bint[3]))
bad = []
cases = [
    dict(i="a", j="a", k="i"),
    dict(i="i", j="i", k="j"),
    dict(i="k", j="k", k="i"),
    dict(i="j", j="i", k="i"),
]
for subs in cases:
    r = t(**{k: Variable(v, Bint[3]) for k, v in subs.items()})
    names = tuple(dict.fromkeys(subs.values()))
    if set(r.inputs) != set(names) or r.output.shape != ():
        bad.append(f"{subs}: inputs {dict(r.inputs)}, output {r.output}")
        continue
    r = r.align(names)
    want = np.empty((3,) * len(names))
    for pt in itertools.product(range(3), repeat=len(names)):
        env = dict(zip(names, pt))
        want[pt] = x[env[subs["i"]], env[subs["j"]], env[subs["k"]]]
    if not np.allclose(r.data, want):
        bad.append(f"{subs}: wrong values")
if bad:
    print("FAIL:", *bad, sep="\n  ")
    sys.exit(1)
print("OK")
