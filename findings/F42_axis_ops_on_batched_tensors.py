"""F42 (C01 R01.29, known finding): unary ops that carry an axis parameter but are not ReductionOps (argmax, argmin, flip, transpose,
permute, diagonal, unsqueeze) have no eager rule for Tensor; the generic Tensor.eager_unary applies them to the raw array, whose
leading dims are the batch inputs, so a non-negative axis addresses a batch dim instead of an output dim."""
import sys
from collections import OrderedDict
import numpy as np
import funsor
from funsor import Tensor, Bint, ops

funsor.set_backend("numpy")
rng = np.random.RandomState(0)
d = rng.randn(3, 3, 3)
x = Tensor(d, OrderedDict(i=Bint[3]))          # output Reals[3, 3]
bad = []


def check(label, got, want):
    got = np.asarray(got.data)
    if got.shape != want.shape or not np.allclose(got, want):
        bad.append(f"{label}: shape {got.shape} (want {want.shape})" + ("" if got.shape != want.shape else ", wrong values"))


try:
    check("argmax(0)", x.argmax(0), np.stack([d[i].argmax(0) for i in range(3)]))
except Exception as e:
    bad.append("argmax(0): raised %r" % (e,))
check("flip(x, 0)", ops.flip(x, 0), np.stack([np.flip(d[i], 0) for i in range(3)]))
check("transpose(x, 0, 1)", ops.transpose(x, 0, 1), np.stack([d[i].T for i in range(3)]))
# controls: negative axes address output dims
check("argmax(-2)", x.argmax(-2), np.stack([d[i].argmax(0) for i in range(3)]))
check("flip(x, -2)", ops.flip(x, -2), np.stack([np.flip(d[i], 0) for i in range(3)]))
if bad:
    print("FAIL:", *bad, sep="\n  ")
    sys.exit(1)
print("OK")
