"""F43 (C09, R09.9): _partition builds its bipartite graph in a dict keyed by the factors themselves; terms are interned, so a factor
that occurs twice in the list is one key and the second occurrence is dropped from the product."""
import sys
from collections import OrderedDict
import numpy as np
import funsor
import funsor.ops as ops
from funsor import Tensor, Bint
from funsor.sum_product import sum_product, partial_sum_product

funsor.set_backend("numpy")
rng = np.random.RandomState(0)
F = rng.rand(2, 3) + 0.1
G = rng.rand(2) + 0.1
f = Tensor(F, OrderedDict(a=Bint[2], i=Bint[3]))
g = Tensor(G, OrderedDict(a=Bint[2]))
bad = []
got = sum_product(ops.add, ops.mul, [f, f, g], frozenset("ai"), frozenset("i"))
want = (G * (F ** 2).prod(1)).sum()
if not np.allclose(got.data, want):
    bad.append(f"sum_product([f, f, g]) = {float(got.data):.5f}, want sum_a g(a) prod_i f(a,i)^2 = {want:.5f}")
got = sum_product(ops.add, ops.mul, [f, g, f], frozenset("a"), frozenset())
want2 = (G[:, None] * F ** 2).sum(0)
if not np.allclose(got.data, want2):
    bad.append("sum_product([f, g, f]) over a: wrong")
# control: distinct factors
f2 = Tensor(F.copy(), OrderedDict(a=Bint[2], i=Bint[3]))
got = sum_product(ops.add, ops.mul, [f, f2, g], frozenset("ai"), frozenset("i"))
if not np.allclose(got.data, want):
    bad.append("control with two distinct but equal factors changed")
if bad:
    print("FAIL:", *bad, sep="\n  ")
    sys.exit(1)
print("OK")
