"""F44 (C13, R13.3): the plate-sum branch of Gaussian.eager_reduce numbers the batch axes with enumerate() over ALL inputs, real ones
included, although the arrays have one leading axis per INTEGER input only; with a real input in front of an integer one the
permutation is out of range / repeated and the reduction does not complete."""
import sys
from collections import OrderedDict
import numpy as np
import funsor
import funsor.ops as ops
from funsor import Bint, Real, Reals, Tensor
from funsor.gaussian import Gaussian

funsor.set_backend("numpy")
rng = np.random.RandomState(0)
bad = []


def check(label, inputs, plate):
    sizes = [d.size for d in inputs.values() if d.dtype != "real"]
    dim = sum(d.num_elements for d in inputs.values() if d.dtype == "real")
    g = Gaussian(rng.randn(*sizes, dim), rng.randn(*sizes, dim, dim) + 2 * np.eye(dim), inputs)
    try:
        r = g.reduce(ops.add, plate)
    except Exception as e:
        bad.append(f"{label}: raised {type(e).__name__}: {str(e)[:60]}")
        return
    # compare at a point with the explicit sum over the plate
    point = {k: Tensor(np.asarray(rng.randn(*d.shape))) for k, d in inputs.items() if d.dtype == "real"}
    want = sum(g(**{plate: j}, **point) for j in range(inputs[plate].size))
    got = r(**point)
    others = [k for k in got.inputs]
    if not np.allclose(got.align(tuple(others)).data, want.align(tuple(others)).data):
        bad.append(f"{label}: wrong value")


check("int first (control)", OrderedDict(i=Bint[2], x=Real), "i")
check("real first", OrderedDict(x=Real, i=Bint[2]), "i")
check("interleaved", OrderedDict(i=Bint[2], x=Real, j=Bint[3]), "j")
check("two reals then two ints", OrderedDict(x=Reals[2], i=Bint[2], y=Real, j=Bint[3]), "i")
if bad:
    print("FAIL:", *bad, sep="\n  ")
    sys.exit(1)
print("OK")
