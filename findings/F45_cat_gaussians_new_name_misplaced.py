"""F45 (C12, R12.7): concatenating Gaussians along part_name into a NEW name deletes part_name from the inputs and appends the new
name at the end, although the data are concatenated on axis 0 (where part_name was): with another batch input the declared
inputs no longer match the layout of the arrays."""
import sys
from collections import OrderedDict
import numpy as np
import funsor
from funsor import Bint, Reals, Tensor
from funsor.gaussian import Gaussian
from funsor.terms import Cat

funsor.set_backend("numpy")
rng = np.random.RandomState(0)


def gauss(n_i, n_j):
    return Gaussian(rng.randn(n_i, n_j, 2), rng.randn(n_i, n_j, 2, 2) + 2 * np.eye(2), OrderedDict(i=Bint[n_i], j=Bint[n_j], x=Reals[2]))


bad = []
for nj in (3, 2):
    g1, g2 = gauss(2, nj), gauss(1, nj)
    try:
        c = Cat("k", (g1, g2), "i")
    except Exception as e:
        bad.append(f"j of size {nj}: raised {type(e).__name__}")
        continue
    x = Tensor(rng.randn(2))
    for k in range(3):
        for j in range(nj):
            want = (g1(i=k, j=j, x=x) if k < 2 else g2(i=k - 2, j=j, x=x)).data
            got = c(k=k, j=j, x=x).data
            if not np.allclose(got, want):
                bad.append(f"j of size {nj}: value at k={k}, j={j} is {float(got):.4f}, want {float(want):.4f}")
                break
        else:
            continue
        break
# control: same name
g1, g2 = gauss(2, 3), gauss(1, 3)
c = Cat("i", (g1, g2), "i")
x = Tensor(rng.randn(2))
assert np.allclose(c(i=2, j=1, x=x).data, g2(i=0, j=1, x=x).data)
if bad:
    print("FAIL:", *bad, sep="\n  ")
    sys.exit(1)
print("OK")
