from collections import OrderedDict
import numpy as np, sys
import funsor
from funsor import Real, Reals, Tensor, Bint
from funsor.gaussian import Gaussian
funsor.set_backend("numpy")
rng=np.random.default_rng(0)
bad=0
for ins in [OrderedDict(x=Real,y=Reals[2],z=Real), OrderedDict(i=Bint[2],x=Real,y=Real), OrderedDict(x=Real)]:
    dim=sum(d.num_elements for d in ins.values() if d.dtype=="real")
    b=tuple(d.size for d in ins.values() if d.dtype!="real")
    g=Gaussian(white_vec=rng.normal(size=b+(dim,)),prec_sqrt=rng.normal(size=b+(dim,dim)),inputs=ins)
    try:
        a=g(x=0.5)
    except Exception as e:
        print("FAIL", list(ins), type(e).__name__, e); bad=1; continue
    ref=g(x=Tensor(np.array(0.5)))
    pt={k:Tensor(rng.normal(size=d.shape)) for k,d in ins.items() if d.dtype=="real" and k!="x"}
    va=a(**pt) if pt else a; vr=ref(**pt) if pt else ref
    if not np.allclose(va.data,vr.data): print("WRONG",list(ins)); bad=1
print("violated" if bad else "holds"); sys.exit(bad)
