"""Integrate(Gaussian, Gaussian, reduced) with an integer variable among the reduced ones, or with an integer input that only one
operand has.  Reference: integrate the reals only (the supported path, on operands given the same batch inputs), then sum the integers."""
from collections import OrderedDict
import sys
import numpy as np
import funsor, funsor.ops as ops
from funsor import Bint, Reals, Tensor
from funsor.gaussian import Gaussian
from funsor.integrate import Integrate
funsor.set_backend("numpy")
rng = np.random.default_rng(0)

def gauss(ins):
    b = tuple(d.size for d in ins.values() if d.dtype != "real")
    dim = sum(d.num_elements for d in ins.values() if d.dtype == "real")
    return Gaussian(white_vec=rng.normal(size=b + (dim,)), prec_sqrt=rng.normal(size=b + (dim, dim)) + 2 * np.eye(dim), inputs=ins)

bad = 0
g = gauss(OrderedDict(i=Bint[2], j=Bint[3], x=Reals[2]))
f = gauss(OrderedDict(j=Bint[3], x=Reals[2]))
ref = Integrate(g, f, frozenset({"x"}))
for red in [{"x", "j"}, {"x", "i"}, {"x", "i", "j"}]:
    try:
        got = Integrate(g, f, frozenset(red))
    except Exception as e:
        print("FAIL", sorted(red), type(e).__name__, str(e)[:60]); bad = 1; continue
    want = ref.reduce(ops.add, frozenset(red - {"x"}))
    if not (isinstance(got, Tensor) and set(got.inputs) == set(want.inputs) and np.allclose(got.align(tuple(want.inputs)).data, want.data)):
        print("WRONG", sorted(red)); bad = 1
# an integer input only the integrand has
f2 = gauss(OrderedDict(k=Bint[2], x=Reals[2]))
try:
    got = Integrate(g, f2, frozenset({"x"}))
    for kk in range(2):
        want = Integrate(g, f2(k=kk), frozenset({"x"}))
        if not np.allclose(got(k=kk).align(tuple(want.inputs)).data, want.data):
            print("WRONG k", kk); bad = 1
except Exception as e:
    print("FAIL integrand-only input", type(e).__name__, str(e)[:60]); bad = 1
print("violated" if bad else "holds"); sys.exit(bad)
