"""Integrate against a Gaussian mixture that was lazily reduced over its integer input: the measure is
logaddexp_i (t[i] + g[i](x)); the integral of x (or of a Gaussian f) against it is sum_i of the per-component integrals."""
from collections import OrderedDict
import sys
import numpy as np
import funsor, funsor.ops as ops
from funsor import Bint, Real, Tensor, Variable
from funsor.gaussian import Gaussian
from funsor.integrate import Integrate
funsor.set_backend("numpy")
rng = np.random.default_rng(1)
t = Tensor(np.array([0.3, -0.2]), OrderedDict(i=Bint[2]))
g = Gaussian(white_vec=rng.normal(size=(2, 1)), prec_sqrt=rng.normal(size=(2, 1, 1)) + 2.0, inputs=OrderedDict(i=Bint[2], x=Real))
f = Gaussian(white_vec=rng.normal(size=(1,)), prec_sqrt=rng.normal(size=(1, 1)) + 1.5, inputs=OrderedDict(x=Real))
m = (t + g).reduce(ops.logaddexp, "i")          # stays a lazy mixture contraction
bad = 0
for name, integrand in [("variable", Variable("x", Real)), ("gaussian", f)]:
    want = Integrate(t + g, integrand, frozenset({"x", "i"}))     # the eager, supported path
    got = Integrate(m, integrand, frozenset({"x"}))
    ok = isinstance(got, Tensor) and not got.inputs and np.allclose(got.data, want.data)
    print(name, "inputs", dict(getattr(got, "inputs", {})), "value", getattr(got, "data", got), "expected", want.data, "OK" if ok else "WRONG")
    bad |= not ok
print("violated" if bad else "holds"); sys.exit(int(bad))
