"""A Delta at a Number point evaluated at a Number value."""
import sys, math
import numpy as np
import funsor, funsor.ops as ops
from funsor import Number, Real, Tensor, Variable
from funsor.delta import Delta
from funsor.integrate import Integrate
funsor.set_backend("numpy")
bad = 0
def tryit(name, f, want):
    global bad
    try:
        got = f()
    except Exception as e:
        print(name, "raises", type(e).__name__, str(e)[:70]); bad = 1; return
    val = got.data if isinstance(got, (Number, Tensor)) else got
    ok = isinstance(got, (Number, Tensor)) and (val == want or (math.isinf(want) and val == want))
    print(name, "->", val, "expected", want, "OK" if ok else "WRONG"); bad |= not ok
d = Delta("x", Number(2.0))
tryit("at the point (float)", lambda: d(x=2.0), 0.0)
tryit("at the point (Number)", lambda: d(x=Number(2.0)), 0.0)
tryit("elsewhere", lambda: d(x=Number(3.0)), -math.inf)
tryit("with a density", lambda: Delta("x", Number(2.0), Number(0.5))(x=2.0), 0.5)
tryit("integrate", lambda: Integrate(d, -(Variable("x", Real) ** 2), "x"), -4.0)
print("violated" if bad else "holds"); sys.exit(bad)
