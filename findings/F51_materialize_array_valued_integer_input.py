"""materialize() and an integer input that is array-valued: an arange over Bint[n] cannot stand for it."""
import sys
import numpy as np
import funsor
from funsor import Tensor, Variable, Bint
from funsor.domains import Array
funsor.set_backend("numpy")
proto = Tensor(np.zeros(2))
bad = 0
v = Variable("v", Array[3, (2,)])          # an integer-valued input of shape (2,), entries in {0, 1, 2}
m = proto.materialize(v)
print("materialize(v): inputs", dict(m.inputs), "output", m.output)
if dict(m.inputs) != dict(v.inputs) or m.output != v.output:
    print("WRONG: the input `v` changed from", v.inputs["v"], "to", m.inputs.get("v"), "and the output from", v.output, "to", m.output); bad = 1
# scalar bounded integers are still enumerated
w = proto.materialize(Variable("w", Bint[3]))
if not (isinstance(w, Tensor) and list(w.data) == [0, 1, 2] and dict(w.inputs) == {"w": Bint[3]}):
    print("WRONG: scalar integer input no longer materialised", w); bad = 1
print("violated" if bad else "holds"); sys.exit(bad)
