"""A Gaussian of rank 2 over three real inputs carries too little information to be normalised: reducing all of x, y, z must raise.
Reducing them one after the other returns a number instead."""
from collections import OrderedDict
import sys
import numpy as np
import funsor, funsor.ops as ops
from funsor import Real, Tensor
from funsor.gaussian import Gaussian
funsor.set_backend("numpy")
rng = np.random.RandomState(0)
g = Gaussian(white_vec=rng.randn(2), prec_sqrt=rng.randn(3, 2), inputs=OrderedDict(x=Real, y=Real, z=Real))
bad = 0
try:
    g.reduce(ops.logaddexp, frozenset({"x", "y", "z"}))
    print("all at once: returned a value"); bad = 1
except Exception as e:
    print("all at once: raises", type(e).__name__)
import itertools
for order in itertools.permutations("xyz"):
    try:
        r = g
        for v in order:
            r = r.reduce(ops.logaddexp, v)
        print("one by one", order, "-> returned", getattr(r, "data", r)); bad = 1
    except Exception as e:
        print("one by one", order, "-> raises", type(e).__name__)
print("violated" if bad else "holds"); sys.exit(bad)
