"""find_domain types every unary op that has no rule of its own by the generic rule (same shape, same dtype).  For the ops below the
array implementation returns another shape and / or dtype."""
import sys
import numpy as np
import funsor, funsor.ops as ops
from funsor.domains import Reals, find_domain
funsor.set_backend("numpy")
x = np.arange(24.0).reshape(2, 3, 4)
sq = np.arange(18.0).reshape(3, 3, 2)
cases = [
    ("unsqueeze", ops.UnsqueezeOp(0), x), ("transpose", ops.TransposeOp(0, 2), x), ("permute", ops.PermuteOp((2, 0, 1)), x),
    ("expand", ops.ExpandOp((5, 2, 3, 4)), x), ("argmax", ops.ArgmaxOp(-1), x), ("argmin", ops.ArgminOp(0, True), x),
    ("diagonal", ops.DiagonalOp(0, 1), sq), ("isnan", ops.isnan, x), ("new_zeros", ops.NewZerosOp((5,)), x), ("new_full", ops.NewFullOp((5,), 1.0), x),
    ("new_eye", ops.NewEyeOp((2,)), x), ("new_arange", ops.NewArangeOp(0, 5, 1), x), ("randn", ops.RandnOp((5,)), x),
]
bad = 0
for name, op, arr in cases:
    static = find_domain(op, Reals[arr.shape])
    actual = op(arr)
    a_dtype = "real" if actual.dtype.kind == "f" else actual.dtype.kind
    ok = static.shape == actual.shape and (static.dtype == "real") == (actual.dtype.kind == "f")
    print(f"{name:11s} static {static!s:18s} actual shape {actual.shape} dtype {actual.dtype}", "OK" if ok else "MISMATCH")
    bad |= not ok
print("violated" if bad else "holds"); sys.exit(int(bad))
