"""deep_issubclass must answer for a parametrised Tuple / FrozenSet against a plain class (the relation is transitive: Tuple[int] <= tuple <= object)."""
import sys
from typing import FrozenSet, Tuple
from funsor.typing import deep_issubclass
bad = 0
for sub, sup, want in [(Tuple[int], object, True), (Tuple[int, ...], object, True), (FrozenSet[int], object, True), (Tuple[int], int, False), (Tuple[int], tuple, True), (tuple, object, True)]:
    try:
        got = deep_issubclass(sub, sup)
        ok = got is want
        print(sub, "<=", sup, "->", got, "OK" if ok else "WRONG")
    except Exception as e:
        print(sub, "<=", sup, "raises", type(e).__name__, e); ok = False
    bad |= not ok
print("violated" if bad else "holds"); sys.exit(int(bad))
