"""Adjoint of a renamed leaf when the root keeps a free variable the leaf does not mention."""
import sys
import numpy as np
import funsor, funsor.ops as ops
from funsor import Bint, Tensor
from funsor.adjoint import forward_backward
from funsor.interpretations import reflect
from collections import OrderedDict
funsor.set_backend("numpy")
rng = np.random.default_rng(0)
x = Tensor(rng.random(3), OrderedDict(a=Bint[3]))
y = Tensor(rng.random((3, 2)), OrderedDict(b=Bint[3], c=Bint[2]))
bad = 0
for sum_op, prod_op in [(ops.add, ops.mul), (ops.logaddexp, ops.add)]:
    with reflect:
        expr = prod_op(x(a="b"), y).reduce(sum_op, "b")
    fwd, adj = forward_backward(sum_op, prod_op, expr)
    got = adj[x]
    # semiring derivative of root[c] w.r.t. x[a]: y[a, c]; the property sums over the variables the leaf does not mention
    want_full = y(b="a")
    want_sum = want_full.reduce(sum_op, "c")
    ok = (set(got.inputs) == {"a", "c"} and np.allclose(got.align(("a", "c")).data, want_full.data)) or (set(got.inputs) == {"a"} and np.allclose(got.data, want_sum.data))
    print(sum_op.name, "adjoint inputs", list(got.inputs), "data", np.round(np.asarray(got.data), 3).tolist(), "| y[a, c] =", np.round(want_full.data, 3).tolist(), "OK" if ok else "WRONG")
    bad |= not ok
print("violated" if bad else "holds"); sys.exit(int(bad))
