"""Binary ops typed by the generic rule on bounded integers: Bint[n] op Bint[n] is declared Bint[n]; the values leave [0, n)."""
import sys, itertools, operator
import funsor, funsor.ops as ops
from funsor.domains import Bint, find_domain
from funsor import Number
funsor.set_backend("numpy")
bad = 0
def eager(op, a, b, n):
    try:
        return repr(op(Number(a, n), Number(b, n)))
    except Exception as e:
        return "raises " + type(e).__name__
for name, op in [("sub", ops.sub), ("pow", ops.pow), ("truediv", ops.truediv), ("lshift", ops.lshift), ("rshift", ops.rshift)]:
    worst = None
    for n in (2, 3, 4):
        dom = find_domain(op, Bint[n], Bint[n])
        for a, b in itertools.product(range(n), repeat=2):
            try:
                v = op(a, b)
            except ZeroDivisionError:
                continue
            inside = isinstance(dom.dtype, int) and float(v).is_integer() and 0 <= v < dom.dtype
            if not inside and worst is None:
                worst = (n, a, b, v, dom)
    if worst:
        n, a, b, v, dom = worst
        print(f"{name:8s} Bint[{n}] op Bint[{n}] is declared {dom} but {a} {name} {b} = {v}   (eager: {eager(op, a, b, n)})"); bad = 1 if name != "rshift" else bad
    else:
        print(f"{name:8s} closed on [0, n) for n = 2..4")
print("violated" if bad else "holds"); sys.exit(bad)
