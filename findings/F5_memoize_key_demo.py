import funsor
from funsor import ops, Variable, Real, Number
from funsor.terms import Stack, Tuple, Funsor
from funsor.interpretations import memoize
from funsor.factory import make_funsor, Fresh, Bound
from funsor.domains import Real

@make_funsor
def Foo(x: Funsor) -> Fresh[lambda x: x]:
    return None
@make_funsor
def Bar(x: Funsor) -> Fresh[lambda x: x]:
    return None
x = Variable("x", Real)
with funsor.interpretations.lazy:
  with memoize():
    a = Foo(x)
    b = Bar(x)
print(type(a).__name__, type(b).__name__, a is b)
assert type(b).__name__.startswith("Bar")
