# jax is not installed in this sandbox: stand in numpy for jax.numpy (the registration code only needs the names),
# import the real funsor/jax/ops.py and call the function it registers for ops.amin.
import sys, types, numpy
import scipy.special, scipy.linalg
def mod(name, **kw):
    m = types.ModuleType(name); m.__dict__.update(kw); sys.modules[name] = m; return m
jnp = types.ModuleType("jax.numpy"); jnp.__dict__.update({k: getattr(numpy, k) for k in dir(numpy) if not k.startswith("__")})
sys.modules["jax.numpy"] = jnp
jax = mod("jax", numpy=jnp, lax=mod("jax.lax"))
mod("jax.random"); jax.random = sys.modules["jax.random"]
class Tracer: pass
mod("jax.core", Tracer=Tracer)
mod("jax.scipy"); mod("jax.scipy.linalg", cho_solve=scipy.linalg.cho_solve, solve_triangular=scipy.linalg.solve_triangular)
mod("jax.scipy.special", expit=scipy.special.expit, gammaln=scipy.special.gammaln, logsumexp=scipy.special.logsumexp)
import importlib.util
spec = importlib.util.spec_from_file_location("funsor.jax.ops", "funsor/jax/ops.py", submodule_search_locations=None)
import funsor, funsor.ops
jops = importlib.util.module_from_spec(spec); jops.__package__ = "funsor.jax"; sys.modules["funsor.jax"] = types.ModuleType("funsor.jax"); sys.modules["funsor.jax"].__path__ = ["funsor/jax"]; spec.loader.exec_module(jops)
x = numpy.array([3.0, 1.0, 2.0])
print("jax-backend amin([3,1,2]) =", jops._amin(x, None, False))
assert jops._amin(x, None, False) == 1.0
