"""F7 (C15): before the fix commit, ops.safesub(-inf, -inf) on Python scalars / Number funsors was nan, on arrays -inf.
Run: PYTHONPATH=/repo /venv/bin/python findings/F7_scalar_safesub_nan_demo.py  (exit 0 = correct)"""
import math

import numpy as np

import funsor
from funsor import ops
from funsor.terms import Number

inf = math.inf
s = ops.safesub(-inf, -inf)
a = ops.safesub(np.array(-inf), np.array(-inf))
n = ops.safesub(Number(-inf), Number(-inf))
assert s == s and s == float(a), f"scalar safesub(-inf, -inf) = {s}, array gives {a}"
assert float(n.data) == float(a), f"Number safesub = {n.data}"
print("ok")
