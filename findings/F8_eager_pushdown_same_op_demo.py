"""F8 (C01/C02/C08): before fix commit, eager (x + t[i]).reduce(ops.add, "i") gave x + 6 instead of 3*x + 6.
Run: PYTHONPATH=/repo /venv/bin/python findings/F8_eager_pushdown_same_op_demo.py  (exit 0 = correct)"""
from collections import OrderedDict

import numpy as np

import funsor
from funsor import Bint, Real, Tensor, Variable, ops

funsor.set_backend("numpy")
x = Variable("x", Real)
t = Tensor(np.array([1.0, 2.0, 3.0]), OrderedDict(i=Bint[3]))
got = (x + t).reduce(ops.add, "i")(x=10.0)
assert abs(float(got.data) - 36.0) < 1e-9, f"sum_i (x + t_i) at x=10: got {got.data}, expected 36"
got = (x * t).reduce(ops.mul, "i")(x=2.0)
assert abs(float(got.data) - 48.0) < 1e-9, f"prod_i (x * t_i) at x=2: got {got.data}, expected 48"
print("ok")
