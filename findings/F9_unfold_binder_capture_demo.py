"""F9 (C05/C08): before the fix commit, unfold / apply_optimizer evaluated v * v (v a lazy reduction) to sum_i b_i**2.
Run: PYTHONPATH=/repo /venv/bin/python findings/F9_unfold_binder_capture_demo.py  (exit 0 = correct)"""
from collections import OrderedDict

import numpy as np

import funsor
from funsor import Bint, Tensor, ops
from funsor.interpretations import lazy
from funsor.optimizer import apply_optimizer

funsor.set_backend("numpy")
b = Tensor(np.array([1.0, 2.0, 3.0]), OrderedDict(i=Bint[3]))
with lazy:
    v = b.reduce(ops.add, "i")
    vv = v * v
got = float(apply_optimizer(vv).data)
assert abs(got - 36.0) < 1e-9, f"(sum_i b_i)**2 = 36, optimizer gave {got}"
print("ok")
