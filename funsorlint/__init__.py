"""funsorlint - repository-specific static analysis deciding structural clauses of the funsor properties."""
