"""Command line:  python -m funsorlint check <C17|...> --tier quick|thorough [--repo /repo]

Exit codes: 0 every obligation ok (or a listed known finding); 1 VIOLATION; 2 ANALYSIS-ERROR.
"""
from __future__ import annotations

import argparse
import importlib
import json
import os
import sys
import time
import traceback

from .model import AnalysisError, Program
from .report import Collector, finish

CLAIMED = ["C01", "C02", "C03", "C04", "C05", "C06", "C07", "C08", "C09", "C10", "C11", "C12", "C13", "C14", "C15", "C16", "C17", "C18", "C19", "C20"]


def build_program(repo: str, tier: str) -> Program:
    extra = ("test", "examples", "scripts") if tier == "thorough" else ()
    return Program(repo, extra_dirs=extra)


def run_check(prop: str, tier: str, repo: str, evidence_dir=None, quiet=False, seed=0) -> int:
    t0 = time.time()
    mod = importlib.import_module(f"funsorlint.rules.{prop.lower()}")
    prog = build_program(repo, tier)
    col = Collector(prop)
    mod.run(prog, col, tier)
    stats = {"modules": len(prog.modules) + len(prog.extra_modules), "functions": len(prog.funcs),
             "digest": prog.digest(), "repo": prog.repo}
    return finish(col, tier, seed, t0, stats, mod.EXPLANATION, mod.ASSUMPTIONS, mod.RULE_TEXT,
                  evidence_dir=evidence_dir, quiet=quiet)


def main(argv=None) -> int:
    ap = argparse.ArgumentParser(prog="funsorlint")
    sub = ap.add_subparsers(dest="cmd", required=True)
    c = sub.add_parser("check")
    c.add_argument("prop")
    c.add_argument("--tier", default=os.environ.get("VERIF_TIER", "quick"), choices=["quick", "thorough"])
    c.add_argument("--repo", default="/repo")
    c.add_argument("--evidence-dir", default=None)
    c.add_argument("--quiet", action="store_true")
    c.add_argument("--no-selftest", action="store_true")
    r = sub.add_parser("replay")
    r.add_argument("path")
    s = sub.add_parser("selftest")
    s.add_argument("props", nargs="*")
    s.add_argument("--repo", default="/repo")
    s.add_argument("--jobs", type=int, default=min(16, os.cpu_count() or 1))
    s.add_argument("--verbose", action="store_true")
    s.add_argument("--only", default=None, help="substring of variant ids to run")
    x = sub.add_parser("crosscheck")
    x.add_argument("--repo", default="/repo")
    args = ap.parse_args(argv)
    seed = int(os.environ.get("VERIF_SEED", "0") or 0)
    try:
        if args.cmd == "check":
            prop = args.prop.upper()
            if prop not in CLAIMED:
                print(f"ANALYSIS-ERROR property {prop} is not claimed by funsorlint")
                return 2
            rc = run_check(prop, args.tier, args.repo, args.evidence_dir, args.quiet, seed)
            if rc == 0 and args.tier == "thorough" and not args.no_selftest:
                from . import selftest
                rc2 = selftest.run([prop], args.repo, jobs=min(16, os.cpu_count() or 1), verbose=False, evidence_prop=prop,
                                   evidence_dir=args.evidence_dir)
                if rc2 != 0:
                    return rc2
                from . import crosscheck
                rc3 = crosscheck.run(args.repo, evidence_prop=prop, evidence_dir=args.evidence_dir)
                if rc3 != 0:
                    return rc3
            return rc
        if args.cmd == "replay":
            with open(args.path) as f:
                data = json.load(f)
            print(f"replay of {data['property']} ({len(data['violations'])} violation(s)); re-running the check on {data.get('repo') or '/repo'}")
            for v in data["violations"]:
                print(f"  recorded: {v['rule']} {v['loc']} {v['construct']}\n            {v['detail']}")
            return run_check(data["property"], data.get("tier", "quick"), data.get("repo") or "/repo", evidence_dir="/tmp/funsorlint-replay")
        if args.cmd == "selftest":
            from . import selftest
            return selftest.run([p.upper() for p in args.props] or None, args.repo, jobs=args.jobs, verbose=args.verbose, only=args.only)
        if args.cmd == "crosscheck":
            from . import crosscheck
            return crosscheck.run(args.repo)
    except AnalysisError as e:
        print(f"ANALYSIS-ERROR {e}")
        return 2
    except Exception:
        traceback.print_exc()
        print("ANALYSIS-ERROR internal exception in funsorlint (see traceback above)")
        return 2
    return 2


if __name__ == "__main__":
    sys.exit(main())
