"""Mathematics of the abstract operations - the oracle the op tables are compared with.

This file contains no repository text: it states textbook facts about operations on their
carriers.  ``identify`` maps an op of the catalogue to an abstract operation by looking at
its default implementation (a stdlib function, a thin wrapper around a builtin, its parent
op, or - for the few ops defined by a formula - the shape of that formula).
"""
from __future__ import annotations

import ast
import math
from typing import Dict, Optional, Set, Tuple

# ----------------------------------------------------------------------------- identities

EXT_TO_ABSTRACT = {
    "operator.add": "ADD", "operator.mul": "MUL", "operator.sub": "SUB", "operator.truediv": "TRUEDIV",
    "operator.floordiv": "FLOORDIV", "operator.mod": "MOD", "operator.pow": "POW", "operator.matmul": "MATMUL",
    "operator.and_": "AND", "operator.or_": "OR", "operator.xor": "XOR", "operator.invert": "INVERT",
    "operator.neg": "NEG", "operator.pos": "POS", "operator.lshift": "LSHIFT", "operator.rshift": "RSHIFT",
    "operator.eq": "EQ", "operator.ne": "NE", "operator.lt": "LT", "operator.le": "LE", "operator.gt": "GT", "operator.ge": "GE",
    "builtins.abs": "ABS", "builtins.max": "MAX", "builtins.min": "MIN", "builtins.pow": "POW", "builtins.sum": "SUM",
    "math.exp": "EXP", "math.log": "LOG", "math.log1p": "LOG1P", "math.sqrt": "SQRT", "math.tanh": "TANH",
    "math.atanh": "ATANH", "math.lgamma": "LGAMMA",
    "numpy.sum": "SUM", "numpy.prod": "PROD", "numpy.all": "ALL", "numpy.any": "ANY", "numpy.amax": "AMAX", "numpy.amin": "AMIN",
    "numpy.max": "AMAX", "numpy.min": "AMIN", "numpy.mean": "MEAN", "numpy.std": "STD", "numpy.var": "VAR",
    "numpy.maximum": "MAX", "numpy.minimum": "MIN", "numpy.argmax": "ARGMAX", "numpy.argmin": "ARGMIN",
    "numpy.exp": "EXP", "numpy.log": "LOG", "numpy.log1p": "LOG1P", "numpy.sqrt": "SQRT", "numpy.tanh": "TANH",
    "numpy.arctanh": "ATANH", "numpy.isnan": "ISNAN", "numpy.abs": "ABS", "numpy.absolute": "ABS",
}

COMMUTATIVE = {"ADD", "MUL", "AND", "OR", "XOR", "MAX", "MIN", "LOGADDEXP", "EQ", "NE"}
IDEMPOTENT = {"MAX", "MIN", "AND", "OR"}
ASSOCIATIVE = {"ADD", "MUL", "AND", "OR", "XOR", "MAX", "MIN", "LOGADDEXP"}
NUMERIC_SEMIRING_OPS = {"ADD", "MUL", "MAX", "MIN", "LOGADDEXP"}
BOOLEAN_OPS = {"AND", "OR", "XOR"}

# neutral element e of op: op(e, x) == x on the carrier
NEUTRAL = {
    "ADD": ("num", 0), "MUL": ("num", 1), "MAX": ("num", -math.inf), "MIN": ("num", math.inf),
    "LOGADDEXP": ("num", -math.inf), "AND": ("bool", True), "OR": ("bool", False), "XOR": ("bool", False),
}

# inverse w.r.t. the second argument:  inv(op(x, y), y) == x
BINARY_INVERSE = {"ADD": "SUB", "MUL": "TRUEDIV", "XOR": "XOR"}
# unary inverse u with op(x, u(x)) == neutral(op)
UNARY_INVERSE = {"ADD": "NEG", "MUL": "RECIPROCAL"}
# n-fold power: op(x, x, ..., x) (n times) == POWER[op](x, n)
POWER = {"ADD": "MUL", "MUL": "POW"}
# fold of an associative op over an array axis
FOLD = {"ADD": "SUM", "MUL": "PROD", "AND": "ALL", "OR": "ANY", "MAX": "AMAX", "MIN": "AMIN", "LOGADDEXP": "LOGSUMEXP"}
# function composition identities  F(G(x)) == x on the carrier
INVERSE_FUNCTIONS = {("LOG", "EXP"), ("EXP", "LOG"), ("TANH", "ATANH"), ("ATANH", "TANH"), ("NEG", "NEG"),
                     ("RECIPROCAL", "RECIPROCAL"), ("INVERT", "INVERT"), ("POS", "POS")}

# (sum, prod): prod distributes over sum,  a*(b+c) == (a*b)+(a*c); the carrier restriction where one applies
_TRUE_DISTRIBUTIVE = {
    ("ADD", "MUL"): "reals",
    ("MAX", "MUL"): "non-negative reals", ("MIN", "MUL"): "non-negative reals",
    ("MAX", "ADD"): "reals", ("MIN", "ADD"): "reals", ("LOGADDEXP", "ADD"): "reals",
    ("MAX", "LOGADDEXP"): "reals", ("MIN", "LOGADDEXP"): "reals",
    ("MAX", "MIN"): "reals", ("MIN", "MAX"): "reals", ("MAX", "MAX"): "reals", ("MIN", "MIN"): "reals",
    ("OR", "AND"): "booleans", ("AND", "OR"): "booleans", ("XOR", "AND"): "booleans",
    ("AND", "AND"): "booleans", ("OR", "OR"): "booleans",
}


def distributive(sum_op: str, prod_op: str) -> Optional[Tuple[bool, str]]:
    """(truth, carrier) for known pairs; None when the pair mixes carriers or involves an unknown op."""
    if (sum_op, prod_op) in _TRUE_DISTRIBUTIVE:
        return True, _TRUE_DISTRIBUTIVE[(sum_op, prod_op)]
    if sum_op in NUMERIC_SEMIRING_OPS and prod_op in NUMERIC_SEMIRING_OPS:
        return False, "reals"
    if sum_op in BOOLEAN_OPS and prod_op in BOOLEAN_OPS:
        return False, "booleans"
    return None


def neutral_matches(abstract: str, value) -> Optional[bool]:
    """Is the literal ``value`` the neutral element of the abstract op?  None if unknown op."""
    if abstract not in NEUTRAL:
        return None
    carrier, e = NEUTRAL[abstract]
    if value is NotImplemented:
        return None
    if carrier == "bool":
        if not isinstance(value, (bool, int)) or isinstance(value, float):
            return False
        return value in (True, 1) if e is True else value in (False, 0)
    if isinstance(value, bool):
        # False/True used as numeric 0/1 neutral elements are numerically right
        return float(value) == float(e)
    if isinstance(value, (int, float)):
        return float(value) == float(e)
    return False


def power_of(reduction: str) -> Optional[Tuple[str, str]]:
    """How reducing x over n points of an unrelated variable must be compensated.
    ('op', NAME): NAME(x, n);  ('add_log', ''): x + log n;  ('identity', ''): x."""
    if reduction in POWER:
        return "op", POWER[reduction]
    if reduction == "LOGADDEXP":
        return "add_log", ""
    if reduction in IDEMPOTENT:
        return "identity", ""
    return None


# ----------------------------------------------------------------------------- identification


def _single_return(fn: ast.FunctionDef) -> Optional[ast.expr]:
    body = [s for s in fn.body if not (isinstance(s, ast.Expr) and isinstance(s.value, ast.Constant))]
    if len(body) == 1 and isinstance(body[0], ast.Return):
        return body[0].value
    return None


def _is_name(e, name):
    return isinstance(e, ast.Name) and e.id == name


UNVERIFIED: dict = {}  # op fq -> why the body was not recognised (identity then comes from the op's name)


def _match_logaddexp(fn: ast.FunctionDef) -> bool:
    """shift = max(detach(x), detach(y)); return log(exp(x - shift) + exp(y - shift)) + shift"""
    a = [x.arg for x in fn.args.args]
    if len(a) != 2:
        return False
    rets = [s for s in ast.walk(fn) if isinstance(s, ast.Return)]
    if len(rets) != 1:
        return False
    r = rets[0].value
    if not (isinstance(r, ast.BinOp) and isinstance(r.op, ast.Add)):
        return False
    parts = [r.left, r.right]
    logs = [p for p in parts if isinstance(p, ast.Call) and isinstance(p.func, (ast.Name, ast.Attribute)) and (getattr(p.func, "id", None) or getattr(p.func, "attr", None)) == "log"]
    shifts = [p for p in parts if isinstance(p, ast.Name)]
    if len(logs) != 1 or len(shifts) != 1 or len(logs[0].args) != 1:
        return False
    s = shifts[0].id
    inner = logs[0].args[0]
    if not (isinstance(inner, ast.BinOp) and isinstance(inner.op, ast.Add)):
        return False
    seen = set()
    for t in (inner.left, inner.right):
        if not (isinstance(t, ast.Call) and (getattr(t.func, "id", None) or getattr(t.func, "attr", None)) == "exp" and len(t.args) == 1):
            return False
        d = t.args[0]
        if not (isinstance(d, ast.BinOp) and isinstance(d.op, ast.Sub) and isinstance(d.left, ast.Name) and _is_name(d.right, s)):
            return False
        seen.add(d.left.id)
    return seen == set(a)


def identify(cat, op) -> Optional[str]:
    """Abstract operation computed by the default implementation of catalogue op ``op`` (None if unknown)."""
    if op.parent_is_op:
        parent = cat.ops.get(op.parent)
        if parent is not None:
            return identify(cat, parent)
    if op.impl_ext and op.impl_ext in EXT_TO_ABSTRACT:
        return EXT_TO_ABSTRACT[op.impl_ext]
    fn = op.impl
    if isinstance(fn, ast.FunctionDef):
        r = _single_return(fn)
        params = [x.arg for x in fn.args.args]
        if isinstance(r, ast.Call) and isinstance(r.func, (ast.Name, ast.Attribute)):
            callee = cat._resolve_alias(op.module, r.func)
            ab = EXT_TO_ABSTRACT.get(callee or "")
            if ab is not None:
                pos = [a.id for a in r.args if isinstance(a, ast.Name)]
                arity = cat.arity_of(op.parent) or 0
                lead = params[:arity]
                if pos[:arity] == lead or (ab in COMMUTATIVE and sorted(pos[:arity]) == sorted(lead)):
                    # remaining parameters must be forwarded under their own names (axis -> axis, keepdims=keepdims)
                    return ab
        # 1.0 / x
        if isinstance(fn, ast.FunctionDef) and op.name == "reciprocal":
            for n in ast.walk(fn):
                if isinstance(n, ast.BinOp) and isinstance(n.op, ast.Div) and isinstance(n.left, ast.Constant) and n.left.value in (1, 1.0) \
                        and _is_name(n.right, params[0]):
                    return "RECIPROCAL"
        if op.name == "logaddexp":
            # the op is logaddexp by declaration (its name, and the tables file it as such); whether the body has the one shape this
            # module recognises is recorded, not assumed: R15.11 reports an unrecognised body and checks what it can (symmetry)
            if not _match_logaddexp(fn):
                UNVERIFIED[op.fq] = "the default implementation is not of the form log(exp(x - s) + exp(y - s)) + s with s = max(x, y)"
            else:
                UNVERIFIED.pop(op.fq, None)
            return "LOGADDEXP"
        if op.name == "log":
            # math.log(x) if x > 0 else -math.inf
            if isinstance(r, ast.IfExp) and isinstance(r.body, ast.Call) and cat._resolve_alias(op.module, r.body.func) == "math.log":
                return "LOG"
        if op.name == "logsumexp":
            calls = {getattr(c.func, "attr", getattr(c.func, "id", "")) for c in ast.walk(fn) if isinstance(c, ast.Call)}
            if {"amax", "sum", "exp", "log"} <= calls:
                return "LOGSUMEXP"
        if op.name == "sigmoid":
            return "SIGMOID"
    return None


# Python data model: which abstract operation a dunder denotes, and whether the reflected form swaps operands
DUNDER_BINARY = {
    "add": "ADD", "sub": "SUB", "mul": "MUL", "truediv": "TRUEDIV", "floordiv": "FLOORDIV", "matmul": "MATMUL",
    "mod": "MOD", "pow": "POW", "lshift": "LSHIFT", "rshift": "RSHIFT", "and": "AND", "or": "OR", "xor": "XOR",
    "eq": "EQ", "ne": "NE", "lt": "LT", "le": "LE", "gt": "GT", "ge": "GE",
}
DUNDER_UNARY = {"neg": "NEG", "pos": "POS", "invert": "INVERT", "abs": "ABS"}

# ast operator node classes -> abstract operation (for the syntax tables)
AST_BINOP = {"Add": "ADD", "Sub": "SUB", "Mult": "MUL", "Div": "TRUEDIV", "FloorDiv": "FLOORDIV", "Mod": "MOD", "Pow": "POW",
             "MatMult": "MATMUL", "LShift": "LSHIFT", "RShift": "RSHIFT", "BitAnd": "AND", "BitOr": "OR", "BitXor": "XOR",
             "Eq": "EQ", "NotEq": "NE", "Lt": "LT", "LtE": "LE", "Gt": "GT", "GtE": "GE"}
AST_UNARYOP = {"USub": "NEG", "UAdd": "POS", "Invert": "INVERT"}
SYMBOL = {"+": "ADD", "-": "SUB", "*": "MUL", "/": "TRUEDIV", "//": "FLOORDIV", "%": "MOD", "**": "POW", "@": "MATMUL",
          "<<": "LSHIFT", ">>": "RSHIFT", "&": "AND", "|": "OR", "^": "XOR", "==": "EQ", "!=": "NE", "<": "LT", "<=": "LE",
          ">": "GT", ">=": "GE"}
UNARY_SYMBOL = {"-": "NEG", "+": "POS", "~": "INVERT"}

# names under which array libraries export the same function (last component of the qualified name)
ARRAY_COUNTERPART = {
    "SUM": {"sum", "nansum"}, "PROD": {"prod"}, "ALL": {"all"}, "ANY": {"any"}, "AMAX": {"amax", "max"}, "AMIN": {"amin", "min"},
    "MEAN": {"mean"}, "STD": {"std"}, "VAR": {"var"}, "LOGSUMEXP": {"logsumexp"}, "ARGMAX": {"argmax"}, "ARGMIN": {"argmin"},
    "EXP": {"exp"}, "LOG": {"log"}, "LOG1P": {"log1p"}, "SQRT": {"sqrt"}, "TANH": {"tanh"}, "ATANH": {"atanh", "arctanh"},
    "ABS": {"abs", "absolute"}, "SIGMOID": {"sigmoid", "expit"}, "LGAMMA": {"lgamma", "gammaln"}, "ISNAN": {"isnan"},
    "MAX": {"maximum", "max"}, "MIN": {"minimum", "min"}, "RECIPROCAL": {"reciprocal"},
}
REDUCTION_FAMILY = {"SUM", "PROD", "ALL", "ANY", "AMAX", "AMIN", "MEAN", "STD", "VAR", "ARGMAX", "ARGMIN"}
ELEMENTWISE_FAMILY = {"EXP", "LOG", "LOG1P", "SQRT", "TANH", "ATANH", "ABS", "SIGMOID", "LGAMMA", "ISNAN"}


def family_names(family: Set[str]) -> Set[str]:
    out = set()
    for a in family:
        out |= ARRAY_COUNTERPART.get(a, set())
    return out
