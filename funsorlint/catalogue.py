"""Catalogue of the program's algebraic objects, read from source:

* ops created by ``Base.make`` (name, class name, parent, arity, post-arity parameters, default implementation)
* Funsor term classes (constructor fields, metaclass, field kinds from the isinstance asserts)
* registrations (``@R.register(...)``, ``R.register(...)(fn)``, ``subclass_register``, ``@dispatch``)
* tables (``T[k] = v``, ``T.add((a, b))``, literal dict definitions)
"""
from __future__ import annotations

import ast
from dataclasses import dataclass, field
from typing import Dict, List, Optional, Tuple

from .model import AnalysisError, ClassInfo, Func, Module, Program, dotted, norm
from .rules.common import Refs

OP_MODULES = ("funsor.ops.op", "funsor.ops.builtin", "funsor.ops.array")
ABSTRACT_ARITY_ATTR = "arity"


def snake_to_camel(name: str) -> str:
    return "".join(part.capitalize() for part in name.split("_") if part)


@dataclass
class OpInfo:
    var: str  # module-level variable holding the default instance
    name: str  # op.name
    module: Module
    node: ast.AST
    class_name: str  # e.g. 'AddOp'
    parent: str  # canonical name of the parent: an abstract op class ('funsor.ops.op.BinaryOp') or a parent op var ('funsor.ops.builtin.sub')
    parent_is_op: bool
    params: List[str]  # post-arity parameter names
    all_params: List[str]
    impl: Optional[ast.AST]  # FunctionDef of the default implementation, if defined in the package
    impl_ext: Optional[str]  # resolved external name of the default implementation ('operator.add', 'builtins.max', 'math.exp')
    metaclass: Optional[str] = None

    @property
    def fq(self) -> str:
        return f"{self.module.name}.{self.var}"


@dataclass
class Registration:
    registry: str  # canonical name of the registry object (or text when unresolved)
    registry_text: str
    method: str  # 'register' | 'subclass_register' | 'dispatch'
    pattern: List[ast.expr]
    module: Module
    node: ast.Call
    target: Optional[Func]  # the registered function when defined in the package
    target_expr: Optional[ast.AST]  # otherwise the expression (np.sqrt, lambda ...)
    guarded: bool = False

    @property
    def loc(self) -> str:
        return self.module.loc(self.node)


@dataclass
class TermClass:
    cls: ClassInfo
    fields: List[str]
    init: Optional[Func]
    metaclass: Optional[str]
    vararg_field: Optional[str] = None

    @property
    def fq(self):
        return self.cls.fq

    @property
    def name(self):
        return self.cls.name


@dataclass
class TableEntry:
    table: str
    key: ast.AST
    value: Optional[ast.AST]
    module: Module
    node: ast.AST

    @property
    def loc(self):
        return self.module.loc(self.node)


class Catalogue:
    def __init__(self, prog: Program, refs: Optional[Refs] = None):
        self.prog = prog
        self.refs = refs or Refs(prog)
        self.ops: Dict[str, OpInfo] = {}  # by canonical var name
        self.op_by_class: Dict[str, OpInfo] = {}
        self.abstract_ops: Dict[str, ClassInfo] = {}
        self._collect_ops()
        self.term_classes: Dict[str, TermClass] = {}
        self._collect_terms()
        self.registrations: List[Registration] = []
        self._collect_registrations()

    # ------------------------------------------------------------------ ops
    def _collect_ops(self):
        prog = self.prog
        opbase = "funsor.ops.op.Op"
        if opbase not in prog.classes:
            raise AnalysisError("anchor class funsor.ops.op.Op not found")
        for c in prog.classes.values():
            if c.fq == opbase or prog.is_subclass(c.fq, opbase):
                self.abstract_ops[c.fq] = c
        for mname in OP_MODULES:
            mod = prog.modules.get(mname)
            if mod is None:
                raise AnalysisError(f"op module {mname} not found")
            for st in mod.tree.body:
                # X = Base.make(fn)   /  X = op.make(op.default, name="...")
                if isinstance(st, ast.Assign) and len(st.targets) == 1 and isinstance(st.targets[0], ast.Name) and isinstance(st.value, ast.Call):
                    call = st.value
                    if isinstance(call.func, ast.Attribute) and call.func.attr == "make" and call.args:
                        self._add_op(mod, st, st.targets[0].id, call.func.value, call.args[0], call.keywords)
                elif isinstance(st, ast.FunctionDef):
                    for d in st.decorator_list:
                        base_expr, kws = None, []
                        if isinstance(d, ast.Attribute) and d.attr == "make":
                            base_expr = d.value
                        elif isinstance(d, ast.Call) and isinstance(d.func, ast.Attribute) and d.func.attr == "make" and not d.args:
                            base_expr, kws = d.func.value, d.keywords
                        if base_expr is not None:
                            self._add_op(mod, st, st.name, base_expr, st, kws)

    def _add_op(self, mod: Module, node, var: str, base_expr: ast.AST, fn, keywords):
        prog = self.prog
        parent = prog.resolve_expr(mod, base_expr)
        if parent is None:
            return
        parent_is_op = parent in self.ops
        if not parent_is_op and parent not in self.abstract_ops:
            return
        name = None
        metaclass = None
        for kw in keywords:
            if kw.arg == "name" and isinstance(kw.value, ast.Constant):
                name = kw.value.value
            if kw.arg == "metaclass":
                metaclass = prog.resolve_expr(mod, kw.value) or norm(kw.value)
        impl = None
        impl_ext = None
        all_params: List[str] = []
        if isinstance(fn, ast.FunctionDef):
            impl = fn
            a = fn.args
            all_params = [x.arg for x in a.posonlyargs + a.args] + [x.arg for x in a.kwonlyargs]
            name = name or fn.name
        else:
            # expression: a stdlib function, an alias of a builtin, or <op>.default
            if isinstance(fn, ast.Attribute) and fn.attr == "default":
                src = prog.resolve_expr(mod, fn.value)
                if src in self.ops:
                    impl, impl_ext, all_params = self.ops[src].impl, self.ops[src].impl_ext, list(self.ops[src].all_params)
                    name = name or self.ops[src].name
            else:
                r = self._resolve_alias(mod, fn)
                impl_ext = r
                if r is not None:
                    name = name or r.rsplit(".", 1)[-1]
                    lk = prog.lookup(r)
                    if lk and lk[0] == "func":
                        impl = lk[1].node
                        a = impl.args
                        all_params = [x.arg for x in a.posonlyargs + a.args] + [x.arg for x in a.kwonlyargs]
        if name is None:
            return
        arity = self.arity_of(parent)
        params = all_params[arity:] if arity is not None and all_params else []
        info = OpInfo(var=var, name=name, module=mod, node=node, class_name=snake_to_camel(name) + "Op", parent=parent,
                      parent_is_op=parent_is_op, params=params, all_params=all_params, impl=impl, impl_ext=impl_ext, metaclass=metaclass)
        self.ops[info.fq] = info
        self.op_by_class[info.class_name] = info

    def _resolve_alias(self, mod: Module, expr: ast.AST, depth=0) -> Optional[str]:
        """Resolve through module-level aliases such as ``_builtin_max = max``."""
        r = self.prog.resolve_expr(mod, expr)
        if r is None or depth > 5:
            return r
        lk = self.prog.lookup(r)
        if lk and lk[0] == "value" and isinstance(lk[2], (ast.Name, ast.Attribute)):
            # `_builtin_max = max` is evaluated before the module rebinds `max`: a bare Name on the rhs of an alias
            # defined *before* the op of the same name refers to the builtin
            rhs = lk[2]
            if isinstance(rhs, ast.Name) and hasattr(__import__("builtins"), rhs.id):
                bs = lk[1].bindings.get(rhs.id, [])
                first_line = min((getattr(b.node, "lineno", 10**9) for b in bs), default=10**9)
                if lk[3].lineno < first_line:
                    return f"builtins.{rhs.id}"
            return self._resolve_alias(lk[1], rhs, depth + 1)
        return r

    def arity_of(self, name: str) -> Optional[int]:
        """arity of an abstract op class or of an op (through its parents)."""
        seen = set()
        while name is not None and name not in seen:
            seen.add(name)
            if name in self.ops:
                name = self.ops[name].parent
                continue
            ci = self.abstract_ops.get(name)
            if ci is None:
                return None
            for c in self.prog.mro(ci.fq):
                cc = self.prog.classes.get(c)
                if cc and ABSTRACT_ARITY_ATTR in cc.attrs:
                    v = cc.attrs[ABSTRACT_ARITY_ATTR]
                    if isinstance(v, ast.Constant) and isinstance(v.value, int):
                        return v.value
            return None
        return None

    def op_ancestors(self, op_fq: str) -> List[str]:
        """[op class chain]: parent ops then abstract classes (canonical names), nearest first."""
        out = []
        cur = self.ops.get(op_fq)
        while cur is not None:
            out.append(cur.parent)
            if cur.parent_is_op:
                cur = self.ops.get(cur.parent)
            else:
                out += [c for c in self.prog.mro(cur.parent)[1:] if c in self.abstract_ops]
                cur = None
        return out

    def op_class_ref(self, resolved: Optional[str]) -> Optional[str]:
        """Map a resolved type reference ('funsor.ops.AddOp' / 'funsor.ops.builtin.AssociativeOp') to
        'op:<canonical op var>' or 'abs:<abstract class fq>'."""
        if resolved is None:
            return None
        if resolved in self.abstract_ops:
            return "abs:" + resolved
        last = resolved.rsplit(".", 1)[-1]
        if resolved.startswith("funsor.ops.") and last in self.op_by_class:
            return "op:" + self.op_by_class[last].fq
        if resolved.startswith("funsor.ops."):
            # abstract op classes published by declare_op_types() without being listed in __all__
            for fq, ci in self.abstract_ops.items():
                if ci.name == last:
                    return "abs:" + fq
        return None

    def ops_under(self, class_ref: str) -> List[OpInfo]:
        """All concrete ops whose class is (a subclass of) the referenced op class."""
        kind, _, name = class_ref.partition(":")
        out = []
        for o in self.ops.values():
            if kind == "op":
                if o.fq == name or name in self.op_ancestors(o.fq):
                    out.append(o)
            else:
                if name in self.op_ancestors(o.fq):
                    out.append(o)
        return out

    # ------------------------------------------------------------------ term classes
    def _collect_terms(self):
        prog = self.prog
        base = "funsor.terms.Funsor"
        if base not in prog.classes:
            raise AnalysisError("anchor class funsor.terms.Funsor not found")
        for c in prog.classes.values():
            if c.fq != base and not prog.is_subclass(c.fq, base):
                continue
            init = prog.find_method(c.fq, "__init__")
            fields: List[str] = []
            vararg = None
            if init is not None:
                fields = init.positional[1:]
                if init.node.args.vararg is not None:
                    vararg = init.node.args.vararg.arg
            meta = None
            for m in prog.mro(c.fq):
                ci = prog.classes.get(m)
                if ci and ci.metaclass:
                    meta = ci.metaclass
                    break
            self.term_classes[c.fq] = TermClass(c, fields, init, meta, vararg)

    def term_by_name(self, name: str) -> Optional[TermClass]:
        for t in self.term_classes.values():
            if t.name == name:
                return t
        return None

    # ------------------------------------------------------------------ registrations
    def _collect_registrations(self):
        prog, refs = self.prog, self.refs
        for mod in prog.modules.values():
            for node in ast.walk(mod.tree):
                if not isinstance(node, ast.Call):
                    continue
                f = node.func
                method = None
                reg_expr = None
                if isinstance(f, ast.Attribute) and f.attr in ("register", "subclass_register"):
                    method, reg_expr = f.attr, f.value
                elif isinstance(f, ast.Name) and refs.resolve(f) == "multipledispatch.dispatch":
                    method, reg_expr = "dispatch", f
                if method is None:
                    continue
                parent = mod.parent.get(node)
                target, target_expr = None, None
                if isinstance(parent, (ast.FunctionDef, ast.AsyncFunctionDef)) and node in parent.decorator_list:
                    target = prog.func_of(parent)
                elif isinstance(parent, ast.Call) and parent.func is node and len(parent.args) == 1:
                    te = parent.args[0]
                    target_expr = te
                    r = refs.resolve(te) if isinstance(te, (ast.Name, ast.Attribute)) else None
                    if r:
                        lk = prog.lookup(r)
                        if lk and lk[0] == "func":
                            target = lk[1]
                    if isinstance(te, ast.Lambda):
                        target = prog.func_of(te)
                    # instrument.debug_logged(fn) wrappers
                    if isinstance(te, ast.Call) and len(te.args) == 1:
                        r2 = refs.resolve(te.args[0]) if isinstance(te.args[0], (ast.Name, ast.Attribute)) else None
                        lk = prog.lookup(r2) if r2 else None
                        if lk and lk[0] == "func":
                            target = lk[1]
                else:
                    # e.g. `register = self.registry[...].register` or a bare reference; not a registration site
                    if not isinstance(parent, (ast.FunctionDef, ast.AsyncFunctionDef)):
                        # could still be `x = R.register(T)` (rare); skip
                        continue
                reg = refs.resolve(reg_expr) if isinstance(reg_expr, (ast.Name, ast.Attribute)) else None
                guarded = any(isinstance(a, (ast.If, ast.Try, ast.For, ast.While)) for a in mod.ancestors(node)
                              if mod.enclosing_function(a) is None and mod.enclosing_function(node) is None)
                self.registrations.append(Registration(reg or "?" + norm(reg_expr), norm(reg_expr), method, list(node.args), mod, node,
                                                       target, target_expr, guarded))

    def expand_pattern(self, reg: Registration) -> List[Tuple[str, ...]]:
        """Signatures a registration stands for: tuple-union expansion as multipledispatch.expand_tuples does, looking
        through module-level names bound once to a tuple display (``GROUND_TERMS = (Delta, Number, Tensor, Gaussian)``)."""
        import itertools
        alts = []
        for p in reg.pattern:
            e = p
            if isinstance(e, (ast.Name, ast.Attribute)):
                r = self.prog.resolve_expr(reg.module, e)
                lk = self.prog.lookup(r) if r else None
                if lk and lk[0] == "value" and len(lk[1].bindings.get(r.rsplit(".", 1)[-1], [])) == 1:
                    v = lk[2]
                    # `GROUND_TERMS = tuple(ORDERING)` with `ORDERING = {Delta: 1, ...}`: the keys in display order
                    if isinstance(v, ast.Call) and isinstance(v.func, ast.Name) and v.func.id in ("tuple", "list") and len(v.args) == 1 \
                            and isinstance(v.args[0], (ast.Name, ast.Attribute)):
                        r2 = self.prog.resolve_expr(lk[1], v.args[0])
                        lk2 = self.prog.lookup(r2) if r2 else None
                        if lk2 and lk2[0] == "value" and len(lk2[1].bindings.get(r2.rsplit(".", 1)[-1], [])) == 1:
                            if isinstance(lk2[2], ast.Dict) and all(k is not None for k in lk2[2].keys):
                                v = ast.Tuple(elts=list(lk2[2].keys), ctx=ast.Load())
                            elif isinstance(lk2[2], (ast.Tuple, ast.List)):
                                v = lk2[2]
                    if isinstance(v, ast.Tuple):
                        e = v
            if isinstance(e, ast.Tuple):
                alts.append([norm(x) for x in e.elts])
            else:
                alts.append([norm(e)])
        return list(itertools.product(*alts))

    def registrations_for(self, registry: str) -> List[Registration]:
        return [r for r in self.registrations if r.registry == registry]

    # ------------------------------------------------------------------ tables
    def table_entries(self, table: str) -> List[TableEntry]:
        """Entries of a module-level dict/set table identified by canonical name, wherever they are written."""
        out: List[TableEntry] = []
        prog, refs = self.prog, self.refs
        lk = prog.lookup(table)
        if lk and lk[0] == "value" and isinstance(lk[2], ast.Dict):
            for k, v in zip(lk[2].keys, lk[2].values):
                if k is not None:
                    out.append(TableEntry(table, k, v, lk[1], k))
        if lk and lk[0] == "value" and isinstance(lk[2], ast.Set):
            for e in lk[2].elts:
                out.append(TableEntry(table, e, None, lk[1], e))
        for mod, node in refs.to(table):
            p = mod.parent.get(node)
            if isinstance(p, ast.Subscript) and p.value is node and isinstance(p.ctx, ast.Store):
                st = mod.parent.get(p)
                if isinstance(st, ast.Assign):
                    out.append(TableEntry(table, p.slice, st.value, mod, st))
            elif isinstance(p, ast.Attribute) and p.value is node and p.attr in ("add", "update", "setdefault", "pop", "discard", "remove", "clear"):
                call = mod.parent.get(p)
                if isinstance(call, ast.Call) and call.func is p:
                    if p.attr == "add" and len(call.args) == 1:
                        out.append(TableEntry(table, call.args[0], None, mod, call))
                    else:
                        out.append(TableEntry(table, call, None, mod, call))  # opaque write; rules treat it as unresolved
        return out

    def table_reads(self, table: str) -> List[Tuple[Module, ast.AST]]:
        """Subscript loads / membership tests / iteration of a table."""
        out = []
        for mod, node in self.refs.to(table):
            p = mod.parent.get(node)
            if isinstance(p, ast.Subscript) and p.value is node and isinstance(p.ctx, ast.Load):
                out.append((mod, p))
            elif isinstance(p, ast.Compare) and node in p.comparators:
                out.append((mod, p))
            elif isinstance(p, (ast.For, ast.comprehension)) and p.iter is node:
                out.append((mod, p))
            elif isinstance(p, ast.Attribute) and p.attr in ("get", "items", "keys", "values", "__contains__"):
                out.append((mod, mod.parent.get(p)))
        return out

    def resolve_op(self, mod: Module, expr: ast.AST) -> Optional[OpInfo]:
        r = self.refs.resolve(expr) if isinstance(expr, (ast.Name, ast.Attribute)) else None
        if r is None and isinstance(expr, (ast.Name, ast.Attribute)):
            r = self.prog.resolve_expr(mod, expr)
        return self.ops.get(r) if r else None
