"""Statement-level control-flow graph for a Python function body.

Nodes are statements (simple statements, and the *header* of compound statements).
Edges carry a label: 'next', 'true', 'false', 'exc', 'iter', 'exhausted', 'return',
'break', 'continue'.  ``finally`` bodies and the implicit ``__exit__`` of ``with`` are
duplicated per pending continuation (normal / exception / return / break / continue), the
classic construction; the functions analysed are small.

Special nodes: ENTRY, EXIT (normal return), RAISE (exception leaves the function).
"""
from __future__ import annotations

import ast
from dataclasses import dataclass
from typing import Dict, Iterable, List, Optional, Set, Tuple

import networkx as nx


@dataclass(eq=False)
class Node:
    idx: int
    kind: str  # 'entry' 'exit' 'raise' 'stmt' 'test' 'for' 'with_enter' 'with_exit' 'except' 'dispatch'
    ast: Optional[ast.AST] = None
    note: str = ""

    def __repr__(self):
        if self.ast is not None:
            try:
                t = " ".join(ast.unparse(self.ast).split())[:60]
            except Exception:
                t = "?"
            return f"<{self.idx}:{self.kind}:{getattr(self.ast, 'lineno', '?')}:{t}>"
        return f"<{self.idx}:{self.kind}{':' + self.note if self.note else ''}>"


def may_raise(node: ast.AST) -> bool:
    """Conservative: a statement may raise if it contains a call, subscript, attribute access,
    binary operation, raise or assert.  (Name loads and constants cannot.)"""
    for n in ast.walk(node):
        if isinstance(n, (ast.Call, ast.Subscript, ast.Attribute, ast.BinOp, ast.Raise, ast.Assert,
                          ast.Compare, ast.UnaryOp, ast.Await, ast.Yield, ast.YieldFrom, ast.Starred)):
            return True
    return False


class _Ctx:
    """Where control goes for each kind of non-local exit."""

    def __init__(self, exc, ret, brk=None, cont=None):
        self.exc = exc  # callable(src_node) -> connects src to the exception continuation
        self.ret = ret
        self.brk = brk
        self.cont = cont


class CFG:
    def __init__(self, func_node: ast.AST):
        self.func = func_node
        self.nodes: List[Node] = []
        self.g = nx.MultiDiGraph()
        self.entry = self._new("entry")
        self.exit = self._new("exit")
        self.raise_ = self._new("raise")
        body = [ast.Return(value=func_node.body)] if isinstance(func_node, ast.Lambda) else func_node.body
        if isinstance(func_node, ast.Lambda):
            ast.copy_location(body[0], func_node.body)
        ctx = _Ctx(
            exc=lambda n: self._edge(n, self.raise_, "exc"),
            ret=lambda n: self._edge(n, self.exit, "return"),
        )
        outs = self._seq(body, [(self.entry, "next")], ctx)
        for n, lab in outs:
            self._edge(n, self.exit, lab)

    # ---------------------------------------------------------------- construction helpers
    def _new(self, kind, astnode=None, note="") -> Node:
        n = Node(len(self.nodes), kind, astnode, note)
        self.nodes.append(n)
        self.g.add_node(n.idx)
        return n

    def _edge(self, a: Node, b: Node, label: str):
        self.g.add_edge(a.idx, b.idx, label=label)

    def _connect(self, ins: List[Tuple[Node, str]], target: Node):
        for n, lab in ins:
            self._edge(n, target, lab)

    def _seq(self, stmts: List[ast.stmt], ins, ctx: _Ctx):
        for st in stmts:
            if not ins:
                break  # unreachable code
            ins = self._stmt(st, ins, ctx)
        return ins

    def _stmt(self, st: ast.stmt, ins, ctx: _Ctx):
        if isinstance(st, (ast.FunctionDef, ast.AsyncFunctionDef, ast.ClassDef)):
            n = self._new("stmt", st)
            self._connect(ins, n)
            return [(n, "next")]
        if isinstance(st, ast.Return):
            n = self._new("stmt", st)
            self._connect(ins, n)
            if st.value is not None and may_raise(st.value):
                ctx.exc(n)
            ctx.ret(n)
            return []
        if isinstance(st, ast.Raise):
            n = self._new("stmt", st)
            self._connect(ins, n)
            ctx.exc(n)
            return []
        if isinstance(st, ast.Break):
            n = self._new("stmt", st)
            self._connect(ins, n)
            ctx.brk(n)
            return []
        if isinstance(st, ast.Continue):
            n = self._new("stmt", st)
            self._connect(ins, n)
            ctx.cont(n)
            return []
        if isinstance(st, ast.If):
            t = self._new("test", st)
            self._connect(ins, t)
            if may_raise(st.test):
                ctx.exc(t)
            outs = self._seq(st.body, [(t, "true")], ctx)
            outs += self._seq(st.orelse, [(t, "false")], ctx) if st.orelse else [(t, "false")]
            return outs
        if isinstance(st, (ast.While,)):
            t = self._new("test", st)
            self._connect(ins, t)
            if may_raise(st.test):
                ctx.exc(t)
            brk_outs: List[Tuple[Node, str]] = []
            inner = _Ctx(ctx.exc, ctx.ret, brk=lambda n: brk_outs.append((n, "break")), cont=lambda n: self._edge(n, t, "continue"))
            body_outs = self._seq(st.body, [(t, "true")], inner)
            self._connect(body_outs, t)
            const_true = isinstance(st.test, ast.Constant) and bool(st.test.value)
            outs = [] if const_true else [(t, "false")]
            if st.orelse and outs:
                outs = self._seq(st.orelse, outs, ctx)
            return outs + brk_outs
        if isinstance(st, (ast.For, ast.AsyncFor)):
            h = self._new("for", st)
            self._connect(ins, h)
            ctx.exc(h)  # iteration may raise
            brk_outs = []
            inner = _Ctx(ctx.exc, ctx.ret, brk=lambda n: brk_outs.append((n, "break")), cont=lambda n: self._edge(n, h, "continue"))
            body_outs = self._seq(st.body, [(h, "iter")], inner)
            self._connect(body_outs, h)
            outs = [(h, "exhausted")]
            if st.orelse:
                outs = self._seq(st.orelse, outs, ctx)
            return outs + brk_outs
        if isinstance(st, (ast.With, ast.AsyncWith)):
            return self._with(st, ins, ctx)
        if isinstance(st, ast.Try) or st.__class__.__name__ == "TryStar":
            return self._try(st, ins, ctx)
        if isinstance(st, ast.Match):
            h = self._new("test", st)
            self._connect(ins, h)
            ctx.exc(h)
            outs = []
            exhaustive = False
            for case in st.cases:
                outs += self._seq(case.body, [(h, "true")], ctx)
                if isinstance(case.pattern, ast.MatchAs) and case.pattern.pattern is None and case.guard is None:
                    exhaustive = True
            if not exhaustive:
                outs.append((h, "false"))
            return outs
        # simple statement
        n = self._new("stmt", st)
        self._connect(ins, n)
        if may_raise(st):
            ctx.exc(n)
        return [(n, "next")]

    def _with(self, st, ins, ctx: _Ctx):
        enter = self._new("with_enter", st)
        self._connect(ins, enter)
        ctx.exc(enter)

        def mk_exit(note):
            return self._new("with_exit", st, note)

        # exceptional exit from the body: __exit__ runs, then the exception propagates
        def exc(n):
            x = mk_exit("exc")
            self._edge(n, x, "exc")
            ctx.exc(x)

        def ret(n):
            x = mk_exit("return")
            self._edge(n, x, "return")
            ctx.exc(x)
            ctx.ret(x)

        def brk(n):
            x = mk_exit("break")
            self._edge(n, x, "break")
            ctx.brk(x)

        def cont(n):
            x = mk_exit("continue")
            self._edge(n, x, "continue")
            ctx.cont(x)

        inner = _Ctx(exc, ret, brk if ctx.brk else None, cont if ctx.cont else None)
        outs = self._seq(st.body, [(enter, "next")], inner)
        if outs:
            x = mk_exit("normal")
            self._connect(outs, x)
            ctx.exc(x)
            return [(x, "next")]
        return []

    def _try(self, st, ins, ctx: _Ctx):
        fin = st.finalbody

        def through_finally(note, then):
            """Return a function routing node n through a fresh copy of the finally body, then ``then``."""
            if not fin:
                return then

            def route(n, _label=note):
                marker = self._new("dispatch", st, "finally:" + note)
                self._edge(n, marker, _label if _label in ("return", "break", "continue", "exc") else "next")
                outs = self._seq(fin, [(marker, "next")], ctx)
                for o, _ in outs:
                    then(o)

            return route

        # continuation contexts as seen from handlers / else (exceptions there go to outer via finally)
        outer_exc = through_finally("exc", ctx.exc)
        outer_ret = through_finally("return", ctx.ret)
        outer_brk = through_finally("break", ctx.brk) if ctx.brk else None
        outer_cont = through_finally("continue", ctx.cont) if ctx.cont else None
        after_ctx = _Ctx(outer_exc, outer_ret, outer_brk, outer_cont)

        handlers = getattr(st, "handlers", [])
        if handlers:
            disp = self._new("dispatch", st, "except")

            def body_exc(n):
                self._edge(n, disp, "exc")
        else:
            disp = None
            body_exc = outer_exc
        body_ctx = _Ctx(body_exc, outer_ret, outer_brk, outer_cont)
        body_outs = self._seq(st.body, ins, body_ctx)
        outs = []
        if st.orelse:
            body_outs = self._seq(st.orelse, body_outs, after_ctx)
        outs += body_outs
        if disp is not None:
            catch_all = False
            for h in handlers:
                hn = self._new("except", h)
                self._edge(disp, hn, "exc")
                outs += self._seq(h.body, [(hn, "next")], after_ctx)
                if h.type is None or (isinstance(h.type, ast.Name) and h.type.id in ("BaseException",)):
                    catch_all = True
            if not catch_all:
                outer_exc(disp)  # no handler matched
        if fin and outs:
            marker = self._new("dispatch", st, "finally:normal")
            self._connect(outs, marker)
            outs = self._seq(fin, [(marker, "next")], ctx)
        return outs

    # ---------------------------------------------------------------- queries
    def succ(self, n: Node) -> List[Tuple[Node, str]]:
        return [(self.nodes[v], d["label"]) for _, v, d in self.g.out_edges(n.idx, data=True)]

    def pred(self, n: Node) -> List[Tuple[Node, str]]:
        return [(self.nodes[u], d["label"]) for u, _, d in self.g.in_edges(n.idx, data=True)]

    def reachable(self) -> Set[int]:
        return set(nx.descendants(self.g, self.entry.idx)) | {self.entry.idx}

    def stmt_nodes(self, pred=None) -> List[Node]:
        r = self.reachable()
        return [n for n in self.nodes if n.idx in r and n.ast is not None and (pred is None or pred(n))]

    def nodes_for(self, astnode: ast.AST) -> List[Node]:
        return [n for n in self.nodes if n.ast is astnode]

    def dominators(self) -> Dict[int, int]:
        return nx.immediate_dominators(nx.DiGraph(self.g), self.entry.idx)

    def dominates(self, a: Node, b: Node) -> bool:
        idom = self.dominators()
        cur = b.idx
        while True:
            if cur == a.idx:
                return True
            nxt = idom.get(cur)
            if nxt is None or nxt == cur:
                return False
            cur = nxt

    def paths(self, start: Node, targets: Iterable[Node], limit: int = 20000, max_visits: int = 2):
        """Enumerate paths from start to any target; each node is visited at most ``max_visits`` times
        (loops unrolled once).  Yields lists of (node, label_taken_to_reach_it)."""
        tset = {t.idx for t in targets}
        count = 0
        stack = [(start, [(start, "")], {start.idx: 1})]
        while stack:
            node, path, visits = stack.pop()
            if node.idx in tset:
                count += 1
                yield path
                if count >= limit:
                    raise PathLimit(count)
                continue
            for nxt, lab in self.succ(node):
                c = visits.get(nxt.idx, 0)
                if c >= max_visits:
                    continue
                v2 = dict(visits)
                v2[nxt.idx] = c + 1
                stack.append((nxt, path + [(nxt, lab)], v2))

    def all_paths_to_exits(self, limit: int = 20000, include_raise: bool = True, max_visits: int = 2):
        targets = [self.exit] + ([self.raise_] if include_raise else [])
        return self.paths(self.entry, targets, limit=limit, max_visits=max_visits)


class PathLimit(Exception):
    pass


def describe_path(path) -> str:
    out = []
    for n, lab in path:
        if n.kind in ("entry",):
            continue
        if n.kind == "exit":
            out.append("RETURN")
        elif n.kind == "raise":
            out.append("RAISE")
        elif n.ast is not None:
            tag = f"L{getattr(n.ast, 'lineno', '?')}"
            if n.kind != "stmt":
                tag += f"({n.kind}{':' + n.note if n.note else ''})"
            out.append((f"-{lab}-> " if lab and lab != "next" else "") + tag)
    return " ".join(out)
