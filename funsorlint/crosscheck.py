"""Extractor cross-validation (thorough tier).

A separate process imports funsor from the tree under analysis (module initialisation only; no rule function of funsor is
called) and dumps what the *running* program contains: term classes and their ``_ast_fields``, ops (name, class, parent
class, arity, post-arity parameters), the algebraic tables, and the number of signatures per registry.  The parent compares
the dump with the AST-derived catalogue.  A disagreement means the static model misreads the program: exit 2
(CROSSCHECK-FAIL).  This validates the analyser's resolution; it decides no property and never yields a VIOLATION.

Only the modules the numpy backend loads can be compared (torch / jax are not installed here); static facts from the other
modules are outside this comparison and said so in the evidence.
"""
from __future__ import annotations

import ast
import itertools
import json
import os
import subprocess
import sys
import time
from typing import Dict, List, Optional

from .catalogue import Catalogue
from .model import Program, norm
from .rules.common import Refs

VERIF = os.path.dirname(os.path.dirname(os.path.abspath(__file__)))

DUMP = r'''
import importlib, json, sys, warnings
warnings.simplefilter("ignore")
import funsor
from funsor.terms import Funsor
from funsor.typing import get_origin
from funsor.ops.op import Op
from funsor import ops
req = json.loads(sys.stdin.read())
out = {"modules": sorted(m for m in sys.modules if m == "funsor" or m.startswith("funsor."))}
seen = set()
def walk(c):
    for s in type(c).__subclasses__(c):
        if s not in seen:
            seen.add(s); walk(s)
walk(Funsor)
out["terms"] = {c.__module__ + "." + c.__qualname__: list(c._ast_fields) for c in seen if get_origin(c) is c}
opd = {}
for modname in ("funsor.ops.op", "funsor.ops.builtin", "funsor.ops.array"):
    m = importlib.import_module(modname)
    for k, v in vars(m).items():
        if isinstance(v, Op):
            import inspect
            ps = list(inspect.signature(v.default).parameters) if hasattr(v, "default") else []
            opd[modname + "." + k] = {"name": v.name, "cls": type(v).__name__, "parent": type(v).__mro__[1].__name__,
                                      "arity": v.arity, "params": list(v.signature.parameters)[v.arity:]}
out["ops"] = opd
def opname(x):
    return x.name if isinstance(x, Op) else repr(x)
T = importlib.import_module("funsor.ops.op")
out["tables"] = {
    "UNITS": {opname(k): repr(v) for k, v in T.UNITS.items()},
    "DISTRIBUTIVE_OPS": sorted([opname(a), opname(b)] for a, b in T.DISTRIBUTIVE_OPS),
    "BINARY_INVERSES": {opname(k): opname(v) for k, v in T.BINARY_INVERSES.items()},
    "SAFE_BINARY_INVERSES": {opname(k): opname(v) for k, v in T.SAFE_BINARY_INVERSES.items()},
    "UNARY_INVERSES": {opname(k): opname(v) for k, v in T.UNARY_INVERSES.items()},
    "PRODUCT_TO_POWER": {opname(k): opname(v) for k, v in T.PRODUCT_TO_POWER.items()},
}
def underlying(obj):
    from funsor.registry import KeyedRegistry
    for _ in range(4):
        if isinstance(obj, KeyedRegistry):
            return obj
        if hasattr(obj, "funcs") and hasattr(obj, "register"):
            return obj
        if hasattr(obj, "_subinterpretations"):
            obj = obj._subinterpretations[0]; continue
        if hasattr(obj, "registry"):
            obj = obj.registry; continue
        if hasattr(obj, "dispatcher"):
            obj = obj.dispatcher; continue
        break
    return None
regs = {}
for name in req["registries"]:
    parts = name.split(".")
    obj = None
    for i in range(len(parts), 0, -1):
        try:
            obj = importlib.import_module(".".join(parts[:i]))
        except Exception:
            continue
        try:
            for a in parts[i:]:
                obj = getattr(obj, a)
        except AttributeError:
            obj = None
        break
    u = underlying(obj) if obj is not None else None
    if u is None:
        regs[name] = None
        continue
    if hasattr(u, "registry") and isinstance(u.registry, dict):
        n = 0
        per = {}
        for cls, d in u.registry.items():
            k = len([s for s, f in d.funcs.items() if type(f).__name__ != "PartialDefault"])
            per[getattr(cls, "__name__", repr(cls))] = k
            n += k
        regs[name] = {"id": id(u), "n": n, "per_class": per}
    else:
        regs[name] = {"id": id(u), "n": len(u.funcs), "per_class": {}}
out["registries"] = regs
json.dump(out, sys.stdout)
'''


def _expand(pattern: List[ast.expr]) -> int:
    n = 1
    for p in pattern:
        if isinstance(p, ast.Tuple):
            n *= max(1, len(p.elts))
    return n


def _expanded(pattern: List[ast.expr]):
    alts = []
    for p in pattern:
        if isinstance(p, ast.Tuple):
            alts.append([norm(e) for e in p.elts])
        else:
            alts.append([norm(p)])
    return list(itertools.product(*alts))


def run(repo: str, evidence_prop: Optional[str] = None, evidence_dir: Optional[str] = None, verbose: bool = False) -> int:
    t0 = time.time()
    prog = Program(repo)
    refs = Refs(prog)
    cat = Catalogue(prog, refs)
    # op dispatchers hold a default plus inherited subclass registrations; they are outside this comparison
    static_regs = sorted({r.registry for r in cat.registrations if not r.registry.startswith("?") and r.registry.startswith("funsor.")
                          and r.registry not in cat.ops})
    env = dict(os.environ)
    env["PYTHONPATH"] = os.path.abspath(repo)
    env.pop("FUNSOR_BACKEND", None)
    env["PYTHONDONTWRITEBYTECODE"] = "1"
    p = subprocess.run([sys.executable, "-c", DUMP], input=json.dumps({"registries": static_regs}), capture_output=True, text=True,
                       env=env, cwd="/", timeout=300)
    if p.returncode != 0:
        print("CROSSCHECK-FAIL the tree under analysis cannot be imported for cross-validation:\n" + p.stderr[-1500:])
        return 2
    rt = json.loads(p.stdout)
    loaded = set(rt["modules"])
    problems: List[str] = []
    compared = {"terms": 0, "ops": 0, "table_entries": 0, "registries": 0}

    # ---- term classes
    st_terms = {t.fq: t.fields for t in cat.term_classes.values() if t.cls.module.name in loaded}
    for fq, fields in rt["terms"].items():
        if not fq.startswith("funsor.") or ".<locals>." in fq:
            continue
        compared["terms"] += 1
        if fq not in st_terms:
            problems.append(f"term class {fq} exists at run time but not in the catalogue")
        elif list(st_terms[fq]) != list(fields):
            problems.append(f"term class {fq}: catalogue fields {st_terms[fq]} != runtime _ast_fields {fields}")
    for fq in st_terms:
        if fq not in rt["terms"] and fq != "funsor.terms.Funsor":
            problems.append(f"term class {fq} is in the catalogue but not a loaded Funsor subclass")

    # ---- ops
    for fq, o in rt["ops"].items():
        compared["ops"] += 1
        so = cat.ops.get(fq)
        if so is None:
            # aliases (`x = y` of an existing op) are not ops of their own in the catalogue
            same = [k for k, v in rt["ops"].items() if k != fq and v == o and k in cat.ops]
            if not same:
                problems.append(f"op {fq} ({o['cls']}) exists at run time but not in the catalogue")
            continue
        if so.name != o["name"] or so.class_name != o["cls"]:
            problems.append(f"op {fq}: catalogue name/class {so.name}/{so.class_name} != runtime {o['name']}/{o['cls']}")
        ar = cat.arity_of(fq)
        if ar is not None and ar != o["arity"]:
            problems.append(f"op {fq}: catalogue arity {ar} != runtime {o['arity']}")
        if so.all_params and list(so.params) != list(o["params"]):
            problems.append(f"op {fq}: catalogue post-arity parameters {so.params} != runtime defaults {o['params']}")
        par = so.parent.rsplit(".", 1)[-1]
        want_parent = cat.ops[so.parent].class_name if so.parent_is_op else par
        if want_parent != o["parent"]:
            problems.append(f"op {fq}: catalogue parent class {want_parent} != runtime {o['parent']}")
    for fq in cat.ops:
        if fq not in rt["ops"]:
            problems.append(f"op {fq} is in the catalogue but not defined at run time")

    # ---- tables
    def sname(mod, e):
        o = cat.resolve_op(mod, e)
        return o.name if o is not None else norm(e)

    T = "funsor.ops.op."
    for tab in ("UNITS", "BINARY_INVERSES", "SAFE_BINARY_INVERSES", "UNARY_INVERSES", "PRODUCT_TO_POWER"):
        st = {}
        for e in cat.table_entries(T + tab):
            if e.module.name not in loaded or isinstance(e.key, ast.Call):
                continue
            if tab == "UNITS":
                try:
                    v = repr(ast.literal_eval(e.value))
                except Exception:
                    from .rules.common import const_value
                    cv = const_value(e.value)
                    v = repr(cv) if cv is not NotImplemented else norm(e.value)
            else:
                v = sname(e.module, e.value)
            st[sname(e.module, e.key)] = v
        compared["table_entries"] += len(st)
        if st != rt["tables"][tab]:
            problems.append(f"table {tab}: catalogue {st} != runtime {rt['tables'][tab]}")
    st = sorted([sname(e.module, e.key.elts[0]), sname(e.module, e.key.elts[1])] for e in cat.table_entries(T + "DISTRIBUTIVE_OPS")
                if e.module.name in loaded and isinstance(e.key, ast.Tuple) and len(e.key.elts) == 2)
    compared["table_entries"] += len(st)
    if st != rt["tables"]["DISTRIBUTIVE_OPS"]:
        problems.append(f"table DISTRIBUTIVE_OPS: catalogue {st} != runtime {rt['tables']['DISTRIBUTIVE_OPS']}")

    # ---- registries: number of distinct signatures per underlying registry object
    by_id: Dict[int, dict] = {}
    for name, info in rt["registries"].items():
        if info is None:
            continue
        by_id.setdefault(info["id"], {"names": [], "n": info["n"]})["names"].append(name)
    reg_report = {}
    for rid, g in by_id.items():
        sigs = set()
        dynamic = 0
        for r in cat.registrations:
            if r.registry not in g["names"] or r.module.name not in loaded or r.method not in ("register",):
                continue
            site = r.node
            par = r.module.parent.get(site)
            if isinstance(par, (ast.FunctionDef, ast.AsyncFunctionDef)) and site in par.decorator_list:
                site = par  # a decorator runs where the decorated def statement is
            if r.module.enclosing_function(site) is not None or r.guarded or any(isinstance(p, ast.Starred) for p in r.pattern):
                dynamic += 1  # executed zero or many times at run time (factories, loops, backend guards)
                continue
            for s in cat.expand_pattern(r):
                sigs.add(s)
        compared["registries"] += 1
        key = "/".join(sorted(g["names"]))
        reg_report[key] = {"static_signatures": len(sigs), "runtime_signatures": g["n"], "dynamic_sites": dynamic}
        if dynamic == 0 and len(sigs) != g["n"]:
            problems.append(f"registry {key}: catalogue has {len(sigs)} distinct signatures, the running program {g['n']}")
        if dynamic and len(sigs) > g["n"]:
            problems.append(f"registry {key}: catalogue has {len(sigs)} static signatures, more than the {g['n']} at run time")

    summary = {"compared": compared, "registries_not_comparable": sorted(k for k, v in rt["registries"].items() if v is None), "loaded_modules": len(loaded), "not_comparable_modules": sorted(set(prog.modules) - loaded),
               "registries": reg_report, "problems": problems, "wall_s": round(time.time() - t0, 2)}
    print(f"crosscheck: {compared['terms']} term classes, {compared['ops']} ops, {compared['table_entries']} table entries, "
          f"{compared['registries']} registries compared with the imported program; {len(problems)} disagreement(s)")
    if verbose:
        print(json.dumps(reg_report, indent=1))
    if evidence_prop:
        ev_dir = evidence_dir or os.path.join(VERIF, "evidence")
        pth = os.path.join(ev_dir, f"{evidence_prop}.json")
        if os.path.exists(pth):
            with open(pth) as f:
                ev = json.load(f)
            ev["coverage"]["extractor_crosscheck"] = summary
            with open(pth, "w") as f:
                json.dump(ev, f, indent=1, default=str)
    if problems:
        for x in problems[:30]:
            print("  crosscheck disagreement: " + x)
        print("CROSSCHECK-FAIL the static catalogue disagrees with the imported program (analyser defect, not a property violation)")
        return 2
    return 0
