"""A small syntax-directed forward abstract interpreter over a function body.

The client supplies ``eval_expr(expr, env) -> frozenset(values)`` and an ``on_stmt(stmt, env)``
hook that is called for every simple statement and every compound-statement header *before*
the statement's own bindings take effect.  Environments map local names to sets of abstract
values; control-flow joins take the union (path-insensitive at joins, flow-sensitive along
straight-line code, loops iterated to a fixpoint with a bound).
"""
from __future__ import annotations

import ast
from typing import Callable, Dict, FrozenSet, List, Optional

Env = Dict[str, FrozenSet]


def join(a: Env, b: Env) -> Env:
    out = dict(a)
    for k, v in b.items():
        out[k] = out.get(k, frozenset()) | v
    return out


def env_eq(a: Env, b: Env) -> bool:
    return a == b


class Walker:
    def __init__(self, func_node: ast.AST, eval_expr: Callable, on_stmt: Optional[Callable] = None,
                 bind: Optional[Callable] = None, init_env: Optional[Env] = None, loop_bound: int = 4):
        self.func = func_node
        self.eval_expr = eval_expr
        self.on_stmt = on_stmt or (lambda st, env: None)
        # bind(target, valueset, env, stmt) -> None : assignment to non-Name targets (attributes, subscripts)
        self.bind = bind
        self.env: Env = dict(init_env or {})
        self.returns: List = []
        self.loop_bound = loop_bound
        self._loops: List[dict] = []

    def run(self) -> Env:
        body = [ast.Return(value=self.func.body)] if isinstance(self.func, ast.Lambda) else self.func.body
        if isinstance(self.func, ast.Lambda):
            ast.copy_location(body[0], self.func.body)
        return self.block(body, self.env)

    # ------------------------------------------------------------------
    def block(self, stmts, env: Env) -> Env:
        # clients may update ``env`` in place from on_stmt (ownership freezes names); a private copy per block keeps
        # such effects out of the sibling branch while they still flow to the block's continuation
        env = dict(env)
        for st in stmts:
            env = self.stmt(st, env)
        return env

    def assign(self, target: ast.AST, values: FrozenSet, env: Env, stmt: ast.AST, elementwise=False) -> Env:
        if isinstance(target, ast.Name):
            env = dict(env)
            env[target.id] = values
            return env
        if isinstance(target, (ast.Tuple, ast.List)):
            for i, e in enumerate(target.elts):
                sub = self.unpack(values, i, e, env, stmt)
                env = self.assign(e.value if isinstance(e, ast.Starred) else e, sub, env, stmt)
            return env
        if self.bind is not None:
            self.bind(target, values, env, stmt)
        return env

    def elem_of(self, values) -> FrozenSet:
        return frozenset({("elem", v) for v in values})

    def unpack(self, values, index, elt, env, stmt) -> FrozenSet:
        """Abstract value of element ``index`` when unpacking ``values``; clients may override."""
        return self.eval_expr(ast.Subscript(value=ast.Constant(value=None), slice=ast.Constant(value=index), ctx=ast.Load()), env) \
            if False else frozenset({("elem", v) for v in values}) if values else frozenset()

    def stmt(self, st: ast.stmt, env: Env) -> Env:
        if isinstance(st, (ast.FunctionDef, ast.AsyncFunctionDef, ast.ClassDef)):
            self.on_stmt(st, env)
            env = dict(env)
            env[st.name] = frozenset({("def", st.name)})
            return env
        if isinstance(st, ast.Assign):
            self.on_stmt(st, env)
            v = self.eval_expr(st.value, env)
            for t in st.targets:
                if isinstance(t, (ast.Tuple, ast.List)) and isinstance(st.value, (ast.Tuple, ast.List)) and len(t.elts) == len(st.value.elts) \
                        and not any(isinstance(e, ast.Starred) for e in t.elts + st.value.elts):
                    vals = [self.eval_expr(e, env) for e in st.value.elts]
                    for te, ve in zip(t.elts, vals):
                        env = self.assign(te, ve, env, st)
                else:
                    env = self.assign(t, v, env, st)
            return env
        if isinstance(st, ast.AnnAssign):
            self.on_stmt(st, env)
            if st.value is not None:
                env = self.assign(st.target, self.eval_expr(st.value, env), env, st)
            return env
        if isinstance(st, ast.AugAssign):
            self.on_stmt(st, env)
            if isinstance(st.target, ast.Name):
                # x op= e : the client decides (via eval_expr on a synthetic BinOp) what the new value is
                synthetic = ast.BinOp(left=ast.Name(id=st.target.id, ctx=ast.Load()), op=st.op, right=st.value)
                ast.copy_location(synthetic, st)
                ast.fix_missing_locations(synthetic)
                synthetic._augassign = st
                env = self.assign(st.target, self.eval_expr(synthetic, env), env, st)
            return env
        if isinstance(st, ast.Return):
            self.on_stmt(st, env)
            if st.value is not None:
                self.returns.append((st, self.eval_expr(st.value, env), env))
            else:
                self.returns.append((st, frozenset({("const", None)}), env))
            return env
        if isinstance(st, (ast.Continue, ast.Break)):
            if self._loops:
                self._loops[-1]['cont' if isinstance(st, ast.Continue) else 'brk'].append(env)
            return env
        if isinstance(st, ast.If):
            self.on_stmt(st, env)
            a = self.block(st.body, env)
            b = self.block(st.orelse, env)
            ta, tb = _terminates(st.body), _terminates(st.orelse)
            if ta and not tb:
                return b
            if tb and not ta:
                return a
            return join(a, b)
        if isinstance(st, (ast.For, ast.AsyncFor)):
            self.on_stmt(st, env)
            itv = self.eval_expr(st.iter, env)
            elem = self.elem_of(itv)
            cur = env
            brk: List[Env] = []
            for _ in range(self.loop_bound):
                self._loops.append({"cont": [], "brk": []})
                e1 = self.assign(st.target, elem, cur, st)
                e2 = self.block(st.body, e1)
                rec = self._loops.pop()
                nxt = join(cur, e2)
                for c in rec["cont"]:
                    nxt = join(nxt, c)
                brk = rec["brk"]
                if env_eq(nxt, cur):
                    break
                cur = nxt
            out = self.block(st.orelse, cur) if st.orelse else cur
            for b in brk:
                out = join(out, b)
            return out
        if isinstance(st, ast.While):
            self.on_stmt(st, env)
            cur = env
            brk = []
            for _ in range(self.loop_bound):
                self._loops.append({"cont": [], "brk": []})
                e2 = self.block(st.body, cur)
                rec = self._loops.pop()
                nxt = join(cur, e2)
                for c in rec["cont"]:
                    nxt = join(nxt, c)
                brk = rec["brk"]
                if env_eq(nxt, cur):
                    break
                cur = nxt
            out = self.block(st.orelse, cur) if st.orelse else cur
            for b in brk:
                out = join(out, b)
            return out
        if isinstance(st, (ast.With, ast.AsyncWith)):
            self.on_stmt(st, env)
            for it in st.items:
                v = self.eval_expr(it.context_expr, env)
                if it.optional_vars is not None:
                    env = self.assign(it.optional_vars, frozenset({("ctx", x) for x in v}), env, st)
            return self.block(st.body, env)
        if isinstance(st, ast.Try) or st.__class__.__name__ == "TryStar":
            self.on_stmt(st, env)
            after_body = self.block(st.body, env)
            mid = join(env, after_body)
            outs = [self.block(st.orelse, after_body)] if st.orelse else [after_body]
            for h in st.handlers:
                he = mid
                if h.name:
                    he = dict(he)
                    he[h.name] = frozenset({("exc",)})
                o = self.block(h.body, he)
                if not _terminates(h.body):
                    outs.append(o)
            res = outs[0]
            for o in outs[1:]:
                res = join(res, o)
            if st.finalbody:
                res = self.block(st.finalbody, join(res, mid))
            return res
        if isinstance(st, ast.Match):
            self.on_stmt(st, env)
            res = env
            for case in st.cases:
                res = join(res, self.block(case.body, env))
            return res
        if isinstance(st, ast.Delete):
            self.on_stmt(st, env)
            env = dict(env)
            for t in st.targets:
                if isinstance(t, ast.Name):
                    env.pop(t.id, None)
            return env
        if isinstance(st, (ast.Import, ast.ImportFrom)):
            self.on_stmt(st, env)
            env = dict(env)
            for a in st.names:
                env[(a.asname or a.name).split(".")[0]] = frozenset({("import", a.name)})
            return env
        self.on_stmt(st, env)
        return env


def _terminates(stmts) -> bool:
    if not stmts:
        return False
    last = stmts[-1]
    if isinstance(last, (ast.Return, ast.Raise, ast.Continue, ast.Break)):
        return True
    if isinstance(last, ast.If) and last.orelse:
        return _terminates(last.body) and _terminates(last.orelse)
    return False


# ---------------------------------------------------------------------------------------------------------------------
# flow-sensitive dependence of an expression on the parameters of its function (reaching definitions over the CFG)


def param_deps(func, expr, at_stmt, cfg=None, _memo=None, _depth=0):
    """Set of parameter names of ``func`` (a model.Func) that ``expr`` - evaluated at statement ``at_stmt`` - may depend on,
    following reaching definitions of locals (a parameter counts only where its initial value still reaches)."""
    import ast as _ast
    import networkx as nx
    from .cfg import CFG
    from .rules.common import walk_no_nested
    cfg = cfg or CFG(func.node)
    _memo = _memo if _memo is not None else {}
    defs = {}
    for n in walk_no_nested(func.node):
        targets = []
        if isinstance(n, _ast.Assign):
            targets = n.targets
        elif isinstance(n, (_ast.AugAssign, _ast.AnnAssign)):
            targets = [n.target]
        elif isinstance(n, (_ast.For,)):
            targets = [n.target]
        elif isinstance(n, _ast.With):
            targets = [i.optional_vars for i in n.items if i.optional_vars is not None]
        for t in targets:
            for x in _ast.walk(t):
                if isinstance(x, _ast.Name) and isinstance(x.ctx, _ast.Store):
                    defs.setdefault(x.id, []).append(n)
    out = set()
    if _depth > 12:
        return out
    use_nodes = [x.idx for x in cfg.nodes_for(at_stmt)]
    for x in _ast.walk(expr):
        if not (isinstance(x, _ast.Name) and isinstance(x.ctx, _ast.Load)):
            continue
        name = x.id
        ds = defs.get(name, [])
        def_nodes = {id(d): [n.idx for n in cfg.nodes_for(d)] for d in ds}
        all_def_nodes = {i for v in def_nodes.values() for i in v}
        # does the parameter's initial value reach?
        if name in func.params:
            g = cfg.g.subgraph([n for n in cfg.g.nodes if n not in all_def_nodes or n in use_nodes])
            if any(cfg.entry.idx in g and u in g and nx.has_path(g, cfg.entry.idx, u) for u in use_nodes):
                out.add(name)
        for d in ds:
            others = all_def_nodes - set(def_nodes[id(d)]) - set(use_nodes)  # `x = f(x)`: the use is evaluated before x is re-bound
            g = cfg.g.subgraph([n for n in cfg.g.nodes if n not in others])
            reaches = False
            for a in def_nodes[id(d)]:
                for u in use_nodes:
                    if a in g and u in g:
                        # the definition must be left before the use is reached (a statement does not reach itself unless in a loop)
                        succs = list(g.successors(a))
                        if any(s_ == u or nx.has_path(g, s_, u) for s_ in succs):
                            reaches = True
            if not reaches:
                continue
            key = (id(d), name)
            if key in _memo:
                out |= _memo[key]
                continue
            _memo[key] = set()
            rhs = getattr(d, "value", None) if not isinstance(d, (_ast.For, _ast.With)) else (d.iter if isinstance(d, _ast.For) else d.items[0].context_expr)
            sub = param_deps(func, rhs, d, cfg, _memo, _depth + 1) if rhs is not None else set()
            if isinstance(d, _ast.AugAssign):
                sub |= param_deps(func, _ast.Name(id=name, ctx=_ast.Load()), d, cfg, _memo, _depth + 1)
            _memo[key] = sub
            out |= sub
    return out
