"""Program model: parsed modules, top-level bindings, name resolution, classes, functions.

Everything here is derived from the source text of <repo>/funsor/**.py with the
standard-library ``ast`` module.  Nothing is imported or executed.
"""
from __future__ import annotations

import ast
import builtins
import hashlib
import os
from dataclasses import dataclass, field
from typing import Dict, Iterator, List, Optional, Tuple


class AnalysisError(Exception):
    """The analyser cannot do its job (missing anchor, parse failure, floor not met)."""


# --------------------------------------------------------------------------- modules


@dataclass
class Binding:
    kind: str  # 'module' | 'from' | 'def' | 'class' | 'assign' | 'for' | 'with'
    node: ast.AST
    target: Optional[str] = None  # module name for 'module'; source module for 'from'
    attr: Optional[str] = None  # imported name for 'from'
    value: Optional[ast.AST] = None  # rhs for 'assign'
    guarded: bool = False  # inside a module-level if/try (conditional binding)


def _canonicalise(tree: ast.AST) -> None:
    """Copy propagation of return temporaries, applied to every function before any rule looks at it:
    `x = EXPR` immediately followed by `return x`, with `x` stored once and loaded once in the whole function, becomes
    `return EXPR`.  The two forms denote the same program; canonicalising them means no rule can depend on which one is used."""
    for fn in [n for n in ast.walk(tree) if isinstance(n, (ast.FunctionDef, ast.AsyncFunctionDef))]:
        counts: Dict[str, List[int]] = {}
        for n in ast.walk(fn):
            if isinstance(n, ast.Name):
                c = counts.setdefault(n.id, [0, 0])
                c[0 if isinstance(n.ctx, ast.Store) else 1] += 1
            elif isinstance(n, ast.arg):
                counts.setdefault(n.arg, [0, 0])[0] += 1
            elif isinstance(n, (ast.Global, ast.Nonlocal)):
                for nm in n.names:
                    counts.setdefault(nm, [0, 0])[0] += 2

        # names all of whose occurrences are `x = E` immediately followed by `return x` (possibly several such pairs)
        pairs: Dict[str, int] = {}

        def count_pairs(stmts):
            for i, st in enumerate(stmts):
                nxt = stmts[i + 1] if i + 1 < len(stmts) else None
                if (isinstance(st, ast.Assign) and len(st.targets) == 1 and isinstance(st.targets[0], ast.Name) and isinstance(nxt, ast.Return)
                        and isinstance(nxt.value, ast.Name) and nxt.value.id == st.targets[0].id):
                    pairs[st.targets[0].id] = pairs.get(st.targets[0].id, 0) + 1
                for field in ("body", "orelse", "finalbody"):
                    v = getattr(st, field, None)
                    if isinstance(v, list) and v and isinstance(v[0], ast.stmt) and not isinstance(st, (ast.FunctionDef, ast.AsyncFunctionDef, ast.ClassDef)):
                        count_pairs(v)
                for h in getattr(st, "handlers", []) or []:
                    count_pairs(h.body)

        count_pairs(fn.body)
        for nm, k in pairs.items():
            if counts.get(nm) == [k, k]:
                counts[nm] = [1, 1]  # marks the name as a pure return temporary

        def fix(stmts: List[ast.stmt]) -> List[ast.stmt]:
            out: List[ast.stmt] = []
            i = 0
            while i < len(stmts):
                st = stmts[i]
                nxt = stmts[i + 1] if i + 1 < len(stmts) else None
                if (isinstance(st, ast.Assign) and len(st.targets) == 1 and isinstance(st.targets[0], ast.Name) and isinstance(nxt, ast.Return)
                        and isinstance(nxt.value, ast.Name) and nxt.value.id == st.targets[0].id and counts.get(st.targets[0].id) == [1, 1]):
                    r = ast.Return(value=st.value)
                    ast.copy_location(r, st)
                    r.end_lineno, r.end_col_offset = getattr(nxt, "end_lineno", None), getattr(nxt, "end_col_offset", None)
                    out.append(r)
                    i += 2
                    continue
                for field in ("body", "orelse", "finalbody"):
                    v = getattr(st, field, None)
                    if isinstance(v, list) and v and isinstance(v[0], ast.stmt) and not isinstance(st, (ast.FunctionDef, ast.AsyncFunctionDef, ast.ClassDef)):
                        setattr(st, field, fix(v))
                for h in getattr(st, "handlers", []) or []:
                    h.body = fix(h.body)
                if isinstance(st, ast.Match):
                    for case in st.cases:
                        case.body = fix(case.body)
                out.append(st)
                i += 1
            return out

        fn.body = fix(fn.body)

        # `if c: ...; return/raise/continue/break` with an `else:` branch is the same program as the `if` followed by the
        # statements of the else branch: hoist them, so that early-exit and if/else spellings are one form for every rule
        def hoist(stmts: List[ast.stmt]) -> List[ast.stmt]:
            out: List[ast.stmt] = []
            for st in stmts:
                for field in ("body", "orelse", "finalbody"):
                    v = getattr(st, field, None)
                    if isinstance(v, list) and v and isinstance(v[0], ast.stmt) and not isinstance(st, (ast.FunctionDef, ast.AsyncFunctionDef, ast.ClassDef)):
                        setattr(st, field, hoist(v))
                for h in getattr(st, "handlers", []) or []:
                    h.body = hoist(h.body)
                if isinstance(st, ast.If) and st.orelse and st.body and isinstance(st.body[-1], (ast.Return, ast.Raise, ast.Continue, ast.Break)):
                    tail = st.orelse
                    st.orelse = []
                    out.append(st)
                    out.extend(tail)
                else:
                    out.append(st)
            return out

        fn.body = hoist(fn.body)


class Module:
    def __init__(self, name: str, path: str, rel: str, source: str, is_pkg: bool):
        self.name = name
        self.path = path
        self.rel = rel
        self.source = source
        self.lines = source.splitlines()
        self.is_pkg = is_pkg
        self.tree = ast.parse(source, filename=path)
        _canonicalise(self.tree)
        self.parent: Dict[ast.AST, ast.AST] = {}
        for p in ast.walk(self.tree):
            for c in ast.iter_child_nodes(p):
                self.parent[c] = p
        self.bindings: Dict[str, List[Binding]] = {}
        self.star_imports: List[str] = []
        self.all_names: Optional[List[str]] = None
        self.digest = hashlib.sha256(source.encode()).hexdigest()[:16]

    @property
    def package(self) -> str:
        return self.name if self.is_pkg else self.name.rpartition(".")[0]

    def loc(self, node: ast.AST) -> str:
        return f"{self.rel}:{getattr(node, 'lineno', 0)}"

    def text(self, node: ast.AST) -> str:
        try:
            return ast.unparse(node)
        except Exception:  # pragma: no cover
            return "<unparse failed>"

    def enclosing(self, node: ast.AST, types) -> Optional[ast.AST]:
        p = self.parent.get(node)
        while p is not None and not isinstance(p, types):
            p = self.parent.get(p)
        return p

    def enclosing_function(self, node):
        return self.enclosing(node, (ast.FunctionDef, ast.AsyncFunctionDef, ast.Lambda))

    def ancestors(self, node) -> Iterator[ast.AST]:
        p = self.parent.get(node)
        while p is not None:
            yield p
            p = self.parent.get(p)


def norm(node: ast.AST) -> str:
    """Normalised statement/expression text used in construct keys (no line numbers)."""
    s = ast.unparse(node) if not isinstance(node, str) else node
    s = " ".join(s.split())
    return s if len(s) <= 160 else s[:157] + "..."


def dotted(expr: ast.AST) -> Optional[List[str]]:
    """a.b.c -> ['a','b','c'];  None when the expression is not a pure name chain."""
    parts: List[str] = []
    while isinstance(expr, ast.Attribute):
        parts.append(expr.attr)
        expr = expr.value
    if isinstance(expr, ast.Name):
        parts.append(expr.id)
        return parts[::-1]
    return None


@dataclass
class Func:
    module: Module
    qualname: str
    node: ast.AST  # FunctionDef | AsyncFunctionDef | Lambda
    cls: Optional["ClassInfo"] = None
    parent: Optional["Func"] = None

    @property
    def fq(self) -> str:
        return f"{self.module.name}::{self.qualname}"

    @property
    def name(self) -> str:
        return getattr(self.node, "name", "<lambda>")

    @property
    def params(self) -> List[str]:
        a = self.node.args
        names = [x.arg for x in a.posonlyargs + a.args]
        if a.vararg:
            names.append(a.vararg.arg)
        names += [x.arg for x in a.kwonlyargs]
        if a.kwarg:
            names.append(a.kwarg.arg)
        return names

    @property
    def positional(self) -> List[str]:
        a = self.node.args
        return [x.arg for x in a.posonlyargs + a.args]

    @property
    def body(self) -> List[ast.stmt]:
        if isinstance(self.node, ast.Lambda):
            return [ast.Return(value=self.node.body)]
        return self.node.body

    @property
    def decorators(self) -> List[ast.expr]:
        return getattr(self.node, "decorator_list", [])

    def loc(self, node=None) -> str:
        return self.module.loc(node if node is not None else self.node)


@dataclass
class ClassInfo:
    module: Module
    name: str
    node: ast.ClassDef
    qualname: str
    bases: List[str] = field(default_factory=list)  # resolved dotted names (or raw text)
    base_exprs: List[ast.expr] = field(default_factory=list)
    metaclass: Optional[str] = None
    methods: Dict[str, Func] = field(default_factory=dict)
    attrs: Dict[str, ast.AST] = field(default_factory=dict)  # class-level simple assignments

    @property
    def fq(self) -> str:
        return f"{self.module.name}.{self.qualname}"


class Program:
    """All modules under <repo>/funsor plus resolution services."""

    def __init__(self, repo: str, package: str = "funsor", extra_dirs: Tuple[str, ...] = ()):
        self.repo = os.path.abspath(repo)
        self.package = package
        self.modules: Dict[str, Module] = {}
        self.extra_modules: Dict[str, Module] = {}
        root = os.path.join(self.repo, package)
        if not os.path.isdir(root):
            raise AnalysisError(f"package directory not found: {root}")
        for dirpath, dirnames, filenames in os.walk(root):
            dirnames[:] = sorted(d for d in dirnames if d != "__pycache__")
            for fn in sorted(filenames):
                if not fn.endswith(".py"):
                    continue
                path = os.path.join(dirpath, fn)
                rel = os.path.relpath(path, self.repo)
                parts = rel[:-3].split(os.sep)
                is_pkg = parts[-1] == "__init__"
                if is_pkg:
                    parts = parts[:-1]
                name = ".".join(parts)
                with open(path, encoding="utf-8") as f:
                    src = f.read()
                try:
                    self.modules[name] = Module(name, path, rel, src, is_pkg)
                except SyntaxError as e:
                    raise AnalysisError(f"cannot parse {rel}: {e}")
        for d in extra_dirs:
            droot = os.path.join(self.repo, d)
            if not os.path.isdir(droot):
                continue
            for dirpath, dirnames, filenames in os.walk(droot):
                dirnames[:] = sorted(x for x in dirnames if x != "__pycache__")
                for fn in sorted(filenames):
                    if fn.endswith(".py"):
                        path = os.path.join(dirpath, fn)
                        rel = os.path.relpath(path, self.repo)
                        name = rel[:-3].replace(os.sep, ".")
                        try:
                            with open(path, encoding="utf-8") as f:
                                self.extra_modules[name] = Module(name, path, rel, f.read(), False)
                        except SyntaxError:
                            continue
        for m in list(self.modules.values()) + list(self.extra_modules.values()):
            self._collect_bindings(m)
        self.funcs: Dict[str, Func] = {}
        self.funcs_by_node: Dict[ast.AST, Func] = {}
        self.classes: Dict[str, ClassInfo] = {}
        for m in self.modules.values():
            self._collect_defs(m)
        for c in self.classes.values():
            self._resolve_class(c)
        self._mro_cache: Dict[str, List[str]] = {}

    # ------------------------------------------------------------------ bindings

    def all_modules(self, include_extra=False):
        ms = list(self.modules.values())
        if include_extra:
            ms += list(self.extra_modules.values())
        return ms

    def digest(self) -> str:
        h = hashlib.sha256()
        for name in sorted(self.modules):
            h.update(name.encode())
            h.update(self.modules[name].digest.encode())
        return h.hexdigest()[:16]

    def _abs_module(self, mod: Module, level: int, name: Optional[str]) -> str:
        if level == 0:
            return name or ""
        base = mod.package.split(".") if mod.package else []
        if level > 1:
            base = base[: len(base) - (level - 1)]
        if name:
            base = base + name.split(".")
        return ".".join(base)

    def _collect_bindings(self, mod: Module) -> None:
        def add(name, b):
            mod.bindings.setdefault(name, []).append(b)

        def visit(stmts, guarded):
            for st in stmts:
                if isinstance(st, ast.Import):
                    for a in st.names:
                        if a.asname:
                            add(a.asname, Binding("module", st, target=a.name, guarded=guarded))
                        else:
                            top = a.name.split(".")[0]
                            add(top, Binding("module", st, target=top, guarded=guarded))
                elif isinstance(st, ast.ImportFrom):
                    src = self._abs_module(mod, st.level, st.module)
                    for a in st.names:
                        if a.name == "*":
                            mod.star_imports.append(src)
                        else:
                            add(a.asname or a.name, Binding("from", st, target=src, attr=a.name, guarded=guarded))
                elif isinstance(st, (ast.FunctionDef, ast.AsyncFunctionDef)):
                    add(st.name, Binding("def", st, guarded=guarded))
                elif isinstance(st, ast.ClassDef):
                    add(st.name, Binding("class", st, guarded=guarded))
                elif isinstance(st, ast.Assign):
                    for t in st.targets:
                        for n in _target_names(t):
                            add(n, Binding("assign", st, value=st.value if isinstance(t, ast.Name) else None, guarded=guarded))
                    if (len(st.targets) == 1 and isinstance(st.targets[0], ast.Name)
                            and st.targets[0].id == "__all__" and isinstance(st.value, (ast.List, ast.Tuple))):
                        mod.all_names = [e.value for e in st.value.elts if isinstance(e, ast.Constant) and isinstance(e.value, str)]
                elif isinstance(st, ast.AnnAssign) and isinstance(st.target, ast.Name):
                    add(st.target.id, Binding("assign", st, value=st.value, guarded=guarded))
                elif isinstance(st, ast.AugAssign) and isinstance(st.target, ast.Name):
                    add(st.target.id, Binding("assign", st, value=None, guarded=guarded))
                elif isinstance(st, (ast.If,)):
                    visit(st.body, True)
                    visit(st.orelse, True)
                elif isinstance(st, ast.Try):
                    visit(st.body, True)
                    for h in st.handlers:
                        visit(h.body, True)
                    visit(st.orelse, True)
                    visit(st.finalbody, True)
                elif isinstance(st, (ast.For, ast.While)):
                    if isinstance(st, ast.For):
                        for n in _target_names(st.target):
                            add(n, Binding("for", st, guarded=True))
                    visit(st.body, True)
                    visit(st.orelse, True)
                elif isinstance(st, ast.With):
                    for it in st.items:
                        if it.optional_vars is not None:
                            for n in _target_names(it.optional_vars):
                                add(n, Binding("with", st, guarded=guarded))
                    visit(st.body, guarded)

        visit(mod.tree.body, False)

    # ------------------------------------------------------------------ defs

    def _collect_defs(self, mod: Module) -> None:
        counts: Dict[str, int] = {}

        def uniq(q):
            counts[q] = counts.get(q, 0) + 1
            return q if counts[q] == 1 else f"{q}#{counts[q]}"

        def walk(node, prefix, cls, parent_func):
            for child in ast.iter_child_nodes(node):
                if isinstance(child, (ast.FunctionDef, ast.AsyncFunctionDef)):
                    q = uniq(prefix + child.name)
                    f = Func(mod, q, child, cls=cls if isinstance(node, ast.ClassDef) else None, parent=parent_func)
                    self.funcs[f.fq] = f
                    self.funcs_by_node[child] = f
                    if isinstance(node, ast.ClassDef) and cls is not None:
                        cls.methods.setdefault(child.name, f)
                        cls.methods[child.name] = f  # last definition wins, as at run time
                    walk(child, q + ".", None, f)
                elif isinstance(child, ast.Lambda):
                    q = uniq(prefix + "<lambda>")
                    f = Func(mod, q, child, cls=None, parent=parent_func)
                    self.funcs[f.fq] = f
                    self.funcs_by_node[child] = f
                    walk(child, q + ".", None, f)
                elif isinstance(child, ast.ClassDef):
                    q = uniq(prefix + child.name)
                    ci = ClassInfo(mod, child.name, child, q)
                    self.classes[ci.fq] = ci
                    for st in child.body:
                        if isinstance(st, ast.Assign) and len(st.targets) == 1 and isinstance(st.targets[0], ast.Name):
                            ci.attrs[st.targets[0].id] = st.value
                    walk(child, q + ".", ci, parent_func)
                else:
                    walk(child, prefix, cls if isinstance(node, ast.ClassDef) else None, parent_func)

        walk(mod.tree, "", None, None)

    def _resolve_class(self, c: ClassInfo) -> None:
        for b in c.node.bases:
            c.base_exprs.append(b)
            r = self.resolve_expr(c.module, b)
            c.bases.append(r if r else "?" + norm(b))
        for kw in c.node.keywords:
            if kw.arg == "metaclass":
                r = self.resolve_expr(c.module, kw.value)
                c.metaclass = r if r else "?" + norm(kw.value)

    # ------------------------------------------------------------------ resolution

    def split(self, name: str) -> Tuple[Optional[Module], List[str]]:
        """Split a dotted name into (longest module prefix, remaining attribute path)."""
        parts = name.split(".")
        for i in range(len(parts), 0, -1):
            m = self.modules.get(".".join(parts[:i]))
            if m is not None:
                return m, parts[i:]
        return None, parts

    def resolve_name(self, mod: Module, name: str, _depth: int = 0) -> Optional[str]:
        """Resolve a module-level name of ``mod`` to a canonical dotted definition site.

        Returns 'pkg.mod.obj' for internal definitions, 'ext.mod.obj' for externals,
        'builtins.x' for builtins, None when unknown."""
        if _depth > 12:
            return None
        bs = mod.bindings.get(name)
        if bs:
            b = bs[-1]
            # An import inside a function does not bind at module level, so `bs` is module level.
            if b.kind == "module":
                return b.target
            if b.kind == "from":
                return self._resolve_from(b.target, b.attr, _depth)
            if b.kind == "def":
                # `@obj.set_callable def obj(...)` rebinds the name to the interpretation object itself
                for d in b.node.decorator_list:
                    if isinstance(d, ast.Attribute) and d.attr == "set_callable":
                        for prev in reversed(bs[:-1]):
                            if prev.kind == "from":
                                return self._resolve_from(prev.target, prev.attr, _depth)
                return f"{mod.name}.{name}"
            return f"{mod.name}.{name}"
        for src in reversed(mod.star_imports):
            sm = self.modules.get(src)
            if sm is None or not self._star_exports(sm, name, _depth + 1):
                continue
            r = self.resolve_name(sm, name, _depth + 1)
            if r is not None:
                return r
        if self._is_op_type_name(mod, name):
            return f"funsor.ops.{name}"
        if hasattr(builtins, name):
            return f"builtins.{name}"
        return None

    def _star_exports(self, mod: Module, name: str, depth: int) -> bool:
        """Would ``from mod import *`` bind ``name``?"""
        if depth > 12:
            return False
        if mod.all_names is not None:
            return name in mod.all_names
        if name.startswith("_"):
            return False
        return self._star_has(mod, name, depth)

    def _star_has(self, mod: Module, name: str, depth: int) -> bool:
        if depth > 12:
            return False
        if name in mod.bindings:
            return True
        return any(self.modules.get(s) is not None and self._star_exports(self.modules[s], name, depth + 1) for s in mod.star_imports)

    def _declared_op_type(self, mod: Module, name: str) -> bool:
        return name.endswith("Op") and any(
            isinstance(st, ast.Expr) and isinstance(st.value, ast.Call) and dotted(st.value.func) and dotted(st.value.func)[-1] == "declare_op_types"
            for st in mod.tree.body
        )

    def _is_op_type_name(self, mod: Module, name: str) -> bool:
        # XxxOp classes are synthesised by Op.make and published by declare_op_types();
        # the catalogue validates that the op exists.
        if not name.endswith("Op"):
            return False
        for src in mod.star_imports:
            sm = self.modules.get(src)
            if sm is not None and (self._declared_op_type(sm, name) or self._is_op_type_name(sm, name)):
                return True
        return False

    def _resolve_from(self, src: str, attr: str, depth: int) -> Optional[str]:
        sub = f"{src}.{attr}" if src else attr
        if sub in self.modules:
            return sub
        sm = self.modules.get(src)
        if sm is None:
            return f"{src}.{attr}" if src else attr  # external
        r = self.resolve_name(sm, attr, depth + 1)
        return r

    def resolve_attr(self, base: str, attr: str) -> Optional[str]:
        """Resolve attribute ``attr`` of the object canonically named ``base``."""
        if base in self.modules:
            sub = f"{base}.{attr}"
            m = self.modules[base]
            if attr in m.bindings or self._star_has(m, attr, 0) or self._is_op_type_name(m, attr):
                return self.resolve_name(m, attr)
            if sub in self.modules:
                return sub
            return None
        m, rest = self.split(base)
        if m is None:
            return f"{base}.{attr}"  # external chain
        return f"{base}.{attr}"

    def resolve_expr(self, mod: Module, expr: ast.AST, local_names=()) -> Optional[str]:
        """Resolve a pure name chain to a canonical dotted name (None if not resolvable)."""
        parts = dotted(expr)
        if not parts or parts[0] in local_names:
            return None
        cur = self.resolve_name(mod, parts[0])
        if cur is None:
            return None
        for a in parts[1:]:
            cur = self.resolve_attr(cur, a)
            if cur is None:
                return None
        return cur

    def lookup(self, name: str):
        """dotted canonical name -> ('func', Func) | ('class', ClassInfo) | ('value', Module, ast) | None"""
        m, rest = self.split(name)
        if m is None or not rest:
            return None
        if len(rest) == 1:
            bs = m.bindings.get(rest[0])
            if not bs:
                return None
            b = bs[-1]
            if b.kind == "def":
                return ("func", self.funcs_by_node[b.node])
            if b.kind == "class":
                ci = self.classes.get(f"{m.name}.{rest[0]}")
                return ("class", ci) if ci else None
            if b.kind == "assign":
                return ("value", m, b.value, b.node)
            return None
        ci = self.classes.get(f"{m.name}.{'.'.join(rest[:-1])}")
        if ci is not None:
            f = self.find_method(ci.fq, rest[-1])
            if f is not None:
                return ("func", f)
        return None

    # ------------------------------------------------------------------ class hierarchy

    def mro(self, cls_fq: str) -> List[str]:
        if cls_fq in self._mro_cache:
            return self._mro_cache[cls_fq]
        seen: List[str] = []

        def dfs(c):
            if c in seen:
                return
            seen.append(c)
            ci = self.classes.get(c)
            if ci:
                for b in ci.bases:
                    dfs(b)

        dfs(cls_fq)
        # approximate linearisation: a base common to several branches goes last
        order: List[str] = []

        def lin(c) -> List[str]:
            ci = self.classes.get(c)
            if not ci or not ci.bases:
                return [c]
            seqs = [lin(b) for b in ci.bases] + [list(ci.bases)]
            res = [c]
            while True:
                seqs = [s for s in seqs if s]
                if not seqs:
                    return res
                for s in seqs:
                    cand = s[0]
                    if not any(cand in t[1:] for t in seqs):
                        break
                else:
                    return res + [x for s in seqs for x in s if x not in res]
                res.append(cand)
                for s in seqs:
                    if s and s[0] == cand:
                        del s[0]

        order = lin(cls_fq)
        self._mro_cache[cls_fq] = order
        return order

    def is_subclass(self, cls_fq: str, base_fq: str) -> bool:
        return base_fq in self.mro(cls_fq)

    def subclasses(self, base_fq: str) -> List[ClassInfo]:
        return [c for c in self.classes.values() if c.fq != base_fq and self.is_subclass(c.fq, base_fq)]

    def find_method(self, cls_fq: str, name: str) -> Optional[Func]:
        for c in self.mro(cls_fq):
            ci = self.classes.get(c)
            if ci and name in ci.methods:
                return ci.methods[name]
        return None

    def find_method_after(self, cls_fq: str, after_fq: str, name: str) -> Optional[Func]:
        """super() lookup: the method ``name`` found in the MRO of cls after ``after_fq``."""
        m = self.mro(cls_fq)
        if after_fq in m:
            m = m[m.index(after_fq) + 1:]
        for c in m:
            ci = self.classes.get(c)
            if ci and name in ci.methods:
                return ci.methods[name]
        return None

    def func_of(self, node: ast.AST) -> Optional[Func]:
        return self.funcs_by_node.get(node)

    def functions_in(self, mod: Module) -> List[Func]:
        return [f for f in self.funcs.values() if f.module is mod]


def _target_names(t: ast.AST) -> List[str]:
    if isinstance(t, ast.Name):
        return [t.id]
    if isinstance(t, (ast.Tuple, ast.List)):
        out = []
        for e in t.elts:
            out += _target_names(e)
        return out
    if isinstance(t, ast.Starred):
        return _target_names(t.value)
    return []


def local_names(func_node: ast.AST) -> set:
    """Names that are local to a function: parameters and assigned names (minus global/nonlocal)."""
    names = set()
    a = func_node.args
    for x in a.posonlyargs + a.args + a.kwonlyargs:
        names.add(x.arg)
    if a.vararg:
        names.add(a.vararg.arg)
    if a.kwarg:
        names.add(a.kwarg.arg)
    declared_global = set()
    body = [func_node.body] if isinstance(func_node, ast.Lambda) else func_node.body

    def walk(n):
        for c in ast.iter_child_nodes(n):
            if isinstance(c, (ast.FunctionDef, ast.AsyncFunctionDef)):
                names.add(c.name)
                continue
            if isinstance(c, ast.ClassDef):
                names.add(c.name)
                continue
            if isinstance(c, ast.Lambda):
                continue
            if isinstance(c, (ast.Global, ast.Nonlocal)):
                declared_global.update(c.names)
            elif isinstance(c, ast.Name) and isinstance(c.ctx, (ast.Store, ast.Del)):
                names.add(c.id)
            elif isinstance(c, (ast.Import, ast.ImportFrom)):
                for al in c.names:
                    names.add((al.asname or al.name).split(".")[0])
            elif isinstance(c, ast.ExceptHandler) and c.name:
                names.add(c.name)
            walk(c)

    for st in body:
        if isinstance(st, ast.AST):
            if isinstance(st, (ast.FunctionDef, ast.AsyncFunctionDef, ast.ClassDef)):
                names.add(st.name)
                continue
            if isinstance(st, (ast.Global, ast.Nonlocal)):
                declared_global.update(st.names)
            if isinstance(st, ast.Name) and isinstance(st.ctx, ast.Store):
                names.add(st.id)
            if isinstance(st, (ast.Import, ast.ImportFrom)):
                for al in st.names:
                    names.add((al.asname or al.name).split(".")[0])
            walk(st)
    return names - declared_global


def scope_locals(prog: Program, mod: Module, node: ast.AST) -> set:
    """Union of local names of all functions enclosing ``node`` (closure scopes)."""
    out = set()
    f = mod.enclosing_function(node)
    while f is not None:
        out |= local_names(f)
        f = mod.enclosing_function(f)
    return out
