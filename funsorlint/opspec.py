"""Op-specialised abstract interpretation.

Given a function and a binding of one of its parameters to a *concrete* op of the catalogue, follow only the
branches that are feasible for that op (conditions `op is X`, `op in (X, Y)`, `op in TABLE`, `isinstance(op, XOp)`
are decided from the catalogue and the tables) and report which compensation is applied to the operand on each
feasible path:  ('comp', ((ABSTRACT_OP, count_is_logged), ...)) | ('raise', text) | ('unknown', why).
"""
from __future__ import annotations

import ast
from typing import Dict, List, Optional, Set, Tuple

from . import axioms
from .catalogue import Catalogue
from .model import Func, Program, norm
from .rules.common import Refs

TABLE_PREFIX = "funsor.ops.op."


class OpSpec:
    def __init__(self, prog: Program, refs: Refs, cat: Catalogue, f: Func, op_bindings: Dict[str, str],
                 operand_names: Set[str], count_texts: Set[str], assume_true: Set[str] = frozenset(), assume_false: Set[str] = frozenset()):
        self.prog, self.refs, self.cat, self.f = prog, refs, cat, f
        self.operand_names = set(operand_names)
        self.count_texts = set(count_texts)
        self.assume_true, self.assume_false = set(assume_true), set(assume_false)
        self.env0 = {k: ("op", v) for k, v in op_bindings.items()}
        for n in operand_names:
            self.env0[n] = ("operand", ())
        self.outcomes: List[tuple] = []
        self.budget = 400

    # ------------------------------------------------------------------ values
    def ev(self, e, env):
        t = norm(e)
        if isinstance(e, ast.Name) and e.id in env:
            return env[e.id]
        if t in self.count_texts:
            return ("count", False)
        if isinstance(e, ast.Attribute) and e.attr in ("size", "num_elements", "dtype") and self._count_like(e, env):
            return ("count", False)
        if isinstance(e, ast.Name):
            r = self.refs.resolve(e)
            if r in self.cat.ops:
                return ("op", r)
            return None
        if isinstance(e, ast.Attribute):
            r = self.refs.resolve(e)
            if r in self.cat.ops:
                return ("op", r)
            if r is not None and r.startswith(TABLE_PREFIX):
                return ("table", r)
            if isinstance(e.value, ast.Name) and (env.get(e.value.id) or (None,))[0] == "operand" and e.attr in ("arg",):
                return env[e.value.id]
            return None
        if isinstance(e, ast.Constant):
            return ("const", e.value)
        if isinstance(e, ast.Subscript):
            base = self.ev(e.value, env)
            if base and base[0] == "table":
                k = self.ev(e.slice, env)
                if k and k[0] == "op":
                    for ent in self.cat.table_entries(base[1]):
                        ko = self.cat.resolve_op(ent.module, ent.key)
                        if ko is not None and ko.fq == k[1] and ent.value is not None:
                            vo = self.cat.resolve_op(ent.module, ent.value)
                            return ("op", vo.fq) if vo is not None else None
                    return ("keyerror", f"{base[1].rsplit('.', 1)[-1]}[{k[1].rsplit('.', 1)[-1]}]")
            return None
        if isinstance(e, ast.Call):
            fn = e.func
            # math.log(n) / ops.log(n)
            r = self.refs.resolve(fn) if isinstance(fn, (ast.Name, ast.Attribute)) else None
            args = [self.ev(a, env) for a in e.args]
            if r in ("math.log", "funsor.ops.builtin.log", "numpy.log") and args and args[0] and args[0][0] == "count":
                return ("count", True)
            # operand.reduce(op, vars): the reduction itself, not a compensation
            if isinstance(fn, ast.Attribute) and fn.attr == "reduce":
                base = self.ev(fn.value, env)
                if base and base[0] == "operand":
                    return base
            if isinstance(fn, ast.Name) and fn.id not in env and r is None:
                return ("keyerror", f"unbound local `{fn.id}`")
            if r in self.cat.term_classes:
                # a term constructor wrapping the operand (Constant(inputs, x), Subs(x, names)) passes it through
                for a in args:
                    if a and a[0] == "operand":
                        return a
                return None
            callee = self.ev(fn, env) if not (r and r not in self.cat.ops) else None
            if callee and callee[0] == "keyerror":
                return callee
            if callee and callee[0] == "op" and len(args) == 2:
                ab = axioms.identify(self.cat, self.cat.ops[callee[1]])
                a, b = args
                if a and a[0] == "operand" and b and b[0] == "count":
                    return ("operand", a[1] + ((ab, b[1]),))
                if b and b[0] == "operand" and a and a[0] == "count" and ab in axioms.COMMUTATIVE:
                    return ("operand", b[1] + ((ab, a[1]),))
                if a and a[0] == "operand":
                    return ("operand", a[1] + ((ab, "?"),))
            return None
        if isinstance(e, ast.BinOp):
            a, b = self.ev(e.left, env), self.ev(e.right, env)
            ab = axioms.AST_BINOP.get(type(e.op).__name__)
            if a and a[0] == "operand" and b and b[0] == "count":
                return ("operand", a[1] + ((ab, b[1]),))
            if b and b[0] == "operand" and a and a[0] == "count" and ab in axioms.COMMUTATIVE:
                return ("operand", b[1] + ((ab, a[1]),))
            if a and a[0] == "operand" and b is not None and b[0] == "const":
                return ("operand", a[1] + ((ab, "const"),))
            return None
        if isinstance(e, ast.Tuple):
            return ("tuple", tuple(self.ev(x, env) for x in e.elts))
        return None

    # ------------------------------------------------------------------ conditions
    def _assumed(self, t, which) -> bool:
        for a in which:
            if callable(a):
                if a(t):
                    return True
            elif norm(t) == a:
                return True
        return False

    def _count_like(self, e, env) -> bool:
        """A number of points by role: mentions a `.size` / `.num_elements` / `.dtype` attribute and none of the operands."""
        has = False
        for x in ast.walk(e):
            if isinstance(x, ast.Attribute) and x.attr in ("size", "num_elements", "dtype"):
                has = True
            if isinstance(x, ast.Name) and x.id in self.operand_names:
                return False
            if isinstance(x, ast.Name) and (env.get(x.id) or (None,))[0] == "operand":
                return False
        return has

    def cond(self, t, env) -> Optional[bool]:
        if self._assumed(t, self.assume_true):
            return True
        if self._assumed(t, self.assume_false):
            return False
        if isinstance(t, ast.UnaryOp) and isinstance(t.op, ast.Not):
            c = self.cond(t.operand, env)
            return None if c is None else not c
        if isinstance(t, ast.BoolOp):
            vals = [self.cond(v, env) for v in t.values]
            if isinstance(t.op, ast.And):
                if any(v is False for v in vals):
                    return False
                return True if all(v is True for v in vals) else None
            if any(v is True for v in vals):
                return True
            return False if all(v is False for v in vals) else None
        if isinstance(t, ast.Compare) and len(t.ops) == 1:
            a, b = self.ev(t.left, env), self.ev(t.comparators[0], env)
            op = t.ops[0]
            if isinstance(op, (ast.Is, ast.IsNot, ast.Eq, ast.NotEq)):
                if a and b and a[0] == "op" and b[0] == "op":
                    same = a[1] == b[1]
                    return same if isinstance(op, (ast.Is, ast.Eq)) else not same
                return None
            if isinstance(op, (ast.In, ast.NotIn)):
                res = None
                if a and a[0] == "op":
                    if b and b[0] == "tuple" and all(x and x[0] == "op" for x in b[1]):
                        res = a[1] in [x[1] for x in b[1]]
                    elif b and b[0] == "table":
                        keys = []
                        for ent in self.cat.table_entries(b[1]):
                            ko = self.cat.resolve_op(ent.module, ent.key)
                            if ko is not None:
                                keys.append(ko.fq)
                        res = a[1] in keys
                if res is None:
                    return None
                return res if isinstance(op, ast.In) else not res
        if isinstance(t, ast.Call) and isinstance(t.func, ast.Name) and t.func.id == "isinstance" and len(t.args) == 2:
            a = self.ev(t.args[0], env)
            if a and a[0] == "op":
                elts = t.args[1].elts if isinstance(t.args[1], ast.Tuple) else [t.args[1]]
                res = False
                for e in elts:
                    ref = self.cat.op_class_ref(self.refs.resolve(e) if isinstance(e, (ast.Name, ast.Attribute)) else None)
                    if ref is None:
                        return None
                    if any(o.fq == a[1] for o in self.cat.ops_under(ref)):
                        res = True
                return res
        return None

    # ------------------------------------------------------------------ statements
    def run(self) -> List[tuple]:
        self.block(list(self.f.body), dict(self.env0))
        return self.outcomes

    def finish(self, out):
        if out not in self.outcomes:
            self.outcomes.append(out)

    def block(self, stmts, env) -> bool:
        """returns True when the block always terminates (return/raise)"""
        self.budget -= 1
        if self.budget < 0:
            self.finish(("unknown", "path budget exhausted"))
            return True
        for i, st in enumerate(stmts):
            rest = stmts[i + 1:]
            if isinstance(st, ast.Return):
                v = self.ev(st.value, env) if st.value is not None else None
                if v and v[0] == "tuple" and v[1] and v[1][0] and v[1][0][0] == "operand":
                    v = v[1][0]
                if v and v[0] == "operand":
                    self.finish(("comp", v[1]))
                elif v and v[0] == "keyerror":
                    self.finish(("raise", "KeyError " + v[1]))
                else:
                    self.finish(("unknown", f"returns {norm(st.value) if st.value else None}"))
                return True
            if isinstance(st, ast.Raise):
                self.finish(("raise", norm(st)))
                return True
            if isinstance(st, ast.Assign) and len(st.targets) == 1:
                v = self.ev(st.value, env)
                if v and v[0] == "keyerror":
                    self.finish(("raise", "KeyError " + v[1]))
                    return True
                tg = st.targets[0]
                if isinstance(tg, ast.Name):
                    if v is None and (tg.id in self.count_texts or self._count_like(st.value, env)):
                        v = ("count", False)  # the definition of the count itself
                    env = dict(env)
                    env[tg.id] = v
                elif isinstance(tg, ast.Tuple) and v and v[0] == "tuple" and len(v[1]) == len(tg.elts):
                    env = dict(env)
                    for te, ve in zip(tg.elts, v[1]):
                        if isinstance(te, ast.Name):
                            env[te.id] = ve
                elif isinstance(tg, ast.Tuple):
                    env = dict(env)
                    for te in tg.elts:
                        if isinstance(te, ast.Name):
                            env[te.id] = None
                continue
            if isinstance(st, ast.If):
                c = self.cond(st.test, env)
                if c is True:
                    if self.block(list(st.body) + rest, env):
                        return True
                    return True
                if c is False:
                    return self.block(list(st.orelse) + rest, env)
                a = self.block(list(st.body) + rest, dict(env))
                b = self.block(list(st.orelse) + rest, dict(env))
                return True
            if isinstance(st, ast.For):
                it = self.ev(st.iter, env)
                if it and it[0] == "table" and isinstance(st.target, ast.Tuple):
                    # iterate the concrete entries of a pair table (order unspecified: a set) - every order must give one answer,
                    # so each entry is tried as the first match
                    any_terminated = False
                    for ent in self.cat.table_entries(it[1]):
                        if not (isinstance(ent.key, ast.Tuple) and len(ent.key.elts) == len(st.target.elts)):
                            continue
                        e2 = dict(env)
                        for te, ke in zip(st.target.elts, ent.key.elts):
                            ko = self.cat.resolve_op(ent.module, ke)
                            if isinstance(te, ast.Name):
                                e2[te.id] = ("op", ko.fq) if ko is not None else None
                        before = len(self.outcomes)
                        sub = OpSpec(self.prog, self.refs, self.cat, self.f, {}, self.operand_names, self.count_texts, self.assume_true, self.assume_false)
                        sub.env0 = e2
                        sub.outcomes = []
                        terminated = sub.block(list(st.body), e2)
                        for o in sub.outcomes:
                            self.finish(o)
                    # falling out of the loop
                    return self.block(list(st.orelse) + rest, env)
                # other loops: unknown effect on the operand only if it is assigned inside
                assigned = {n.id for n in ast.walk(st) if isinstance(n, ast.Name) and isinstance(n.ctx, ast.Store)}
                env = dict(env)
                for a in assigned:
                    if a in env:
                        env[a] = None if env[a] is None or env[a][0] != "op" else env[a]
                continue
            if isinstance(st, (ast.Assert, ast.Expr, ast.Pass, ast.AugAssign, ast.Import, ast.ImportFrom)):
                if isinstance(st, ast.AugAssign) and isinstance(st.target, ast.Name) and st.target.id in env:
                    env = dict(env)
                    env[st.target.id] = None
                continue
            if isinstance(st, (ast.With,)):
                return self.block(list(st.body) + rest, env)
            # unknown statement kinds: be conservative
            continue
        return False
