"""Ownership / effect analysis (C20).

For every function of the package a flow-sensitive forward walk computes, for each local name,
the set of *origins* its value may have:

  ("fresh", kind)        allocated in this function and not yet escaped  (kind: 'array' | 'container' | 'object')
  ("frozen", kind)       was fresh, then handed to a term (Funsor.__init__ / self.<field> in a term __init__ / term constructor)
  ("param", i, name)     the i-th parameter object itself
  ("field", o, attr)     attribute ``attr`` loaded from a value of origin o
  ("view", o)            a view / alias into o (slice, reshape, transpose, ...)
  ("elem", o)            an element obtained from container o (iteration, indexing, .get, .values() ...)
  ("global", name)       a module-level object
  ("term",)              a funsor term obtained from a constructor / op call (interned, shared)
  ("imm",)               immutable value (number, string, tuple, frozenset, function, class, None)
  ("unknown", why)       unresolved

Mutation sites are collected with the origin set of their receiver.  The judgement (which
origins are violations) lives in rules/c20.py.
"""
from __future__ import annotations

import ast
from dataclasses import dataclass, field
from typing import Dict, FrozenSet, List, Optional, Set, Tuple

from .dataflow import Walker
from .model import Func, Module, Program, dotted, norm
from .rules.common import Refs, walk_no_nested

FRESH_CONTAINER_CTORS = {
    "builtins.dict", "builtins.list", "builtins.set", "builtins.bytearray", "builtins.sorted",
    "collections.OrderedDict", "collections.defaultdict", "collections.Counter", "collections.deque",
    "copy.copy", "copy.deepcopy",
}
IMM_CTORS = {"builtins.tuple", "builtins.frozenset", "builtins.str", "builtins.int", "builtins.float", "builtins.bool", "builtins.len",
             "builtins.isinstance", "builtins.issubclass", "builtins.repr", "builtins.id", "builtins.hash", "builtins.type",
             "builtins.range", "builtins.zip", "builtins.enumerate", "builtins.map", "builtins.filter", "builtins.reversed",
             "builtins.sum", "builtins.min", "builtins.max", "builtins.any", "builtins.all", "builtins.abs", "builtins.round",
             "builtins.getattr", "builtins.hasattr", "builtins.callable", "builtins.slice", "builtins.iter", "builtins.next",
             "builtins.divmod", "builtins.pow", "builtins.format", "builtins.chr", "builtins.ord", "builtins.print",
             "itertools.product", "itertools.chain", "itertools.count", "functools.partial", "functools.reduce",
             "math.log", "math.exp", "math.sqrt", "math.isinf", "math.isnan", "math.ceil", "math.floor"}
ITER_PASSTHROUGH = {"builtins.zip", "builtins.enumerate", "builtins.reversed", "builtins.iter", "builtins.map", "builtins.filter",
                    "itertools.chain", "builtins.next"}

# library functions that return a view of (or the very) first argument
VIEW_FUNCS = {"reshape", "transpose", "swapaxes", "squeeze", "expand_dims", "broadcast_to", "asarray", "asanyarray", "ravel",
              "diagonal", "atleast_1d", "atleast_2d", "moveaxis", "rollaxis", "view", "permute", "unsqueeze", "expand",
              "expand_as", "narrow", "select", "detach", "flip", "flatten", "contiguous", "as_strided", "real", "imag",
              "movedim", "unbind", "split", "chunk", "hsplit", "vsplit", "array_split", "T", "mT", "data", "view_as",
              "reshape_as", "unfold", "tril_", "__array__", "numpy", "from_numpy", "as_tensor", "ascontiguousarray",
              "broadcast_arrays", "broadcast_tensors", "t", "adjoint", "tril", "triu"}
VIEW_FUNCS -= {"tril", "triu", "tril_"}  # these allocate
VIEW_OPS = {"reshape", "permute", "transpose", "expand", "unsqueeze", "diagonal", "detach", "getitem", "getslice", "flip", "new_eye"}

CONTAINER_MUTATORS = {"append", "extend", "insert", "pop", "popitem", "remove", "clear", "update", "setdefault", "sort", "reverse",
                      "add", "discard", "move_to_end", "subtract", "appendleft", "popleft", "extendleft", "rotate",
                      "intersection_update", "difference_update", "symmetric_difference_update", "__setitem__", "__delitem__",
                      "__iadd__", "__ior__", "__iand__"}
ARRAY_MUTATORS = {"fill", "resize", "itemset", "setflags", "partition", "put", "byteswap", "setfield", "copy_", "index_put_",
                  "scatter_", "scatter_add_", "index_add_", "index_copy_", "index_fill_", "masked_fill_", "masked_scatter_",
                  "requires_grad_", "set_", "share_memory_"}
ELEMENT_GETTERS = {"get", "items", "values", "keys", "pop", "popitem", "setdefault", "popleft", "__getitem__", "most_common", "elements"}
LIB_INPLACE_FUNCS = {"put", "place", "putmask", "copyto", "fill_diagonal", "put_along_axis", "shuffle"}


@dataclass
class Site:
    func: Func
    node: ast.AST  # the mutating construct (call / target / statement)
    stmt: ast.AST
    kind: str  # 'subscript-store' | 'attr-store' | 'method' | 'lib-inplace' | 'augassign-name' | 'out=' | 'call-mutates-param'
    receiver: Optional[ast.AST]
    origins: FrozenSet
    detail: str = ""
    callee: Optional[str] = None
    callee_param: Optional[int] = None

    @property
    def loc(self):
        return self.func.loc(self.node)

    @property
    def construct(self):
        return f"{self.func.fq}::{norm(self.stmt) if not isinstance(self.stmt, (ast.For, ast.While, ast.If, ast.With, ast.Try)) else norm(self.node)}"


def root_kinds(origin) -> Set[str]:
    """Flatten an origin to its root kind: fresh/frozen/param/global/term/imm/unknown (fields, views, elems keep the root)."""
    k = origin[0]
    if k in ("field", "view", "elem", "ctx"):
        return root_kinds(origin[1])
    return {k}


def chain(origin) -> List[tuple]:
    out = [origin]
    while origin[0] in ("field", "view", "elem", "ctx"):
        origin = origin[1]
        out.append(origin)
    return out


def fields_in(origin) -> List[str]:
    return [o[2] for o in chain(origin) if o[0] == "field"]


class FunctionAnalysis:
    def __init__(self, own: "Ownership", f: Func):
        self.own = own
        self.f = f
        self.mod = f.module
        self.sites: List[Site] = []
        self.returns: Set[tuple] = set()
        self.calls: List[Tuple[ast.Call, Optional[str], List[FrozenSet], Dict[str, FrozenSet]]] = []
        self._seen_sites = set()
        self.param_index = {}
        params = f.positional
        a = f.node.args
        for i, p in enumerate(params):
            self.param_index[p] = i
        self.kwonly = [x.arg for x in a.kwonlyargs]
        self.vararg = a.vararg.arg if a.vararg else None
        self.kwarg = a.kwarg.arg if a.kwarg else None

    # ------------------------------------------------------------------ run
    def run(self):
        env = {}
        for p, i in self.param_index.items():
            env[p] = frozenset({("param", i, p)})
        for j, p in enumerate(self.kwonly):
            env[p] = frozenset({("param", len(self.param_index) + j, p)})
        if self.vararg:
            env[self.vararg] = frozenset({("param", -1, self.vararg)})  # a tuple; its elements are the caller's
        if self.kwarg:
            env[self.kwarg] = frozenset({("fresh", "container")})
        self._prescan_contents()
        w = Walker(self.f.node, self.eval, self.on_stmt, bind=self.bind, init_env=env)
        w.unpack = self.unpack
        w.elem_of = self.elem_of
        self.walker = w
        w.run()
        for st, vals, _ in w.returns:
            self.returns |= set(vals)
        return self

    # ------------------------------------------------------------------ contents of locally built containers
    def _prescan_contents(self):
        """Flow-insensitive summary, per local name, of the expressions ever stored *directly* into the container it names
        (`N[k] = v`, `N.append(v)`, `N.setdefault(k, v)`, displays, copy constructors ...).  An element read from a fresh
        container bound to N then has the origins of those expressions (plus a fresh object for a defaultdict factory)
        instead of 'unknown'."""
        self.stores: Dict[str, List[tuple]] = {}
        self.bindings_of: Dict[str, int] = {}
        for n in walk_no_nested(self.f.node):
            if isinstance(n, ast.Assign) and len(n.targets) == 1:
                t, v = n.targets[0], n.value
                if isinstance(t, ast.Name):
                    self.bindings_of[t.id] = self.bindings_of.get(t.id, 0) + 1
                    self._init_contents(t.id, v)
                elif isinstance(t, ast.Subscript) and isinstance(t.value, ast.Name):
                    self.stores.setdefault(t.value.id, []).append(("val", v))
            elif isinstance(n, ast.AugAssign) and isinstance(n.target, ast.Name):
                self.stores.setdefault(n.target.id, []).append(("elems", n.value))
            elif isinstance(n, (ast.For, ast.With, ast.NamedExpr)):
                for x in ast.walk(n.target if isinstance(n, (ast.For, ast.NamedExpr)) else ast.Tuple(elts=[i.optional_vars for i in n.items if i.optional_vars is not None], ctx=ast.Store())):
                    if isinstance(x, ast.Name):
                        self.bindings_of[x.id] = self.bindings_of.get(x.id, 0) + 2  # not a simple single binding
            elif isinstance(n, ast.Call) and isinstance(n.func, ast.Attribute) and isinstance(n.func.value, ast.Name):
                name, m = n.func.value.id, n.func.attr
                if m in ("append", "add", "appendleft", "push") and n.args:
                    self.stores.setdefault(name, []).append(("val", n.args[0]))
                elif m == "insert" and len(n.args) == 2:
                    self.stores.setdefault(name, []).append(("val", n.args[1]))
                elif m == "setdefault" and len(n.args) == 2:
                    self.stores.setdefault(name, []).append(("val", n.args[1]))
                elif m in ("update", "extend") and n.args:
                    self.stores.setdefault(name, []).append(("elems", n.args[0]))
                    for k in n.keywords:
                        self.stores[name].append(("val", k.value))
                elif m in ("update",) and n.keywords:
                    for k in n.keywords:
                        self.stores.setdefault(name, []).append(("val", k.value))

    def _init_contents(self, name: str, v: ast.AST):
        st = self.stores.setdefault(name, [])
        if isinstance(v, (ast.List, ast.Set, ast.Tuple)):
            st += [("val", e) for e in v.elts]
        elif isinstance(v, ast.Dict):
            st += [("val", e) for e in v.values]
        elif isinstance(v, (ast.ListComp, ast.SetComp)):
            st.append(("comp", v, v.elt))
        elif isinstance(v, ast.DictComp):
            st.append(("comp", v, v.value))
        elif isinstance(v, ast.Call):
            callee = self.resolve(v.func)
            if callee in ("collections.defaultdict",):
                if v.args:
                    st.append(("factory", v.args[0]))
                for a in v.args[1:]:
                    st.append(("elems", a))
            elif callee in FRESH_CONTAINER_CTORS:
                for a in v.args:
                    st.append(("elems", a))
                for k in v.keywords:
                    st.append(("val", k.value))
            else:
                st.append(("opaque", v))
        else:
            st.append(("opaque", v))

    def contents_of(self, name: str, env, depth=0) -> Optional[FrozenSet]:
        """origins of the elements of the fresh container bound to local `name`, or None when not summarised"""
        if depth > 2 or self.bindings_of.get(name, 0) != 1 or name not in self.stores:
            return None
        busy = self.__dict__.setdefault("_contents_busy", set())
        if name in busy or len(busy) > 3:
            return None
        busy.add(name)
        try:
            return self._contents_of(name, env)
        finally:
            busy.discard(name)

    def _contents_of(self, name: str, env) -> Optional[FrozenSet]:
        out = set()
        for item in self.stores[name]:
            kind = item[0]
            if kind == "val":
                out |= set(self.eval(item[1], env))
            elif kind == "elems":
                out |= set(self.elem_of(self.eval(item[1], env)))
            elif kind == "factory":
                f = item[1]
                if isinstance(f, ast.Name) and f.id in ("list", "set", "dict", "OrderedDict", "Counter", "deque", "defaultdict"):
                    out.add(("fresh", "container"))
                elif isinstance(f, ast.Lambda) and isinstance(f.body, (ast.List, ast.Dict, ast.Set, ast.ListComp, ast.Call)):
                    out |= set(self.eval(f.body, env))
                elif isinstance(f, ast.Name) and f.id in ("int", "float", "str", "bool", "tuple", "frozenset"):
                    out.add(("imm",))
                else:
                    return None
            elif kind == "comp":
                comp, elt = item[1], item[2]
                env2 = dict(env)
                for g in comp.generators:
                    vals = self.elem_of(self.eval(g.iter, env2))
                    for x in ast.walk(g.target):
                        if isinstance(x, ast.Name):
                            env2[x.id] = vals if isinstance(g.target, ast.Name) else frozenset({("unknown", "comprehension target")})
                out |= set(self.eval(elt, env2))
            else:
                return None
        return frozenset(out) if out else frozenset({("imm",)})

    # ------------------------------------------------------------------ light typing
    def classes_of(self, expr) -> tuple:
        """Term classes a Name is known to be an instance of at this point: `self` of a term class, the pattern of the
        registration that installs this function, `assert isinstance(x, C)`, and enclosing `if isinstance(x, C)` branches."""
        if not isinstance(expr, ast.Name):
            return ()
        name = expr.id
        own = self.own
        out = set()
        tc = own.cat.term_classes
        if self.f.cls is not None and self.f.positional and name == self.f.positional[0] and self.f.cls.fq in tc:
            out.add(self.f.cls.fq)
        for cls in own.param_types.get(self.f.fq, {}).get(name, ()):
            out.add(cls)
        # lexical narrowing
        node = expr
        mod = self.mod
        for anc in mod.ancestors(expr):
            if anc is self.f.node:
                break
            if isinstance(anc, ast.If):
                in_body = any(_contains(b, node) for b in anc.body)
                if in_body:
                    out |= set(self._isinstance_classes(anc.test, name))
            if isinstance(anc, ast.IfExp) and _contains(anc.body, node):
                out |= set(self._isinstance_classes(anc.test, name))
        for st in self.f.body:
            if isinstance(st, ast.Assert):
                out |= set(self._isinstance_classes(st.test, name))
        return tuple(sorted(out))

    def _isinstance_classes(self, test, name):
        res = []
        tests = test.values if isinstance(test, ast.BoolOp) and isinstance(test.op, ast.And) else [test]
        for t in tests:
            if isinstance(t, ast.Call) and isinstance(t.func, ast.Name) and t.func.id == "isinstance" and len(t.args) == 2 \
                    and isinstance(t.args[0], ast.Name) and t.args[0].id == name:
                elts = t.args[1].elts if isinstance(t.args[1], ast.Tuple) else [t.args[1]]
                cls = [self.resolve(x) for x in elts]
                if cls and all(c in self.own.cat.term_classes for c in cls):
                    res += cls
            # `type(x).__name__ == "Tensor"` (used where importing the class would be circular)
            if isinstance(t, ast.Compare) and len(t.ops) == 1 and isinstance(t.ops[0], ast.Eq) and isinstance(t.comparators[0], ast.Constant) \
                    and isinstance(t.comparators[0].value, str) and isinstance(t.left, ast.Attribute) and t.left.attr == "__name__" \
                    and isinstance(t.left.value, ast.Call) and isinstance(t.left.value.func, ast.Name) and t.left.value.func.id == "type" \
                    and len(t.left.value.args) == 1 and isinstance(t.left.value.args[0], ast.Name) and t.left.value.args[0].id == name:
                cands = [fq for fq, tc_ in self.own.cat.term_classes.items() if tc_.name == t.comparators[0].value]
                if len(cands) == 1:
                    res += cands
        return res

    # ------------------------------------------------------------------ helpers
    def resolve(self, expr) -> Optional[str]:
        return self.own.refs.resolve(expr) if isinstance(expr, (ast.Name, ast.Attribute)) else None

    def unpack(self, values, index, elt, env, stmt):
        out = set()
        for v in values:
            if v[0] == "imm":
                out.add(("unknown", "element of an immutable sequence"))
            elif v[0] == "fresh":
                out.add(("unknown", "element of a fresh container"))
            elif v[0] == "tuple":
                # ("tuple", (set0, set1, ...)) produced by tuple displays
                if index < len(v[1]) and not isinstance(elt, ast.Starred):
                    out |= set(v[1][index])
                else:
                    out.add(("unknown", "starred unpack"))
            else:
                out.add(("elem", v))
        return frozenset(out)

    def elem_of(self, values):
        out = set()
        for v in values:
            if v[0] == "zipped":
                out.add(("tuple", tuple(self.elem_of(a) for a in v[1])))
            elif v[0] == "immseq":
                out.add(("imm",))
            elif v[0] in ("imm", "tuple"):
                out.add(("unknown", "element of an immutable sequence"))
            elif v[0] == "fresh":
                out.add(("unknown", "element of a fresh container"))
            else:
                out.add(("elem", v))
        return frozenset(out)

    def eval(self, e: ast.AST, env) -> FrozenSet:
        r = self._eval(e, env)
        return r if isinstance(r, frozenset) else frozenset(r)

    def _eval(self, e, env):
        own = self.own
        if isinstance(e, ast.Constant):
            return {("imm",)}
        if isinstance(e, ast.Name):
            if e.id in env:
                return env[e.id]
            r = self.resolve(e)
            if r is None:
                # a closure variable of an enclosing function, or unbound on this path
                return {("unknown", f"free name {e.id}")}
            return self._global_value(r)
        if isinstance(e, ast.Attribute):
            r = self.resolve(e)
            if r is not None:
                return self._global_value(r)
            base = self.eval(e.value, env)
            if e.attr in ("T", "mT", "real", "imag", "H"):
                return {("view", b) for b in base}
            if e.attr in ("shape", "dtype", "ndim", "size", "name", "__name__", "__class__", "device"):
                return {("imm",)}
            classes = self.classes_of(e.value)
            return {("field", b, e.attr, classes) for b in base}
        if isinstance(e, ast.Subscript):
            base = self.eval(e.value, env)
            out = set()
            for b in base:
                if b[0] == "fresh" and b[1] == "array":
                    out.add(("view", b))
                elif b[0] == "fresh":
                    known = self.contents_of(e.value.id, env) if isinstance(e.value, ast.Name) and not getattr(self, "_in_contents", False) else None
                    if known is not None and not any(k[0] == "unknown" for k in known):
                        out |= set(known)
                    else:
                        out.add(("unknown", "element of a fresh container"))
                elif b[0] == "imm":
                    out.add(("unknown", "element of an immutable sequence"))
                elif b[0] == "tuple":
                    idx = e.slice.value if isinstance(e.slice, ast.Constant) and isinstance(e.slice.value, int) else None
                    if idx is not None and -len(b[1]) <= idx < len(b[1]):
                        out |= set(b[1][idx])
                    else:
                        out.add(("unknown", "tuple element"))
                else:
                    out.add(("view", b))
            return out
        if isinstance(e, (ast.List, ast.Dict, ast.Set, ast.ListComp, ast.DictComp, ast.SetComp)):
            return {("fresh", "container")}
        if isinstance(e, ast.Tuple):
            if any(isinstance(x, ast.Starred) for x in e.elts) or len(e.elts) > 8:
                return {("imm",)}
            return {("tuple", tuple(self.eval(x, env) for x in e.elts))}
        if isinstance(e, (ast.GeneratorExp, ast.Lambda, ast.JoinedStr, ast.FormattedValue, ast.Compare)):
            return {("imm",)}
        if isinstance(e, ast.BinOp):
            aug = getattr(e, "_augassign", None)
            if aug is not None:
                # `x op= e`: in-place for arrays/lists/sets/dicts, rebinding for immutables
                left = self.eval(e.left, env)
                self._augassign_name(aug, left, env)
                return self._aug_result(left)
            return {("fresh", "array")}
        if isinstance(e, ast.UnaryOp):
            return {("imm",)} if isinstance(e.op, ast.Not) else {("fresh", "array")}
        if isinstance(e, ast.BoolOp):
            out = set()
            for v in e.values:
                out |= self.eval(v, env)
            return out
        if isinstance(e, ast.IfExp):
            return set(self.eval(e.body, env)) | set(self.eval(e.orelse, env))
        if isinstance(e, ast.NamedExpr):
            return self.eval(e.value, env)
        if isinstance(e, ast.Starred):
            return self.eval(e.value, env)
        if isinstance(e, ast.Await):
            return {("unknown", "await")}
        if isinstance(e, (ast.Yield, ast.YieldFrom)):
            return {("unknown", "yield")}
        if isinstance(e, ast.Call):
            return self._eval_call(e, env)
        if isinstance(e, ast.Slice):
            return {("imm",)}
        return {("unknown", type(e).__name__)}

    def _aug_result(self, left):
        out = set()
        for v in left:
            if v[0] in ("imm", "tuple", "term"):
                out.add(("imm",) if v[0] != "term" else ("term",))
            else:
                out.add(v)
        return frozenset(out)

    def _global_value(self, r: str):
        own = self.own
        if r in own.cat.term_classes or r in own.prog.classes:
            return {("imm",)}
        if r in own.cat.ops:
            return {("imm",)}
        lk = own.prog.lookup(r)
        if lk is not None:
            if lk[0] in ("func", "class"):
                return {("imm",)}
            if lk[0] == "value":
                v = lk[2]
                if isinstance(v, (ast.Tuple, ast.Lambda)) or (isinstance(v, ast.Constant) and v.value is not None):
                    return {("imm",)}
                return {("global", r)}
        if r in own.prog.modules:
            return {("imm",)}
        head = r.split(".")[0]
        if head in ("builtins",):
            return {("imm",)}
        if not r.startswith(own.prog.package + "."):
            return {("imm",)}  # external module attribute (function, class, constant)
        return {("global", r)}

    # ------------------------------------------------------------------ calls
    def _eval_call(self, c: ast.Call, env):
        own = self.own
        callee = self.resolve(c.func)
        argvals = [self.eval(a, env) for a in c.args]
        kwvals = {k.arg: self.eval(k.value, env) for k in c.keywords if k.arg}
        self.calls.append((c, callee, argvals, kwvals))
        if callee is not None:
            if callee in FRESH_CONTAINER_CTORS:
                return {("fresh", "container")}
            if callee == "builtins.zip" and argvals:
                return {("zipped", tuple(argvals))}
            if callee == "builtins.enumerate" and argvals:
                return {("zipped", (frozenset({("immseq",)}), argvals[0]))}
            if callee in ITER_PASSTHROUGH:
                out = set()
                for av in argvals:
                    for v in av:
                        out.add(v if v[0] in ("imm", "fresh", "tuple") else v)
                return out or {("imm",)}
            if callee in IMM_CTORS:
                return {("imm",)}
            head = callee.split(".")[0]
            last = callee.rsplit(".", 1)[-1]
            if head in ("numpy", "torch", "jax", "scipy", "opt_einsum"):
                if last in VIEW_FUNCS and argvals:
                    return {("view", v) for v in argvals[0]} | ({("fresh", "array")} if last in ("asarray", "ascontiguousarray", "as_tensor") else set())
                if last in ("where", "clip", "clamp") and False:
                    pass
                return {("fresh", "array")}
            if callee in own.cat.ops:
                op = own.cat.ops[callee]
                if op.var in VIEW_OPS and argvals:
                    return {("view", v) for v in argvals[0]}
                return {("fresh", "array")}
            if callee in own.cat.term_classes:
                return {("term",)}
            if callee.startswith("funsor.ops.") and callee.endswith("Op"):
                return {("imm",)}  # an op instance
            lk = own.prog.lookup(callee)
            if lk and lk[0] == "class":
                return {("fresh", "object")}
            if lk and lk[0] == "func":
                return self._summary_result(lk[1], argvals, kwvals, c)
            if head in ("builtins", "math", "operator", "itertools", "functools", "re", "warnings", "numbers"):
                return {("imm",)}
            if not callee.startswith(own.prog.package + "."):
                return {("unknown", f"external call {callee}")}
        # method call on a local object
        if isinstance(c.func, ast.Attribute):
            m = c.func.attr
            recv = self.eval(c.func.value, env)
            if m in ("copy", "clone", "tolist", "astype", "to", "type", "double", "float", "long", "int", "bool", "cpu", "cuda", "item"):
                if m in ("to", "type", "double", "float", "long", "int", "bool", "cpu", "cuda"):
                    # torch conversions may return self when no conversion is needed
                    return {("view", v) for v in recv} | {("fresh", "array")}
                return {("fresh", "array" if m not in ("copy", "tolist") else _copy_kind(recv))}
            if m in VIEW_FUNCS:
                return {("view", v) for v in recv}
            if m in ELEMENT_GETTERS:
                out = set()
                for v in recv:
                    if v[0] == "fresh":
                        recv_e = c.func.value
                        known = self.contents_of(recv_e.id, env) if isinstance(recv_e, ast.Name) else None
                        if known is not None and not any(k[0] == "unknown" for k in known):
                            out |= set(known)
                            if m == "setdefault" and len(argvals) == 2:
                                out |= set(argvals[1])
                        else:
                            out.add(("unknown", "element of a fresh container"))
                    elif v[0] in ("imm", "tuple"):
                        out.add(("unknown", "element"))
                    else:
                        out.add(("elem", v))
                return out
            if m in ("sum", "prod", "mean", "max", "min", "exp", "log", "abs", "sqrt", "all", "any", "logsumexp", "matmul", "dot",
                     "cumsum", "argmax", "argmin", "nonzero", "new_zeros", "new_ones", "new_full", "new_empty", "new_tensor",
                     "repeat", "tile", "round", "floor", "ceil", "neg", "reciprocal", "pow", "mul", "add", "sub", "div", "cholesky",
                     "inverse", "triu", "tril", "masked_fill", "index_select", "gather", "scatter", "scatter_add", "index_put",
                     "logical_not", "logical_and", "logical_or", "eq", "ne", "lt", "le", "gt", "ge", "where", "clamp", "clip",
                     "sort", "argsort", "unique", "float", "sigmoid", "tanh", "softmax", "log_softmax", "lgamma", "digamma",
                     "log1p", "expm1", "union", "intersection", "difference", "symmetric_difference", "split", "join", "format",
                     "strip", "replace", "startswith", "endswith", "issubset", "issuperset", "isdisjoint", "index", "count",
                     "__len__", "dim", "numel", "element_size", "is_floating_point", "size"):
                if m in ("union", "intersection", "difference", "symmetric_difference"):
                    return {("fresh", "container")}
                if m == "sort":
                    return {("imm",)}
                return {("fresh", "array")}
            # a method of a package class?
            target = self._resolve_method(c.func, recv)
            if target is not None:
                return self._summary_result(target, [recv] + argvals, kwvals, c, method=True)
            return {("unknown", f"method .{m}()")}
        return {("unknown", f"call {norm(c.func)}")}

    def _resolve_method(self, func: ast.Attribute, recv) -> Optional[Func]:
        """self.m(...) inside a class -> the class's method (own or inherited)."""
        if isinstance(func.value, ast.Name) and self.f.cls is not None and self.f.positional and func.value.id == self.f.positional[0]:
            return self.own.prog.find_method(self.f.cls.fq, func.attr)
        if isinstance(func.value, ast.Call) and isinstance(func.value.func, ast.Name) and func.value.func.id == "super" and self.f.cls is not None:
            return self.own.prog.find_method_after(self.f.cls.fq, self.f.cls.fq, func.attr)
        return None

    def _summary_result(self, target: Func, argvals, kwvals, call, method=False):
        s = self.own.summaries.get(target.fq)
        if s is None:
            return {("unknown", f"call {target.fq}")}
        out = set()
        for r in s.returns:
            if r[0] == "param":
                i = r[1]
                if i < len(argvals):
                    out |= set(argvals[i])
                else:
                    out.add(("unknown", "returned parameter not passed positionally"))
            elif r[0] == "viewparam":
                i = r[1]
                if i < len(argvals):
                    out |= {("view", v) for v in argvals[i]}
                else:
                    out.add(("unknown", "view of keyword parameter"))
            elif r[0] == "substparam":
                i = r[1]
                if i < len(argvals):
                    # what the call site knows about the class of the actual argument refines the callee's own narrowing
                    ai = i - (1 if method else 0)
                    argexpr = call.func.value if (method and i == 0 and isinstance(call.func, ast.Attribute)) else \
                        (call.args[ai] if 0 <= ai < len(call.args) and not any(isinstance(a, ast.Starred) for a in call.args[: ai + 1]) else None)
                    known = set(self.classes_of(argexpr)) if argexpr is not None else set()
                    mro = self.own.prog.mro
                    for v in argvals[i]:
                        if len(chain(v)) + len(chain(r[2])) > 10:
                            out.add(("borrowed", "field/element of " + "/".join(sorted(root_kinds(v)))))
                        else:
                            out.add(_replace_root(r[2], v, known, mro))
                else:
                    out.add(("borrowed", "field/element of param"))
            else:
                out.add(r)
        return out or {("unknown", f"call {target.fq}")}

    # ------------------------------------------------------------------ statements
    def site(self, node, stmt, kind, receiver, origins, detail="", **kw):
        key = (id(node), kind)
        if key in self._seen_sites:
            # merge origins seen on another visit of the same statement (loop iterations)
            for s in self.sites:
                if s.node is node and s.kind == kind:
                    s.origins = frozenset(s.origins | origins)
            return
        self._seen_sites.add(key)
        self.sites.append(Site(self.f, node, stmt, kind, receiver, frozenset(origins), detail, **kw))

    def bind(self, target, values, env, stmt):
        """Assignment to a non-name target (attribute / subscript)."""
        if isinstance(target, ast.Subscript):
            self.site(target, stmt, "subscript-store", target.value, self.eval(target.value, env), norm(target))
        elif isinstance(target, ast.Attribute):
            self.site(target, stmt, "attr-store", target.value, self.eval(target.value, env), target.attr)
            self._freeze_on_store(target, values, env, stmt)

    def _freeze_on_store(self, target, values, env, stmt):
        pass  # handled in on_stmt (needs env mutation)

    def _augassign_name(self, aug: ast.AugAssign, left, env):
        self.site(aug, aug, "augassign-name", aug.target, left, norm(aug))

    def on_stmt(self, st, env):
        # mutations expressed as statements
        if isinstance(st, ast.AugAssign) and not isinstance(st.target, ast.Name):
            t = st.target
            if isinstance(t, ast.Subscript):
                self.site(t, st, "subscript-store", t.value, self.eval(t.value, env), norm(st))
            elif isinstance(t, ast.Attribute):
                self.site(t, st, "attr-store", t.value, self.eval(t.value, env), t.attr)
        if isinstance(st, ast.Delete):
            for t in st.targets:
                if isinstance(t, ast.Subscript):
                    self.site(t, st, "subscript-store", t.value, self.eval(t.value, env), norm(st))
                elif isinstance(t, ast.Attribute):
                    self.site(t, st, "attr-store", t.value, self.eval(t.value, env), t.attr)
        # expressions evaluated at this statement
        for e in _stmt_exprs(st):
            for c in _walk_expr(e):
                if isinstance(c, ast.Call):
                    self._call_effects(c, st, env)
        # evaluate bare expression statements so that their calls are recorded
        if isinstance(st, ast.Expr):
            self.eval(st.value, env)
        elif isinstance(st, (ast.If, ast.While)):
            self.eval(st.test, env)
        elif isinstance(st, ast.Assert):
            pass
        # escapes: handing a fresh object to a term
        self._escapes(st, env)

    def _call_effects(self, c: ast.Call, st, env):
        own = self.own
        callee = self.resolve(c.func)
        # out= keyword
        for k in c.keywords:
            if k.arg == "out":
                self.site(c, st, "out=", k.value, self.eval(k.value, env), f"{norm(c.func)}(..., out={norm(k.value)})")
        if callee is not None:
            head, _, _ = callee.partition(".")
            last = callee.rsplit(".", 1)[-1]
            if head in ("numpy", "torch", "jax") and last in LIB_INPLACE_FUNCS and c.args:
                self.site(c, st, "lib-inplace", c.args[0], self.eval(c.args[0], env), callee)
                return
            if head in ("numpy", "jax") and last == "at" and c.args:  # np.add.at(a, idx, v)
                self.site(c, st, "lib-inplace", c.args[0], self.eval(c.args[0], env), callee)
                return
            if callee in ("builtins.setattr", "builtins.delattr") and c.args:
                attr = c.args[1].value if len(c.args) > 1 and isinstance(c.args[1], ast.Constant) else "?"
                self.site(c, st, "attr-store", c.args[0], self.eval(c.args[0], env), str(attr))
                return
            if head == "torch" and last.endswith("_") and not last.startswith("_") and c.args:
                self.site(c, st, "lib-inplace", c.args[0], self.eval(c.args[0], env), callee)
                return
            return  # a resolved function / class / op: not a container method
        if isinstance(c.func, ast.Attribute):
            m = c.func.attr
            recv_expr = c.func.value
            # x.at[idx].set(v) in jax is functional; np.add.at handled above
            if m in CONTAINER_MUTATORS or m in ARRAY_MUTATORS or (m.endswith("_") and not m.startswith("_") and len(m) > 2 and not m.endswith("__")):
                # receiver that resolves to a module/op/class is not a container
                if self.resolve(recv_expr) is not None and not self._is_global_container(recv_expr):
                    return
                self.site(c, st, "method", recv_expr, self.eval(recv_expr, env), f".{m}()")

    def _is_global_container(self, expr) -> bool:
        r = self.resolve(expr)
        if r is None:
            return False
        v = self._global_value(r)
        return any(x[0] == "global" for x in v)

    def _escapes(self, st, env):
        """R20.5: a fresh object handed to Funsor.__init__ / stored in a term field / passed to a term constructor becomes frozen."""
        own = self.own
        f = self.f
        in_term_init = f.cls is not None and f.name == "__init__" and f.cls.fq in own.cat.term_classes
        names_to_freeze = set()
        for e in _stmt_exprs(st):
            for c in _walk_expr(e):
                if not isinstance(c, ast.Call):
                    continue
                callee = self.resolve(c.func)
                is_super_init = (isinstance(c.func, ast.Attribute) and c.func.attr == "__init__" and isinstance(c.func.value, ast.Call)
                                 and isinstance(c.func.value.func, ast.Name) and c.func.value.func.id == "super")
                if in_term_init and is_super_init:
                    for a in c.args:
                        if isinstance(a, ast.Name):
                            names_to_freeze.add(a.id)
                elif callee in own.cat.term_classes:
                    for i, a in enumerate(c.args):
                        if isinstance(a, ast.Name) and any(v[0] == "fresh" and v[1] == "array" for v in env.get(a.id, ())):
                            names_to_freeze.add(a.id)
        if in_term_init and isinstance(st, ast.Assign):
            for t in st.targets:
                if isinstance(t, ast.Attribute) and isinstance(t.value, ast.Name) and f.positional and t.value.id == f.positional[0] \
                        and isinstance(st.value, ast.Name):
                    names_to_freeze.add(st.value.id)
        for n in names_to_freeze:
            if n in env:
                env[n] = frozenset(("frozen", v[1]) if v[0] == "fresh" else v for v in env[n])


def _contains(root, node) -> bool:
    return any(n is node for n in ast.walk(root))


def _copy_kind(recv) -> str:
    kinds = {v[1] for v in recv if v[0] == "fresh"}
    return "container" if kinds == {"container"} else "container" if not kinds else kinds.pop()


def _stmt_exprs(st) -> List[ast.AST]:
    """Expressions evaluated when control reaches statement ``st`` itself (not its nested blocks)."""
    if isinstance(st, (ast.If, ast.While)):
        return [st.test]
    if isinstance(st, (ast.For, ast.AsyncFor)):
        return [st.iter]
    if isinstance(st, (ast.With, ast.AsyncWith)):
        return [it.context_expr for it in st.items]
    if isinstance(st, (ast.FunctionDef, ast.AsyncFunctionDef, ast.ClassDef)):
        return list(st.decorator_list)
    if isinstance(st, ast.Try) or st.__class__.__name__ == "TryStar":
        return []
    if isinstance(st, ast.Match):
        return [st.subject]
    return [st]


def _walk_expr(e):
    """Walk an expression/simple statement without entering lambdas, comprehensions' nested function scopes are entered
    (they execute inline)."""
    stack = [e]
    while stack:
        n = stack.pop()
        yield n
        for c in ast.iter_child_nodes(n):
            if isinstance(c, (ast.Lambda, ast.FunctionDef, ast.AsyncFunctionDef, ast.ClassDef)):
                continue
            stack.append(c)


@dataclass
class Summary:
    returns: Set[tuple] = field(default_factory=set)  # {("fresh",kind)} | ("param", i) | ("viewparam", i) | ("unknown",..) | ("imm",) | ("term",)
    mutates: Dict[int, List[Site]] = field(default_factory=dict)  # param index -> witnessing sites


class Ownership:
    def __init__(self, prog: Program, refs: Refs, cat):
        self.prog = prog
        self.refs = refs
        self.cat = cat
        self.summaries: Dict[str, Summary] = {}
        self.analyses: Dict[str, FunctionAnalysis] = {}
        self.param_types: Dict[str, Dict[str, Set[str]]] = {}
        self._param_types_from_registrations()

    def _param_types_from_registrations(self):
        """Type the parameters of registered rules from their patterns: `@eager.register(Binary, Op, Tensor, Tensor)`."""
        tc = self.cat.term_classes
        for r in self.cat.registrations:
            if r.target is None or r.method != "register" or not r.pattern:
                continue
            head = self.refs.resolve(r.pattern[0]) if isinstance(r.pattern[0], (ast.Name, ast.Attribute)) else None
            pats = r.pattern[1:] if head in tc else r.pattern
            params = r.target.positional
            if len(params) == len(pats) + 1:
                params = params[1:]
            if len(params) != len(pats):
                continue
            for pname, pe in zip(params, pats):
                elts = pe.elts if isinstance(pe, ast.Tuple) else [pe]
                cls = []
                for x in elts:
                    if isinstance(x, ast.Subscript):
                        x = x.value
                    rr = self.refs.resolve(x) if isinstance(x, (ast.Name, ast.Attribute)) else None
                    cls.append(rr)
                if cls and all(c in tc for c in cls):
                    self.param_types.setdefault(r.target.fq, {}).setdefault(pname, set()).update(cls)

    def run(self, rounds: int = 4):
        funcs = [f for f in self.prog.funcs.values()]
        for f in funcs:
            self.summaries[f.fq] = Summary(returns={("unknown", "not yet analysed")})
        for rnd in range(rounds):
            changed = False
            for f in funcs:
                fa = FunctionAnalysis(self, f).run()
                self.analyses[f.fq] = fa
                s = self._summarise(fa)
                old = self.summaries[f.fq]
                if s.returns != old.returns or set(s.mutates) != set(old.mutates):
                    changed = True
                self.summaries[f.fq] = s
            # call-site propagation of mutates_param
            if self._propagate_mutations():
                changed = True
            if not changed:
                break
        self.rounds = rnd + 1
        return self

    def _summarise(self, fa: FunctionAnalysis) -> Summary:
        s = Summary()
        for r in fa.returns:
            s.returns |= self._ret_summary(r)
        if not fa.returns:
            s.returns = {("imm",)}
        old = self.summaries.get(fa.f.fq)
        if old is not None:
            s.mutates = dict(old.mutates)
        for site in fa.sites:
            if site.kind in ("augassign-name",):
                continue
            if site.kind == "attr-store":
                continue  # attribute stores on a parameter object are judged locally (R20.1)
            for o in site.origins:
                p = _direct_param(o)
                if p is not None and p >= 0:
                    s.mutates.setdefault(p, []).append(site)
        return s

    def _ret_summary(self, r) -> Set[tuple]:
        k = r[0]
        if k == "fresh":
            return {r}
        if k == "frozen":
            return {("term-owned",)}
        if k == "param":
            return {("param", r[1])}
        if k in ("view",):
            p = _direct_param(r)
            if p is not None and p >= 0:
                return {("viewparam", p)}
            roots = root_kinds(r)
            if roots == {"fresh"}:
                return {("fresh", "array")}
            root = chain(r)[-1]
            if root[0] == "param" and root[1] >= 0 and len(chain(r)) <= 6:
                return {("substparam", root[1], r)}
            return {("unknown", "view of non-parameter")}
        if k in ("imm", "term"):
            return {r}
        if k == "tuple":
            return {("imm",)}
        if k == "global":
            return {r}
        if k in ("field", "elem", "ctx"):
            root = chain(r)[-1]
            if root[0] == "param" and root[1] >= 0 and len(chain(r)) <= 6:
                # parametric: the caller substitutes the origins of its actual argument for the root
                return {("substparam", root[1], r)}
            return {("borrowed", "field/element of " + "/".join(sorted(root_kinds(r))))}
        return {("unknown", str(r[1]) if len(r) > 1 else "?")}

    def _propagate_mutations(self) -> bool:
        changed = False
        for fa in self.analyses.values():
            for c, callee, argvals, kwvals in fa.calls:
                target = None
                offset = 0
                if callee is not None:
                    lk = self.prog.lookup(callee)
                    if lk and lk[0] == "func":
                        target = lk[1]
                elif isinstance(c.func, ast.Attribute):
                    target = fa._resolve_method(c.func, None)
                    offset = 1
                if target is None:
                    continue
                ts = self.summaries.get(target.fq)
                if not ts or not ts.mutates:
                    continue
                for pi, witnesses in ts.mutates.items():
                    ai = pi - offset
                    vals = None
                    if 0 <= ai < len(argvals):
                        vals = argvals[ai]
                    else:
                        pname = target.positional[pi] if pi < len(target.positional) else None
                        if pname and pname in kwvals:
                            vals = kwvals[pname]
                    if vals is None:
                        continue
                    for o in vals:
                        p = _direct_param(o)
                        if p is not None and p >= 0:
                            cur = self.summaries[fa.f.fq].mutates
                            if p not in cur:
                                cur[p] = list(witnesses[:1])
                                changed = True
        return changed


def _replace_root(o, new_root, known=(), mro=None):
    """the origin `o` with its root (innermost origin of the field/view/elem chain) replaced by `new_root`; the class tag of the
    field taken directly from the root is narrowed to the classes `known` for the actual argument"""
    if o[0] in ("field", "view", "elem", "ctx"):
        rest = tuple(o[2:])
        if o[0] == "field" and known and mro is not None and o[1][0] not in ("field", "view", "elem", "ctx") and len(o) > 3:
            keep = tuple(sorted(c for c in o[3] if any(c in mro(k) or k in mro(c) for k in known)))
            rest = (o[2], keep or tuple(sorted(known))) + tuple(o[4:])
        return (o[0], _replace_root(o[1], new_root, known, mro)) + rest
    return new_root


def _direct_param(o) -> Optional[int]:
    """index of the parameter when the origin is the parameter object itself or a view of it (not a field/element of it)."""
    while o[0] == "view":
        o = o[1]
    if o[0] == "param":
        return o[1]
    return None
