"""Path-sensitive verification of a find-or-add (interning / memo) protocol.

For a function F and a table T (any expression the caller's predicate recognises, e.g. ``cls._cons_cache``), every
entry->return path of F's CFG is executed symbolically.  Along a path the verifier tracks

* the symbolic value of every local (structural terms; every evaluation of a call gets a fresh token, so two separate
  constructions are different values while one construction referred to twice is the same value);
* what the path has learned about T:  present / absent under a key (from ``k in T``, ``T.get(k) is None``, a ``T[k]``
  that raised into an ``except KeyError`` handler or that succeeded), and which value was inserted under which key.

Infeasible paths (a test outcome contradicting what the path already knows) are pruned.  At every ``return`` the
obligation is:

  HIT   the path knows the key is present           -> the value returned is the table's value under that key
  MISS  the path knows the key is absent            -> exactly that key was inserted, and the value returned is the
                                                       inserted value (same evaluation, not an equal re-construction)
  BLIND the path never consulted the table          -> violation when it returns a newly built value
  every table access of the path uses the same key (compared structurally, tokens erased: recomputing the key with the
  same pure expression over the same values is the same key).

The idioms of the repository (``if k in T: return T[k]``; ``v = T.get(k[, None]); if v is None: ...``; ``try: return
T[k] except KeyError: ...``; plain and chained inserts ``v = T[k] = new``) and their refactorings (early return on the
hit, if/else, renamed locals) all reduce to the same path facts, so none needs to be listed.
"""
from __future__ import annotations

import ast
from dataclasses import dataclass, field
from typing import Callable, Dict, List, Optional, Tuple

from .cfg import CFG, PathLimit
from .model import Func, norm


@dataclass
class Finding:
    status: str  # ok | violation | unresolved
    role: str
    detail: str
    node: Optional[ast.AST] = None
    path: str = ""


def _erase(sym):
    """Structural projection of a symbolic value: call tokens removed."""
    if isinstance(sym, tuple):
        if sym and sym[0] == "call":
            return ("call",) + tuple(_erase(x) for x in sym[1:-1])
        return tuple(_erase(x) for x in sym)
    return sym


class _State:
    def __init__(self):
        self.env: Dict[str, tuple] = {}
        self.present: Dict[tuple, bool] = {}  # erased key -> known presence
        self.inserted: List[Tuple[tuple, tuple, ast.AST]] = []  # (erased key, value sym, node)
        self.keys: List[Tuple[tuple, ast.AST]] = []  # every key used in a table access
        self.counter = 0
        self.pending_lookup: List[tuple] = []  # keys looked up (T[k]) in the statement being executed

    def copy(self):
        s = _State()
        s.env = dict(self.env)
        s.present = dict(self.present)
        s.inserted = list(self.inserted)
        s.keys = list(self.keys)
        s.counter = self.counter
        return s


class FindOrAdd:
    def __init__(self, f: Func, is_table: Callable[[ast.AST], bool], table_name: str, path_limit: int = 4000):
        self.f = f
        # a local bound once to the table expression (`cache = cls._cons_cache`) is the table too
        aliases = {}
        for n in ast.walk(f.node):
            if isinstance(n, ast.Assign) and len(n.targets) == 1 and isinstance(n.targets[0], ast.Name):
                aliases.setdefault(n.targets[0].id, []).append(n.value)
        alias_names = {k for k, vs in aliases.items() if len(vs) == 1 and is_table(vs[0])}
        self.is_table = lambda e: is_table(e) or (isinstance(e, ast.Name) and e.id in alias_names)
        self.table_name = table_name
        self.cfg = CFG(f.node)
        self.findings: List[Finding] = []
        self.path_limit = path_limit
        self.n_paths = 0
        self.n_pruned = 0
        self.n_hit = self.n_miss = 0

    # ------------------------------------------------------------------ symbolic evaluation
    def ev(self, e: ast.AST, st: _State) -> tuple:
        if isinstance(e, ast.Name):
            return st.env.get(e.id, ("free", e.id))
        if isinstance(e, ast.Constant):
            return ("const", repr(e.value))
        if isinstance(e, ast.Subscript) and self.is_table(e.value) and isinstance(e.ctx, ast.Load):
            k = self.ev(e.slice, st)
            st.keys.append((_erase(k), e))
            st.pending_lookup.append(_erase(k))
            return ("tabval", _erase(k))
        if isinstance(e, ast.Call):
            fn = e.func
            if isinstance(fn, ast.Attribute) and self.is_table(fn.value):
                if fn.attr == "get" and 1 <= len(e.args) <= 2 and (len(e.args) == 1 or (isinstance(e.args[1], ast.Constant) and e.args[1].value is None)):
                    k = self.ev(e.args[0], st)
                    st.keys.append((_erase(k), e))
                    return ("getval", _erase(k))
                if fn.attr == "setdefault" and len(e.args) == 2:
                    k = self.ev(e.args[0], st)
                    v = self.ev(e.args[1], st)
                    st.keys.append((_erase(k), e))
                    # setdefault returns the table's value: the old one on a hit, v on a miss
                    if st.present.get(_erase(k)) is False:
                        st.inserted.append((_erase(k), v, e))
                        st.present[_erase(k)] = True
                        return v
                    return ("tabval", _erase(k))
                return ("tabop", fn.attr)
            args = tuple(self.ev(a.value if isinstance(a, ast.Starred) else a, st) for a in e.args)
            kws = tuple((k.arg, self.ev(k.value, st)) for k in e.keywords)
            st.counter += 1
            return ("call", norm(fn) if not isinstance(fn, ast.Attribute) else ("attr", self.ev(fn.value, st), fn.attr), args, kws, (id(e), st.counter))
        if isinstance(e, ast.Attribute):
            return ("attr", self.ev(e.value, st), e.attr)
        if isinstance(e, ast.NamedExpr):
            v = self.ev(e.value, st)
            st.env[e.target.id] = v
            return v
        if isinstance(e, ast.IfExp):
            return ("ifexp", self.ev(e.test, st), self.ev(e.body, st), self.ev(e.orelse, st))
        kids = tuple(self.ev(c, st) for c in ast.iter_child_nodes(e) if isinstance(c, ast.expr))
        return (type(e).__name__, norm(e) if not kids else "", kids)

    def bind(self, target: ast.AST, val: tuple, st: _State, node: ast.AST):
        if isinstance(target, ast.Name):
            st.env[target.id] = val
        elif isinstance(target, ast.Subscript) and self.is_table(target.value):
            k = _erase(self.ev(target.slice, st))
            st.keys.append((k, target))
            st.inserted.append((k, val, node))
            st.present[k] = True
        elif isinstance(target, (ast.Tuple, ast.List)):
            for i, t in enumerate(target.elts):
                self.bind(t.value if isinstance(t, ast.Starred) else t, ("elem", val, i), st, node)
        # attribute / other subscript stores do not concern the protocol

    # ------------------------------------------------------------------ conditions
    def assume(self, test: ast.AST, outcome: bool, st: _State) -> bool:
        """Record what `test == outcome` says about the table; False if it contradicts what the path knows."""
        if isinstance(test, ast.UnaryOp) and isinstance(test.op, ast.Not):
            return self.assume(test.operand, not outcome, st)
        if isinstance(test, ast.BoolOp):
            if isinstance(test.op, ast.And) and outcome:
                return all(self.assume(v, True, st) for v in test.values)
            if isinstance(test.op, ast.Or) and not outcome:
                return all(self.assume(v, False, st) for v in test.values)
            return True
        if isinstance(test, ast.Compare) and len(test.ops) == 1:
            op, left, right = test.ops[0], test.left, test.comparators[0]
            if isinstance(op, (ast.In, ast.NotIn)) and self.is_table(right):
                k = _erase(self.ev(left, st))
                st.keys.append((k, test))
                present = outcome if isinstance(op, ast.In) else not outcome
                return self._learn(k, present, st)
            if isinstance(op, (ast.Is, ast.IsNot)) and isinstance(right, ast.Constant) and right.value is None:
                v = self.ev(left, st)
                is_none = outcome if isinstance(op, ast.Is) else not outcome
                if v[0] == "getval":
                    ok = self._learn(v[1], not is_none, st)
                    if ok and not is_none:
                        for n, x in list(st.env.items()):
                            if x == v:
                                st.env[n] = ("tabval", v[1])
                    return ok
                if v[0] == "tabval" and is_none:
                    return False  # the table never holds None (premise, stated in the rule)
        return True

    def _learn(self, k, present: bool, st: _State) -> bool:
        known = st.present.get(k)
        if known is not None and known != present:
            return False
        st.present[k] = present
        return True

    # ------------------------------------------------------------------ path execution
    def run(self) -> List[Finding]:
        cfg = self.cfg
        try:
            paths = list(cfg.paths(cfg.entry, [cfg.exit], limit=self.path_limit, max_visits=2))
        except PathLimit:
            self.findings.append(Finding("unresolved", "paths", f"more than {self.path_limit} paths; protocol not decided", self.f.node))
            return self.findings
        seen = set()
        for path in paths:
            self._run_path(path, seen)
        return self.findings

    def _emit(self, status, role, detail, node, seen, path=""):
        key = (status, role, detail, getattr(node, "lineno", 0))
        if key in seen:
            return
        seen.add(key)
        self.findings.append(Finding(status, role, detail, node, path))

    def _run_path(self, path, seen):
        st = _State()
        for p in self.f.params:
            st.env[p] = ("param", p)
        self.n_paths += 1
        ret_node = None
        for i, (node, lab) in enumerate(path):
            nxt_label = path[i + 1][1] if i + 1 < len(path) else ""
            a = node.ast
            if node.kind == "test" and isinstance(a, (ast.If, ast.While)):
                if nxt_label in ("true", "false"):
                    if not self.assume(a.test, nxt_label == "true", st):
                        self.n_pruned += 1
                        return
                continue
            if node.kind == "except" and isinstance(a, ast.ExceptHandler):
                continue
            if node.kind != "stmt" or a is None:
                continue
            st.pending_lookup = []
            leaves_by_exc = nxt_label == "exc"
            if isinstance(a, ast.Return):
                val = self.ev(a.value, st) if a.value is not None else ("const", "None")
                if leaves_by_exc:
                    if not self._lookup_raised(path, i, st):
                        return  # some other exception: path not about the protocol (or infeasible)
                    continue
                for k in st.pending_lookup:
                    if not self._learn(k, True, st):
                        self.n_pruned += 1
                        return
                ret_node = a
                self._judge_return(a, val, st, path, seen)
                return
            if isinstance(a, ast.Assign):
                val = self.ev(a.value, st)
                if leaves_by_exc:
                    if not self._lookup_raised(path, i, st):
                        return
                    continue
                for k in st.pending_lookup:
                    if not self._learn(k, True, st):
                        self.n_pruned += 1
                        return
                # chained assignment binds right-to-left semantics irrelevant here: same value to all targets
                for t in a.targets:
                    self.bind(t, val, st, a)
                continue
            if isinstance(a, ast.AnnAssign) and a.value is not None:
                self.bind(a.target, self.ev(a.value, st), st, a)
                continue
            if isinstance(a, ast.AugAssign):
                if isinstance(a.target, ast.Name):
                    st.env[a.target.id] = ("aug", st.env.get(a.target.id, ("free", a.target.id)), self.ev(a.value, st))
                continue
            if isinstance(a, ast.Expr):
                self.ev(a.value, st)
                if leaves_by_exc and not self._lookup_raised(path, i, st):
                    return
                continue
            if isinstance(a, ast.Delete):
                for t in a.targets:
                    if isinstance(t, ast.Subscript) and self.is_table(t.value):
                        self._emit("violation", "entry deleted", f"`{norm(a)}` removes an entry from the table: a live object can be re-created under the same key", a, seen)
                continue
            if leaves_by_exc:
                return
        # fell off the end (implicit return None)
        if ret_node is None and path and path[-1][0].kind == "exit":
            self._judge_return(self.f.node, ("const", "None"), st, path, seen)

    def _lookup_raised(self, path, i, st: _State) -> bool:
        """The statement at path[i] left by an exception.  If it goes to an ``except KeyError`` (or broader) handler and the
        statement performed a table lookup, the path learns the key is absent."""
        handler = None
        for node, lab in path[i + 1:i + 4]:
            if node.kind == "except":
                handler = node.ast
                break
            if node.kind not in ("dispatch",):
                break
        if handler is None:
            return False
        t = handler.type
        names = []
        if t is None:
            names = ["BaseException"]
        elif isinstance(t, ast.Tuple):
            names = [norm(x) for x in t.elts]
        else:
            names = [norm(t)]
        if not any(n in ("KeyError", "LookupError", "Exception", "BaseException") for n in names):
            return False
        if not st.pending_lookup:
            return False
        for k in st.pending_lookup:
            if not self._learn(k, False, st):
                self.n_pruned += 1
                return False
        return True

    def _judge_return(self, node, val, st: _State, path, seen):
        tn = self.table_name
        keys = {k for k, _ in st.keys}
        where = f"return at line {getattr(node, 'lineno', '?')}"
        if len(keys) > 1:
            self._emit("violation", "one key", f"the table `{tn}` is accessed under different keys on one path ({len(keys)} distinct): "
                       "an object is filed under a key it will never be found by / a hit is answered from another key's entry", node, seen)
            return
        if not keys:
            if val[0] == "const":
                self._emit("ok", "no table path", f"{where}: returns a constant without touching the table", node, seen)
                return
            self._emit("violation", "lookup", f"{where}: a value is returned on a path that never consulted `{tn}`: equal arguments build distinct objects", node, seen)
            return
        (k,) = keys
        pres = st.present.get(k)
        ins = [(kk, v, n) for kk, v, n in st.inserted]
        if ins:
            # a miss path (or an unconditional overwrite)
            learned_absent = self._absent_before_insert(path, st, k)
            if not learned_absent:
                self._emit("violation", "lookup", f"{where}: an entry is inserted under the key without a preceding miss test: a live entry can be overwritten "
                           "(two distinct objects for equal arguments)", ins[0][2], seen)
                return
            if len(ins) > 1:
                self._emit("violation", "insert", f"{where}: the key is inserted {len(ins)} times on one path", ins[-1][2], seen)
                return
            _, v, n = ins[0]
            if val == v:
                self.n_miss += 1
                self._emit("ok", "miss path", "on a miss the newly built value is inserted under the looked-up key and that same value is returned", node, seen)
            elif val == ("tabval", k):
                self.n_miss += 1
                self._emit("ok", "miss path", "on a miss the value is inserted and the table's entry is returned", node, seen)
            else:
                self._emit("violation", "returned value", f"{where}: the value returned is not the value that was inserted under the key "
                           "(the cached object and the returned object differ)", node, seen)
            return
        # no insert on this path
        if val in (("tabval", k),):
            if pres is False:
                self._emit("violation", "hit path", f"{where}: reads the table under a key the path knows to be absent", node, seen)
            else:
                self.n_hit += 1
                self._emit("ok", "hit path", "on a hit the table's entry under the looked-up key is returned", node, seen)
            return
        if val == ("getval", k):
            self._emit("violation", "miss test", f"{where}: the result of `{tn}.get(key)` is returned without a `None` test: a miss returns None instead of building the object", node, seen)
            return
        if pres is True:
            self._emit("violation", "hit path", f"{where}: the key is known to be present but something other than the table's entry is returned", node, seen)
            return
        self._emit("violation", "insert", f"{where}: a newly built value is returned without being inserted into `{tn}`: equal arguments build distinct objects", node, seen)

    def _absent_before_insert(self, path, st: _State, k) -> bool:
        """Was the key learned absent on this path?  (present[k] is True after the insert, so replay the tests.)"""
        s2 = _State()
        for p in self.f.params:
            s2.env[p] = ("param", p)
        for i, (node, lab) in enumerate(path):
            nxt_label = path[i + 1][1] if i + 1 < len(path) else ""
            a = node.ast
            if node.kind == "test" and isinstance(a, (ast.If, ast.While)) and nxt_label in ("true", "false"):
                self.assume(a.test, nxt_label == "true", s2)
                if s2.present.get(k) is False:
                    return True
            elif node.kind == "stmt" and a is not None:
                s2.pending_lookup = []
                if isinstance(a, (ast.Assign, ast.Return, ast.Expr)) and getattr(a, "value", None) is not None:
                    val = self.ev(a.value, s2)
                    if nxt_label == "exc":
                        if self._lookup_raised(path, i, s2) and s2.present.get(k) is False:
                            return True
                        continue
                    if isinstance(a, ast.Assign):
                        if any(isinstance(t, ast.Subscript) and self.is_table(t.value) for t in a.targets):
                            return s2.present.get(k) is False
                        for t in a.targets:
                            self.bind(t, val, s2, a)
        return False
