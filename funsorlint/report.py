"""Obligations, verdict aggregation, known findings, evidence and replay files."""
from __future__ import annotations

import json
import os
import time
from dataclasses import dataclass, field, asdict
from typing import Any, Dict, List, Optional

from .model import AnalysisError

VERIF = os.path.dirname(os.path.dirname(os.path.abspath(__file__)))

OK, VIOLATION, UNRESOLVED, NOTE = "ok", "violation", "unresolved", "note"


@dataclass
class Obligation:
    rule: str  # e.g. 'R17.3'
    construct: str  # 'funsor.interpretations::Interpretation.__exit__::<role>' (no line numbers)
    status: str  # ok | violation | unresolved | note
    detail: str = ""
    loc: str = ""  # file:line, for the human
    path: str = ""  # CFG / call-graph path witnessing it
    nontrivial: bool = True

    def key(self):
        return (self.rule, self.construct)


@dataclass
class RuleResult:
    rule: str
    title: str
    obligations: List[Obligation] = field(default_factory=list)
    floor: int = 0  # minimum number of instances confirmed by hand
    unresolved_ceiling: Optional[int] = None
    analysed: Dict[str, Any] = field(default_factory=dict)


class Collector:
    def __init__(self, prop: str):
        self.prop = prop
        self.rules: List[RuleResult] = []
        self.cur: Optional[RuleResult] = None
        self.stats: Dict[str, Any] = {}

    def rule(self, rule: str, title: str, floor: int = 0, unresolved_ceiling: Optional[int] = None) -> RuleResult:
        self.cur = RuleResult(rule, title, floor=floor, unresolved_ceiling=unresolved_ceiling)
        self.rules.append(self.cur)
        return self.cur

    def add(self, status: str, construct: str, detail: str = "", loc: str = "", path: str = "", nontrivial: bool = True, rule: Optional[str] = None):
        r = self.cur
        o = Obligation(rule or r.rule, construct, status, detail, loc, path, nontrivial)
        r.obligations.append(o)
        return o

    def ok(self, construct, detail="", loc="", **kw):
        return self.add(OK, construct, detail, loc, **kw)

    def violation(self, construct, detail="", loc="", **kw):
        return self.add(VIOLATION, construct, detail, loc, **kw)

    def unresolved(self, construct, detail="", loc="", **kw):
        return self.add(UNRESOLVED, construct, detail, loc, **kw)

    def note(self, construct, detail="", loc="", **kw):
        return self.add(NOTE, construct, detail, loc, nontrivial=False, **kw)

    def check(self, cond: bool, construct, ok_detail="", bad_detail="", loc="", **kw):
        if cond:
            return self.ok(construct, ok_detail, loc, **kw)
        return self.violation(construct, bad_detail or ok_detail, loc, **kw)

    def all(self) -> List[Obligation]:
        return [o for r in self.rules for o in r.obligations]


def load_known_findings() -> List[dict]:
    p = os.path.join(VERIF, "KNOWN_FINDINGS.json")
    if not os.path.exists(p):
        return []
    with open(p) as f:
        return json.load(f).get("findings", [])


def finish(col: Collector, tier: str, seed: int, t0: float, prog_stats: Dict[str, Any], explanation: str,
           assumptions: List[str], rule_text: str, evidence_dir: Optional[str] = None, quiet: bool = False) -> int:
    """Aggregate, print the report, write evidence + replay.  Returns the process exit code."""
    prop = col.prop
    known = [k for k in load_known_findings() if k.get("property") == prop]
    known_keys = {(k["rule"], k["construct"]): k for k in known}
    obligations = col.all()
    # floors
    floor_errors = []
    for r in col.rules:
        inst = [o for o in r.obligations if o.status != NOTE]
        if len(inst) < r.floor:
            floor_errors.append(f"{r.rule}: matched {len(inst)} instance(s), hand-confirmed floor is {r.floor} ({r.title})")
        unres = [o for o in r.obligations if o.status == UNRESOLVED]
        if r.unresolved_ceiling is not None and len(unres) > r.unresolved_ceiling:
            floor_errors.append(f"{r.rule}: {len(unres)} unresolved obligations exceed the ceiling {r.unresolved_ceiling}")
    viols = [o for o in obligations if o.status == VIOLATION]
    new_viols, known_hits = [], []
    for o in viols:
        if o.key() in known_keys:
            known_hits.append(o)
        else:
            new_viols.append(o)
    if floor_errors and not new_viols:
        raise AnalysisError("; ".join(floor_errors))
    unres = [o for o in obligations if o.status == UNRESOLVED]
    oks = [o for o in obligations if o.status == OK]
    decided = [o for o in obligations if o.status in (OK, VIOLATION)]

    if not quiet:
        print(f"funsorlint {prop} tier={tier}: {prog_stats.get('modules', '?')} modules, {prog_stats.get('functions', '?')} functions analysed")
        for r in col.rules:
            n = len([o for o in r.obligations if o.status != NOTE])
            nv = len([o for o in r.obligations if o.status == VIOLATION])
            nu = len([o for o in r.obligations if o.status == UNRESOLVED])
            print(f"  {r.rule:7s} {r.title}: {n} obligation(s), {nv} violation(s), {nu} unresolved")
        for o in known_hits:
            k = known_keys[o.key()]
            print(f"KNOWN-FINDING: property={prop} rule={o.rule} {o.construct} at {o.loc}: {k.get('what', o.detail)}")
        for o in new_viols:
            print(f"  !! {o.rule} {o.loc} {o.construct}\n     {o.detail}" + (f"\n     path: {o.path}" if o.path else ""))
        for o in unres[:10]:
            print(f"  ?? {o.rule} {o.loc} {o.construct}: {o.detail}")

    ev_dir = evidence_dir or os.path.join(VERIF, "evidence")
    os.makedirs(ev_dir, exist_ok=True)
    replay_path = ""
    if new_viols:
        rdir = os.path.join(ev_dir, "replay")
        os.makedirs(rdir, exist_ok=True)
        replay_path = os.path.join(rdir, f"{prop}.json")
        with open(replay_path, "w") as f:
            json.dump({"property": prop, "tier": tier, "repo": prog_stats.get("repo"),
                       "violations": [asdict(o) for o in new_viols]}, f, indent=1)

    def sample(o: Obligation):
        d = {"rule": o.rule, "construct": o.construct, "verdict": o.status, "loc": o.loc, "detail": o.detail}
        if o.path:
            d["path"] = o.path
        return d

    samples = [sample(o) for o in (new_viols + known_hits)[:10]]
    seen_rules = set()
    for o in obligations:
        if o.status == OK and o.rule not in seen_rules:
            seen_rules.add(o.rule)
            samples.append(sample(o))
    for o in unres[:5]:
        samples.append(sample(o))
    distinct_nontrivial = len({o.key() for o in decided if o.nontrivial})
    evidence = {
        "property_id": prop,
        "tier": tier,
        "seed": seed,
        "level": "other",
        "coverage": {
            "explanation": explanation,
            "obligations": len(decided),
            "discharged": len(oks) + len(known_hits),
            "evaluations": len(obligations),
            "distinct_nontrivial": distinct_nontrivial,
            "rule": rule_text,
            "samples": samples,
            "unresolved": len(unres),
            "unresolved_list": [sample(o) for o in unres[:40]],
            "known_findings_reported": [o.construct for o in known_hits],
            "per_rule": {r.rule: {"title": r.title,
                                  "instances": len([o for o in r.obligations if o.status != NOTE]),
                                  "ok": len([o for o in r.obligations if o.status == OK]),
                                  "violations": len([o for o in r.obligations if o.status == VIOLATION]),
                                  "unresolved": len([o for o in r.obligations if o.status == UNRESOLVED]),
                                  "floor": r.floor, **({"analysed": r.analysed} if r.analysed else {})}
                         for r in col.rules},
            "notes": [sample(o) for o in obligations if o.status == NOTE][:30],
            "modules": prog_stats.get("modules"),
            "functions": prog_stats.get("functions"),
            "source_digest": prog_stats.get("digest"),
            "repo": prog_stats.get("repo"),
            "checker_cmd": f"/venv/bin/python -m funsorlint check {prop} --tier {tier}",
            "trusted_base": ["CPython ast grammar/parser", "funsorlint/axioms.py (mathematics of the ops)",
                             "funsorlint/rules/allow.py (reasoned allow-list)", "networkx dominators/reachability"],
            "exhaustive": True,
            **col.stats,
        },
        "assumptions": assumptions,
        "wall_s": round(time.time() - t0, 3),
        "violations": len(new_viols),
    }
    with open(os.path.join(ev_dir, f"{prop}.json"), "w") as f:
        json.dump(evidence, f, indent=1, default=str)
    if new_viols:
        if not quiet:  # quiet = self-test on a scratch variant: its reports must never look like a verdict on /repo
            print(f"VIOLATION property={prop} replay={replay_path}")
        return 1
    if not quiet:
        print(f"OK property={prop}: {len(oks)} obligations discharged, {len(known_hits)} known finding(s), {len(unres)} unresolved (reported, not failed)")
    return 0
