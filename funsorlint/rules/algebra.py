"""Rules shared by C01 / C02 / C08: rewrites treat the op tables as axioms and must instantiate them at the right op."""
from __future__ import annotations

import ast
from typing import Dict, List, Optional, Set, Tuple

from .. import axioms
from ..catalogue import Catalogue, Registration
from ..cfg import CFG
from ..model import AnalysisError, Func, Program, norm
from ..opspec import OpSpec
from ..report import Collector
from .common import Refs, const_value, func_label, require_func, walk_no_nested

T = "funsor.ops.op."


def _abs(cat: Catalogue, mod, expr) -> Optional[str]:
    op = cat.resolve_op(mod, expr)
    return axioms.identify(cat, op) if op is not None else None


def _class_abs(cat: Catalogue, refs: Refs, expr) -> Optional[str]:
    """abstract op of a pattern element like ops.SubOp"""
    r = refs.resolve(expr) if isinstance(expr, (ast.Name, ast.Attribute)) else None
    ref = cat.op_class_ref(r)
    if ref and ref.startswith("op:"):
        return axioms.identify(cat, cat.ops[ref[3:]])
    return None


# ---------------------------------------------------------------------- R01.4 = R02.4 = R08.1


def _find_reduce_helper(prog: Program, refs: Refs, cat: Catalogue) -> Func:
    """the helper that the Reduce rules of eager/lazy/sequential/moment_matching share (role: called from >= 3 of them)."""
    counts: Dict[str, int] = {}
    for r in cat.registrations:
        if r.target is None or not r.pattern:
            continue
        if refs.resolve(r.pattern[0]) != "funsor.terms.Reduce" or not r.registry.startswith("funsor.interpretations."):
            continue
        for n in walk_no_nested(r.target.node):
            if isinstance(n, ast.Call):
                c = refs.resolve(n.func)
                lk = prog.lookup(c) if c else None
                if lk and lk[0] == "func" and len(n.args) == 3 and [norm(a) for a in n.args] == r.target.positional[:3]:
                    counts[lk[1].fq] = counts.get(lk[1].fq, 0) + 1
    best = [k for k, v in counts.items() if v >= 3]
    if len(best) != 1:
        raise AnalysisError(f"cannot locate the shared missing-operand reduction helper by role (candidates {counts})")
    return prog.funcs[best[0]]


def r_power(prog: Program, col: Collector, refs: Refs, cat: Catalogue, rule: str):
    col.rule(rule, "reducing over variables an operand does not mention compensates with the n-fold power of the reduction op", floor=10)
    assoc = [o for o in cat.ops_under("abs:funsor.ops.builtin.AssociativeOp")]
    sites = []
    helper = _find_reduce_helper(prog, refs, cat)
    def truthy_local(f, pred):
        """condition `if <local>:` where the local's definition satisfies pred (role, not name)"""
        names = {n.targets[0].id for n in walk_no_nested(f.node) if isinstance(n, ast.Assign) and len(n.targets) == 1 and isinstance(n.targets[0], ast.Name) and pred(n.value)}
        return lambda t: isinstance(t, ast.Name) and t.id in names

    def param_truthy(f, i):
        return lambda t: isinstance(t, ast.Name) and len(f.positional) > i and t.id == f.positional[i]

    # the missing-variable branch: `<reduced vars> - <operand>.input_vars` is non-empty
    unrelated = truthy_local(helper, lambda v: isinstance(v, ast.BinOp) and isinstance(v.op, ast.Sub) and isinstance(v.right, ast.Attribute) and v.right.attr in ("input_vars", "inputs"))
    sites.append((helper, helper.positional[0], {helper.positional[1]}, set(), {unrelated}, set(), [o.fq for o in assoc]))
    count_sets = [(helper, unrelated)]
    f = prog.funcs.get("funsor.constant::eager_reduce_add")
    if f is not None:
        ops_ = set()
        for r in cat.registrations:
            if r.target is f and len(r.pattern) >= 2:
                ref = cat.op_class_ref(refs.resolve(r.pattern[1]))
                if ref:
                    ops_ |= {o.fq for o in cat.ops_under(ref)}
        const_part = truthy_local(f, lambda v: isinstance(v, ast.BinOp) and isinstance(v.op, ast.BitAnd) and any(isinstance(x, ast.Attribute) and x.attr == "const_vars" for x in ast.walk(v)))
        sites.append((f, f.positional[0], {f.positional[1]}, set(), {const_part}, set(), sorted(ops_)))
        count_sets.append((f, const_part))
    f = prog.funcs.get("funsor.sum_product::eager_markov_product")
    if f is not None:
        time_p = f.positional[3]
        in_trans = lambda t, _f=f: isinstance(t, ast.Compare) and len(t.ops) == 1 and isinstance(t.ops[0], ast.In) and isinstance(t.left, ast.Attribute) \
            and t.left.attr == "name" and isinstance(t.comparators[0], ast.Attribute) and t.comparators[0].attr == "inputs"
        sites.append((f, f.positional[1], {f.positional[2]}, set(), set(), {param_truthy(f, 4), in_trans}, [o.fq for o in assoc]))
    f = prog.funcs.get("funsor.delta::eager_independent_delta")
    if f is not None:
        diag_p, bint_p = f.positional[3], f.positional[2]
        is_diag = lambda t, _d=diag_p: isinstance(t, ast.Compare) and len(t.ops) == 1 and isinstance(t.ops[0], ast.Eq) and isinstance(t.comparators[0], ast.Name) and t.comparators[0].id == _d
        mentions = lambda t, _b=bint_p: isinstance(t, ast.Compare) and len(t.ops) == 1 and isinstance(t.ops[0], ast.In) and isinstance(t.left, ast.Name) and t.left.id == _b \
            and isinstance(t.comparators[0], ast.Attribute) and t.comparators[0].attr == "inputs"
        # the operand is the log-density component unpacked by the loop header (second element of the pair)
        dens = set()
        for n in walk_no_nested(f.node):
            if isinstance(n, ast.For):
                for x in ast.walk(n.target):
                    if isinstance(x, ast.Tuple) and len(x.elts) == 2 and all(isinstance(e, ast.Name) for e in x.elts) and not any(isinstance(e, ast.Tuple) for e in x.elts):
                        dens = {x.elts[1].id}
        sites.append((f, None, dens or {"log_density"}, set(), {is_diag}, {mentions}, ["funsor.ops.builtin.add"]))
    # the count that compensates ranges over exactly the set of dropped variables (the local the branch condition tests)
    for f_, names_pred in count_sets:
        cond_names = {n.targets[0].id for n in walk_no_nested(f_.node) if isinstance(n, ast.Assign) and len(n.targets) == 1 and isinstance(n.targets[0], ast.Name)
                      and names_pred(ast.Name(id=n.targets[0].id, ctx=ast.Load()))}
        for n in walk_no_nested(f_.node):
            if isinstance(n, ast.Assign) and len(n.targets) == 1 and isinstance(n.targets[0], ast.Name):
                comps = [x for x in ast.walk(n.value) if isinstance(x, (ast.ListComp, ast.GeneratorExp)) and len(x.generators) == 1
                         and any(isinstance(y, ast.Attribute) and y.attr in ("size", "num_elements") for y in ast.walk(x.elt))]
                for cp in comps:
                    it = cp.generators[0].iter
                    construct = f"{f_.fq}::count over {norm(it)}"
                    if isinstance(it, ast.Name) and it.id in cond_names:
                        col.ok(construct, "the compensating count ranges over the dropped variables", f_.loc(n))
                    elif isinstance(it, ast.Name) and it.id in f_.params:
                        col.violation(construct, f"the compensating count ranges over `{it.id}` (all reduced variables) instead of the dropped ones "
                                      f"({', '.join(sorted(cond_names))}): variables that the operand does mention are counted twice", f_.loc(n))
                    else:
                        col.unresolved(construct, "count iterates an unrecognised set", f_.loc(n))
    col.cur.analysed["sites"] = [s[0].fq for s in sites]
    for f, opparam, operands, counts, at, af, candidates in sites:
        for ofq in candidates:
            o = cat.ops[ofq]
            ab = axioms.identify(cat, o)
            want = axioms.power_of(ab) if ab else None
            construct = f"{f.fq}::reduction op {o.var}"
            if f.name == "eager_independent_delta":
                # the op is fixed (ops.add) in the sibling branch `.reduce(ops.add, bint_var)`; analyse the else branch
                spec = _DeltaSpec(prog, refs, cat, f, {}, operands, counts, at, af)
            else:
                spec = OpSpec(prog, refs, cat, f, {opparam: ofq}, operands, counts, at, af)
            outs = spec.run()
            if not outs:
                col.unresolved(construct, "no outcome derived", f.loc())
                continue
            for out in outs:
                if out[0] == "raise":
                    col.ok(construct + "::declines", f"declines ({out[1][:60]})", f.loc(), nontrivial=False)
                    continue
                if out[0] == "unknown":
                    col.unresolved(construct, out[1], f.loc())
                    continue
                comps = out[1]
                if want is None:
                    col.unresolved(construct, f"no power law known for {ab}; the code applies {comps}", f.loc())
                    continue
                if want[0] == "op":
                    ok = comps == ((want[1], False),)
                    exp = f"{want[1]}(x, n)"
                elif want[0] == "add_log":
                    ok = comps == (("ADD", True),)
                    exp = "x + log n"
                else:
                    ok = comps == ()
                    exp = "x (idempotent)"
                got = " then ".join(f"{c[0]}(x, {'log n' if c[1] is True else 'n' if c[1] is False else c[1]})" for c in comps) or "x unchanged"
                col.check(ok, construct, f"{ab}-reduction over n unrelated points gives {exp}",
                          f"reducing with {o.var} ({ab}) over n points of variables the operand does not depend on must give {exp}, but the code computes {got}", f.loc())


class _DeltaSpec(OpSpec):
    """eager_independent_delta: the loop over delta.terms binds (name, (point, log_density)); analyse the loop body once."""

    def run(self):
        for st in self.f.body:
            if isinstance(st, ast.For):
                env = dict(self.env0)
                self.block(list(st.body), env)
        # keep only outcomes that reached the operand assignment
        return self.outcomes

    def block(self, stmts, env):
        # `log_density = log_density * size` assignment is the compensation; report it at the assignment
        for i, st in enumerate(stmts):
            if isinstance(st, ast.If):
                c = self.cond(st.test, env)
                if c is True:
                    return self.block(list(st.body) + stmts[i + 1:], env)
                if c is False:
                    return self.block(list(st.orelse) + stmts[i + 1:], env)
                self.block(list(st.body) + stmts[i + 1:], dict(env))
                self.block(list(st.orelse) + stmts[i + 1:], dict(env))
                return True
            if isinstance(st, ast.Assign) and len(st.targets) == 1 and isinstance(st.targets[0], ast.Name) and st.targets[0].id in self.operand_names:
                v = self.ev(st.value, env)
                if v and v[0] == "operand":
                    self.finish(("comp", v[1]))
                    return True
                self.finish(("unknown", f"operand assigned {norm(st.value)}"))
                return True
        return False


# ---------------------------------------------------------------------- R01.1


def r_dunders(prog: Program, col: Collector, refs: Refs, cat: Catalogue, rule: str):
    col.rule(rule, "operator dunders and named methods of Funsor build the op the Python data model / the method name says", floor=50)
    base = prog.classes.get("funsor.terms.Funsor")
    if base is None:
        raise AnalysisError("Funsor not found")
    for name, m in sorted(base.methods.items()):
        body = [s for s in m.body if not (isinstance(s, ast.Expr) and isinstance(s.value, ast.Constant))]
        if len(body) != 1 or not isinstance(body[0], ast.Return) or not isinstance(body[0].value, ast.Call):
            continue
        c = body[0].value
        ctor = refs.resolve(c.func)
        if ctor not in ("funsor.terms.Unary", "funsor.terms.Binary"):
            continue
        selfn = m.positional[0]
        construct = f"{m.fq}"
        oparg = c.args[0]
        is_dunder = name.startswith("__") and name.endswith("__")
        stem = name.strip("_")
        if isinstance(oparg, ast.Call):
            # ops.SumOp(axis, keepdims): parametrised reduction
            ref = cat.op_class_ref(refs.resolve(oparg.func))
            if not ref or not ref.startswith("op:"):
                col.unresolved(construct, f"op class {norm(oparg.func)} not resolved", m.loc())
                continue
            o = cat.ops[ref[3:]]
            expected = {"max": "amax", "min": "amin"}.get(name, name)
            passed = [norm(a) for a in oparg.args]
            ok = o.name == expected and passed == o.params[: len(passed)] and passed == m.positional[1:1 + len(passed)] or \
                (o.name == expected and len(passed) == len(o.params) == 1)
            col.check(ok, construct, f"{name}() builds {o.class_name}({', '.join(o.params)}) with its own parameters in the op's declared order",
                      f"{name}({', '.join(m.positional[1:])}) builds {norm(oparg)} but the op `{o.name}` declares parameters {o.params} in that order "
                      f"(expected op `{expected}`): the parameters are bound to the wrong names or the wrong op is built", m.loc())
            continue
        ab = _abs(cat, m.module, oparg)
        o = cat.resolve_op(m.module, oparg)
        if ab is None or o is None:
            col.unresolved(construct, f"op {norm(oparg)} not resolved to an abstract operation", m.loc())
            continue
        if ctor.endswith("Unary"):
            want = axioms.DUNDER_UNARY.get(stem) if is_dunder else None
            if is_dunder and want is None:
                continue
            if is_dunder:
                ok = ab == want and len(c.args) == 2 and norm(c.args[1]) == selfn
                col.check(ok, construct, f"{name} builds Unary({want}, self)", f"{name} builds {norm(c)}: the data model assigns {want} to this operator", m.loc())
            else:
                ok = o.var == name and len(c.args) == 2 and norm(c.args[1]) == selfn
                col.check(ok, construct, f"{name}() builds Unary(ops.{name}, self)", f"method {name}() builds {norm(c)}: a different op than its name", m.loc())
            continue
        # Binary
        reflected = is_dunder and stem.startswith("r") and stem[1:] in axioms.DUNDER_BINARY and stem not in axioms.DUNDER_BINARY
        key = stem[1:] if reflected else stem
        want = axioms.DUNDER_BINARY.get(key)
        if want is None:
            continue
        if len(c.args) != 3:
            col.violation(construct, f"{name} builds {norm(c)}", m.loc())
            continue
        other = m.positional[1] if len(m.positional) > 1 else None

        def is_self(e):
            return isinstance(e, ast.Name) and e.id == selfn

        def is_other(e):
            return (isinstance(e, ast.Name) and e.id == other) or (isinstance(e, ast.Call) and len(e.args) >= 1 and isinstance(e.args[0], ast.Name) and e.args[0].id == other)

        a, b = c.args[1], c.args[2]
        fwd = is_self(a) and is_other(b)
        swp = is_other(a) and is_self(b)
        if ab != want:
            col.violation(construct, f"{name} builds {o.var} ({ab}); the Python data model assigns {want} to this operator", m.loc())
        elif reflected:
            ok = swp or (fwd and want in axioms.COMMUTATIVE)
            col.check(ok, construct, f"reflected {want}: operands {'swapped' if swp else 'kept (commutative)'}",
                      f"{name} must compute other {key} self, but builds {norm(c)} with the operands in forward order ({want} is not commutative)", m.loc())
        else:
            ok = fwd or (swp and want in axioms.COMMUTATIVE)
            col.check(ok, construct, f"{want}(self, other)", f"{name} must compute self {key} other but builds {norm(c)}", m.loc())


# ---------------------------------------------------------------------- R01.3


def r_syntax_tables(prog: Program, col: Collector, refs: Refs, cat: Catalogue, rule: str):
    col.rule(rule, "the operator tables of funsor.syntax agree with the Python data model row by row", floor=20)
    mod = prog.modules.get("funsor.syntax")
    if mod is None:
        raise AnalysisError("funsor.syntax not found")
    for tname, sym, astmap in (("INFIX_OPERATORS", axioms.SYMBOL, axioms.AST_BINOP), ("PREFIX_OPERATORS", axioms.UNARY_SYMBOL, axioms.AST_UNARYOP)):
        lk = prog.lookup(f"funsor.syntax.{tname}")
        if not lk or lk[0] != "value" or not isinstance(lk[2], (ast.Tuple, ast.List)):
            raise AnalysisError(f"funsor.syntax.{tname} not found as a literal sequence")
        for row in lk[2].elts:
            if not (isinstance(row, ast.Tuple) and len(row.elts) == 3):
                col.unresolved(f"funsor.syntax::{tname}::{norm(row)}", "row is not a (symbol, op, ast class) triple", mod.loc(row))
                continue
            s, o, n = row.elts
            sv = const_value(s)
            ab = _abs(cat, mod, o)
            nv = n.attr if isinstance(n, ast.Attribute) else norm(n)
            ok = isinstance(sv, str) and ab is not None and sym.get(sv) == ab and astmap.get(nv) == ab
            col.check(ok, f"funsor.syntax::{tname}[{sv!r}]", f"{sv!r} <-> {ab} <-> ast.{nv}",
                      f"row ({sv!r}, {norm(o)}, ast.{nv}) is inconsistent: symbol means {sym.get(sv)}, op is {ab}, node means {astmap.get(nv)}", mod.loc(row))


# ---------------------------------------------------------------------- R02.1


def r_unit_elimination(prog: Program, col: Collector, refs: Refs, cat: Catalogue, rule: str):
    col.rule(rule, "unit elimination uses the unit of the very op it rewrites under", floor=2)
    n_sites = 0
    for r in cat.registrations:
        if r.target is None or r.registry not in ("funsor.interpretations.normalize",):
            continue
        f = r.target
        subs = [n for n in walk_no_nested(f.node) if isinstance(n, ast.Subscript) and refs.resolve(n.value) == T + "UNITS"]
        if not subs:
            continue
        # comparisons `t.data == UNITS[e]`
        cmps = [c for c in walk_no_nested(f.node) if isinstance(c, ast.Compare) and any(s in list(ast.walk(c)) for s in subs)]
        if not cmps:
            continue
        n_sites += 1
        keys = {norm(s.slice) for s in subs}
        construct = f"{f.fq}::UNITS[{', '.join(sorted(keys))}]"
        if len(keys) != 1:
            col.violation(construct, f"terms are compared with the units of different ops {sorted(keys)}", f.loc(subs[0]))
            continue
        key = keys.pop()
        # the enclosing if
        ifs = [a for a in f.module.ancestors(cmps[0]) if isinstance(a, ast.If)]
        guard_ok = any(f"{key} in ops.UNITS" in norm(i.test) or f"{key} in UNITS" in norm(i.test) for i in ifs)
        rebuilt = []
        for i in ifs[:1]:
            for n in ast.walk(i):
                if isinstance(n, ast.Call) and refs.resolve(n.func) == "funsor.cnf.Contraction" and len(n.args) >= 2:
                    rebuilt.append(n)
        same_op = bool(rebuilt) and all(norm(c.args[1]) == key for c in rebuilt)
        # the key must not be re-bound between the test and the rebuild
        redefs = [n for i in ifs[:1] for n in ast.walk(i) if isinstance(n, ast.Name) and n.id == key and isinstance(n.ctx, ast.Store)]
        col.check(guard_ok and same_op and not redefs, construct, f"terms equal to UNITS[{key}] are dropped from a contraction whose bin_op is {key}",
                  f"terms equal to the unit of `{key}` are dropped but the contraction is rebuilt with bin_op `{norm(rebuilt[0].args[1]) if rebuilt else '?'}`"
                  f"{'' if guard_ok else ' (and without testing that the op has a unit)'}: x op unit(other op) is not x", f.loc(subs[0]))
        # every term that is REMOVED is a unit: the filter that builds the remaining terms keeps a term unless it compares equal to UNITS[key]
        for i in ifs[:1]:
            for comp in [n for n in ast.walk(i) if isinstance(n, (ast.GeneratorExp, ast.ListComp)) and n.generators[0].ifs]:
                g = comp.generators[0]
                if not (isinstance(comp.elt, ast.Name) and isinstance(g.target, ast.Name) and comp.elt.id == g.target.id):
                    continue
                # a local bound once to UNITS[key] stands for the unit
                aliases = {a.targets[0].id for a in walk_no_nested(f.node) if isinstance(a, ast.Assign) and len(a.targets) == 1
                           and isinstance(a.targets[0], ast.Name) and a.value in subs}
                aliases = {a for a in aliases if sum(1 for n in walk_no_nested(f.node) if isinstance(n, ast.Name) and n.id == a and isinstance(n.ctx, ast.Store)) == 1}
                tests_unit = any(any(s_ in list(ast.walk(c)) for s_ in subs) or any(isinstance(n, ast.Name) and n.id in aliases for n in ast.walk(c)) for c in g.ifs)
                col.check(tests_unit, construct + "::removed terms are units", "a term is dropped only if it equals the unit",
                          f"the filter `{' and '.join(norm(c) for c in g.ifs)[:80]}` that drops terms does not compare them with UNITS[{key}]: once some unit is present, "
                          "terms that are not the unit (any constant) are dropped from the product as well", f.loc(comp))
        keeps_one = any(isinstance(n, ast.If) and isinstance(n.test, ast.UnaryOp) and isinstance(n.test.op, ast.Not) for i in ifs[:1] for n in ast.walk(i) if n is not i)
        col.check(keeps_one, construct + "::keeps a term", "when every term is a unit one is kept", "when all terms are units the contraction is rebuilt with no terms", f.loc(subs[0]))
        # the comparison is on Number data only (units are scalars)
        col.cur.analysed["sites"] = n_sites


# ---------------------------------------------------------------------- R02.2


def r_inverse_rules(prog: Program, col: Collector, refs: Refs, cat: Catalogue, rule: str):
    col.rule(rule, "inverse-introducing and involution rewrites agree with the algebra of the op they are registered for", floor=8)
    for r in cat.registrations:
        if r.target is None or r.registry != "funsor.interpretations.normalize" or len(r.pattern) < 3:
            continue
        head = refs.resolve(r.pattern[0])
        f = r.target
        body = [s for s in f.body if not (isinstance(s, ast.Expr) and isinstance(s.value, ast.Constant))]
        if len(body) != 1 or not isinstance(body[0], ast.Return):
            continue
        rv = body[0].value
        pab = _class_abs(cat, refs, r.pattern[1])
        construct = f"{f.fq}::register({', '.join(norm(p) for p in r.pattern)})"
        if head == "funsor.terms.Binary" and pab is not None and len(f.positional) == 3 and isinstance(rv, ast.BinOp):
            lhs, rhs = f.positional[1], f.positional[2]
            A = axioms.AST_BINOP.get(type(rv.op).__name__)
            right = rv.right
            U = None
            if isinstance(right, ast.UnaryOp):
                U = axioms.AST_UNARYOP.get(type(right.op).__name__)
                inner = right.operand
            elif isinstance(right, ast.Call) and refs.resolve(right.func) == "funsor.terms.Unary" and len(right.args) == 2:
                U = _abs(cat, f.module, right.args[0])
                inner = right.args[1]
            else:
                continue
            ok = (axioms.BINARY_INVERSE.get(A) == pab and axioms.UNARY_INVERSE.get(A) == U and norm(rv.left) == lhs and norm(inner) == rhs)
            col.check(ok, construct, f"x {pab} y  ==  x {A} {U}(y)",
                      f"rule registered for {pab} rewrites to `{norm(rv)}` = {lhs if norm(rv.left) == lhs else norm(rv.left)} {A} {U}({norm(inner)}): that is not {lhs} {pab} {rhs} "
                      f"(inverse of {A} is {axioms.BINARY_INVERSE.get(A)}, its unary inverse {axioms.UNARY_INVERSE.get(A)})", r.loc)
        elif head == "funsor.terms.Unary" and pab is not None and isinstance(r.pattern[2], ast.Subscript) and norm(r.pattern[2].value) == "Unary":
            # Unary[G, Funsor] -> returns arg.arg
            inner_t = r.pattern[2].slice
            g = _class_abs(cat, refs, inner_t.elts[0]) if isinstance(inner_t, ast.Tuple) else None
            arg = f.positional[1]
            returns_inner = norm(rv) == f"{arg}.arg"
            if g is None or not returns_inner:
                continue
            col.check((pab, g) in axioms.INVERSE_FUNCTIONS, construct, f"{pab}({g}(x)) == x", f"the rule cancels {pab}({g}(x)) to x, but {pab} is not the inverse of {g}", r.loc)
        elif head == "funsor.terms.Unary" and pab is not None and isinstance(r.pattern[2], ast.Subscript) and norm(r.pattern[2].value) == "Contraction":
            sl = r.pattern[2].slice
            if isinstance(sl, ast.Tuple) and len(sl.elts) >= 2:
                red, binop = _class_abs(cat, refs, sl.elts[0]), _class_abs(cat, refs, sl.elts[1])
                distributes = isinstance(rv, ast.Call) and refs.resolve(rv.func) == "funsor.cnf.Contraction" and any(
                    isinstance(a, ast.Starred) and isinstance(a.value, ast.GeneratorExp) and isinstance(a.value.elt, ast.Call) and norm(a.value.elt.func) == f.positional[0]
                    for a in rv.args)
                if not distributes or binop is None:
                    continue
                null_red = norm(sl.elts[0]).endswith("NullOp")
                ok = axioms.UNARY_INVERSE.get(binop) == pab and null_red
                col.check(ok, construct, f"{pab} distributes over a pure {binop}-product: u(a {binop} b) == u(a) {binop} u(b)",
                          f"{pab} is pushed through every term of a ({norm(sl.elts[0])}, {binop}) contraction; that is only valid for the unary inverse of {binop} "
                          f"({axioms.UNARY_INVERSE.get(binop)}) on a contraction without reduction", r.loc)
    # NEG x == x * -1
    for r in cat.registrations:
        if r.target is None or r.registry != "funsor.interpretations.normalize" or len(r.pattern) < 3:
            continue
        f = r.target
        body = [s for s in f.body if not (isinstance(s, ast.Expr) and isinstance(s.value, ast.Constant))]
        if refs.resolve(r.pattern[0]) == "funsor.terms.Unary" and len(body) == 1 and isinstance(body[0], ast.Return) and isinstance(body[0].value, ast.BinOp) \
                and isinstance(body[0].value.right, (ast.UnaryOp, ast.Constant)) and const_value(body[0].value.right) is not NotImplemented:
            pab = _class_abs(cat, refs, r.pattern[1])
            A = axioms.AST_BINOP.get(type(body[0].value.op).__name__)
            c = const_value(body[0].value.right)
            ok = (pab, A, c) in {("NEG", "MUL", -1), ("POS", "MUL", 1), ("NEG", "MUL", -1.0)}
            col.check(ok, f"{f.fq}::register({', '.join(norm(p) for p in r.pattern)})", f"{pab}(x) == x {A} {c}", f"{pab}(x) is rewritten to x {A} {c}", r.loc)


# ---------------------------------------------------------------------- R02.3 = R08.2


def _contraction_calls(e: ast.AST, refs: Refs) -> List[ast.Call]:
    return [n for n in ast.walk(e) if isinstance(n, ast.Call) and refs.resolve(n.func) == "funsor.cnf.Contraction"]


def _reaching(cfg, defs, use_stmt):
    """Definitions (Assign statements of one name) from which `use_stmt` is reachable without passing another definition."""
    import networkx as nx
    use_nodes = [n.idx for n in cfg.nodes_for(use_stmt)]
    def_nodes = {id(d): [n.idx for n in cfg.nodes_for(d)] for d in defs}
    out = []
    for d in defs:
        others = {i for k, v in def_nodes.items() if k != id(d) for i in v}
        g = cfg.g.subgraph([n for n in cfg.g.nodes if n not in others])
        if any(a in g and b in g and (a == b or nx.has_path(g, a, b)) for a in def_nodes[id(d)] for b in use_nodes):
            out.append(d)
    return out


def reduces_fresh_foreign(exprs, f: Func) -> bool:
    """Does some `.reduce(op, ...)` in the expressions use an op other than the rule's own reduction op parameter?"""
    for e in exprs:
        for x in ast.walk(e):
            if isinstance(x, ast.Call) and isinstance(x.func, ast.Attribute) and x.func.attr == "reduce" and x.args:
                if not (isinstance(x.args[0], ast.Name) and x.args[0].id == f.positional[0]):
                    return True
    return False


def r_distributive_guards(prog: Program, col: Collector, refs: Refs, cat: Catalogue, rule: str):
    col.rule(rule, "distributing / re-bracketing rewrites are guarded by a DISTRIBUTIVE_OPS test on the pair they rely on", floor=3)
    table = T + "DISTRIBUTIVE_OPS"
    regs = [r for r in cat.registrations if r.target is not None and r.registry in ("funsor.optimizer.unfold", "funsor.optimizer.optimize")
            and r.pattern and refs.resolve(r.pattern[0]) == "funsor.cnf.Contraction"]
    seen = set()
    for r in regs:
        f = r.target
        if f.fq in seen:
            continue
        seen.add(f.fq)
        mod = f.module
        local_defs: Dict[str, List[ast.AST]] = {}
        for n in walk_no_nested(f.node):
            if isinstance(n, ast.Assign) and len(n.targets) == 1 and isinstance(n.targets[0], ast.Name):
                local_defs.setdefault(n.targets[0].id, []).append(n)
        cfg = CFG(f.node)
        # early `if <pair> not in DISTRIBUTIVE_OPS: return None` guards at function level
        early = []
        for st in f.body:
            if isinstance(st, ast.If) and isinstance(st.test, ast.Compare) and isinstance(st.test.ops[0], ast.NotIn) and refs.resolve(st.test.comparators[0]) == table \
                    and isinstance(st.test.left, ast.Tuple) and any(isinstance(s, ast.Return) for s in st.body):
                early.append(st)
        for ret in [n for n in walk_no_nested(f.node) if isinstance(n, ast.Return) and n.value is not None]:
            # expression including the definitions of local names it uses (one level: new_terms, path_end)
            def nearest(name, before, _ret=ret):
                # the definitions of the local that reach this return (CFG reaching definitions)
                return _reaching(cfg, local_defs.get(name, []), _ret)

            exprs = [ret.value]
            seen_defs = set()
            work = [ret.value]
            while work:
                e0 = work.pop()
                for x in ast.walk(e0):
                    if isinstance(x, ast.Name) and x.id in local_defs:
                        for d in nearest(x.id, ret.lineno):
                            if id(d) not in seen_defs and len(seen_defs) < 12:
                                seen_defs.add(id(d))
                                exprs.append(d.value)
                                work.append(d.value)
            calls = [c for e in exprs for c in _contraction_calls(e, refs)]
            if not calls:
                continue
            nested = []
            for c in calls:
                inner = [k for a in c.args for k in _contraction_calls(a, refs)]
                for a in c.args:
                    for x in ast.walk(a):
                        if isinstance(x, ast.Name) and x.id in local_defs:
                            for d in nearest(x.id, ret.lineno):
                                inner += _contraction_calls(d.value, refs)
                if inner:
                    nested.append((c, inner))
            reduces_fresh = any(isinstance(x, ast.Call) and isinstance(x.func, ast.Attribute) and x.func.attr == "reduce" and _contraction_calls(x.func.value, refs)
                                for e in exprs for x in ast.walk(e))
            # a contraction accumulated through locals (operands popped from / appended to a work list): re-bracketing
            path_built = not _contraction_calls(ret.value, refs) and any(_contraction_calls(e, refs) for e in exprs[1:]) \
                and any(isinstance(n, (ast.For, ast.While)) for n in walk_no_nested(f.node))
            if not nested and not reduces_fresh and not path_built:
                continue  # flat fusion or plain rebuild
            construct = f"{f.fq}::{norm(ret)}"
            guards = []
            for anc in mod.ancestors(ret):
                if anc is f.node:
                    break
                if isinstance(anc, ast.If) and any(ret is x or any(ret is y for y in ast.walk(x)) for x in anc.body):
                    for c in ast.walk(anc.test):
                        if isinstance(c, ast.Compare) and isinstance(c.ops[0], ast.In) and refs.resolve(c.comparators[0]) == table and isinstance(c.left, ast.Tuple) and len(c.left.elts) == 2:
                            guards.append(c.left)
            for st in early:
                if st.lineno < ret.lineno:
                    guards.append(st.test.left)
            own = set(f.positional[:2])

            def own_op(e):
                if isinstance(e, ast.IfExp):
                    return own_op(e.body) and own_op(e.orelse)
                return (isinstance(e, ast.Name) and e.id in own) or refs.resolve(e) == "funsor.ops.op.null" or norm(e) == "ops.null"

            if all(len(c.args) >= 2 and own_op(c.args[0]) and own_op(c.args[1]) and norm(c.args[1]) == f.positional[1] for c in calls) \
                    and not reduces_fresh_foreign(exprs, f):
                col.ok(construct, "re-brackets under the contraction's own (sum, product) pair only: covered by the supported-semiring premise of the term being rewritten", f.loc(ret))
                continue
            # distributing over the terms of an inner contraction v (a comprehension over v.terms) is only valid when v has no
            # reduction of its own: a * max_j(b + c) is not max_j(a*b) + max_j(a*c)
            inner_terms = [x.value.id for e in exprs for x in ast.walk(e) if isinstance(x, ast.Attribute) and x.attr == "terms" and isinstance(x.value, ast.Name)
                           and x.value.id not in f.positional and any(isinstance(g, (ast.GeneratorExp, ast.ListComp)) and norm(g.generators[0].iter) == norm(x) for g in ast.walk(e))]
            if inner_terms and guards:
                v_ = inner_terms[0]
                no_red = False
                for anc in mod.ancestors(ret):
                    if anc is f.node:
                        break
                    if isinstance(anc, ast.If) and any(ret is y for b_ in anc.body for y in ast.walk(b_)):
                        conj = anc.test.values if isinstance(anc.test, ast.BoolOp) and isinstance(anc.test.op, ast.And) else [anc.test]
                        for c_ in conj:
                            if isinstance(c_, ast.Compare) and len(c_.ops) == 1 and isinstance(c_.ops[0], ast.Is) and {norm(c_.left), norm(c_.comparators[0])} & {f"{v_}.red_op"} \
                                    and {norm(c_.left), norm(c_.comparators[0])} & {"ops.null", "null"}:
                                no_red = True
                if not no_red:
                    col.violation(construct, f"the product is distributed over the terms of `{v_}` without requiring `{v_}.red_op is ops.null`: an inner contraction that reduces "
                                  f"(a * max_j(b + c)) is not the sum of the distributed terms", f.loc(ret))
                    continue
            if not guards:
                col.violation(construct, "a contraction is re-nested / pushed under a reduction without testing that the op pair is declared distributive: "
                              "for a non-distributive pair the rewritten term has a different value", f.loc(ret))
                continue
            # orientation: guard (sum, prod) must be the pair the rewrite relies on
            ok_pair = False
            for g in guards:
                gs, gp = norm(g.elts[0]), norm(g.elts[1])
                for c in calls:
                    if len(c.args) >= 2:
                        a0, a1 = c.args[0], c.args[1]
                        a0t = norm(a0.body) if isinstance(a0, ast.IfExp) else norm(a0)
                        if a0t == gs and norm(a1) == gp:
                            ok_pair = True
                for outer, inner in nested:
                    if len(outer.args) >= 2 and norm(outer.args[1]) == gs and any(len(k.args) >= 2 and norm(k.args[1]) == gp for k in inner):
                        ok_pair = True
            col.check(ok_pair, construct, f"guarded by ({', '.join(norm(e) for e in guards[0].elts)}) in DISTRIBUTIVE_OPS, the pair the rewrite uses",
                      f"the rewrite is guarded by ({', '.join(norm(e) for e in guards[0].elts)}) in DISTRIBUTIVE_OPS, but the contractions it builds use a different (sum, product) pair: "
                      "the guard does not justify this re-bracketing", f.loc(ret))
    # the constructor asserts the same membership
    ci = require_func(prog, "funsor.cnf::Contraction.__init__")
    asserts = [n for n in walk_no_nested(ci.node) if isinstance(n, ast.Assert) and any(refs.resolve(x) == table for x in ast.walk(n.test) if isinstance(x, (ast.Name, ast.Attribute)))]
    ok = False
    for a in asserts:
        t = a.test
        if isinstance(t, ast.Compare) and isinstance(t.ops[0], ast.In) and isinstance(t.left, ast.Tuple) and [norm(e) for e in t.left.elts] == ci.positional[1:3]:
            ok = True
    if ok:
        col.ok(f"{ci.fq}::assert (red_op, bin_op) in DISTRIBUTIVE_OPS", "a contraction with both ops requires a declared distributive pair", ci.loc())
    else:
        # not a violation of the property as stated: only contractions over an undeclared (unsupported) pair are affected
        col.note(f"{ci.fq}::assert (red_op, bin_op) in DISTRIBUTIVE_OPS", "Contraction.__init__ does not assert (red_op, bin_op) in DISTRIBUTIVE_OPS: "
                 "contractions over an unsupported pair are evaluated instead of rejected (outside the premise of C02/C08)", ci.loc())


# ---------------------------------------------------------------------- R02.5


def r_seeds(prog: Program, col: Collector, refs: Refs, cat: Catalogue, rule: str):
    col.rule(rule, "accumulator seeds are the unit of the accumulating op", floor=3)
    for mod, node in cat.table_reads(T + "UNITS"):
        if not isinstance(node, ast.Subscript):
            continue
        fnode = mod.enclosing_function(node)
        f = prog.func_of(fnode) if fnode is not None else None
        if f is None:
            continue
        key = norm(node.slice)
        construct = f"{f.fq}::UNITS[{key}]"
        # find the consumer of the seed
        consumer = None
        cur = node
        for anc in mod.ancestors(node):
            if isinstance(anc, ast.Call):
                callee = refs.resolve(anc.func)
                if callee == "functools.reduce" and len(anc.args) == 3 and any(cur is x for x in ast.walk(anc.args[2])):
                    consumer = ("fold", norm(anc.args[0]))
                    break
                if callee == "funsor.ops.array.new_full":
                    consumer = ("fill", None)
                    break
            if isinstance(anc, ast.stmt):
                break
        if consumer and consumer[0] == "fold":
            col.check(consumer[1] == key, construct, f"fold with {key} seeded by the unit of {key}",
                      f"a fold with `{consumer[1]}` is seeded with the unit of `{key}`: the seed changes the result", mod.loc(node))
        elif consumer and consumer[0] == "fill":
            # destination of a scatter for op `key`: key must be the rule's op parameter typed by the Scatter pattern
            is_param = key in f.positional
            typed = False
            for r in cat.registrations:
                if r.target is f and r.pattern and refs.resolve(r.pattern[0]) == "funsor.terms.Scatter":
                    pats = r.pattern[1:]
                    params = f.positional
                    if len(params) == len(pats) and key in params:
                        typed = params.index(key) == 0
            col.check(is_param and typed, construct, "scatter destination is filled with the unit of the Scatter's own op",
                      f"the scatter destination is filled with UNITS[{key}] which is not the op parameter of the Scatter rule", mod.loc(node))
        else:
            col.note(construct, "seed consumer is judged elsewhere (adjoint: R11.3; normalize: R02.1)", mod.loc(node))
    for mod, node in cat.table_reads(T + "PRODUCT_TO_POWER"):
        if isinstance(node, ast.Subscript):
            fnode = mod.enclosing_function(node)
            f = prog.func_of(fnode) if fnode is not None else None
            if f is None or f.fq.endswith("_reduce_unrelated_vars"):
                continue
            key = norm(node.slice)
            st = node
            while not isinstance(st, ast.stmt):
                st = mod.parent.get(st)
            ok = isinstance(st, ast.Assign) and isinstance(st.targets[0], ast.Name) and "pow" in st.targets[0].id and key in f.params and "prod" in key
            col.check(ok, f"{f.fq}::PRODUCT_TO_POWER[{key}]", "plate scales act as exponents of the plate's product op",
                      f"`{norm(st)}`: the power op is not derived from the product op parameter", mod.loc(node))


# ---------------------------------------------------------------------- R08.3 / R08.4


def r_einsum_backend(prog: Program, col: Collector, refs: Refs, cat: Catalogue, rule: str):
    col.rule(rule, "the einsum backend chosen by an eager Contraction rule implements the semiring of the rule's pattern", floor=2)
    tables = {"funsor.cnf.BACKEND_TO_EINSUM_BACKEND": ("ADD", "MUL"), "funsor.cnf.BACKEND_TO_LOGSUMEXP_BACKEND": ("LOGADDEXP", "ADD"), "funsor.cnf.BACKEND_TO_MAP_BACKEND": ("MAX", "ADD")}
    for r in cat.registrations:
        if r.target is None or not r.pattern or refs.resolve(r.pattern[0]) != "funsor.cnf.Contraction" or len(r.pattern) < 3:
            continue
        f = r.target
        used = [refs.resolve(n) for n in walk_no_nested(f.node) if isinstance(n, (ast.Name, ast.Attribute)) and refs.resolve(n) in tables]
        if not used:
            continue
        pr, pb = _class_abs(cat, refs, r.pattern[1]), _class_abs(cat, refs, r.pattern[2])
        for t in set(used):
            col.check(tables[t] == (pr, pb), f"{f.fq}::register({norm(r.pattern[1])}, {norm(r.pattern[2])})", f"({pr}, {pb}) contraction evaluated with a {tables[t]} backend",
                      f"rule registered for the ({pr}, {pb}) semiring selects its backend from {t.rsplit('.', 1)[-1]}, whose backends implement {tables[t]}", r.loc)


def r_apply_optimizer(prog: Program, col: Collector, refs: Refs, cat: Catalogue, rule: str):
    col.rule(rule, "apply_optimizer unfolds, then optimizes layered over the current interpretation", floor=2)
    f = require_func(prog, "funsor.optimizer::apply_optimizer")
    withs = [s for s in f.body if isinstance(s, ast.With)]
    ok = len(withs) == 2
    first_ok = second_ok = chain_ok = False
    if ok:
        w1, w2 = withs
        first_ok = refs.resolve(w1.items[0].context_expr) == "funsor.optimizer.unfold"
        c = w2.items[0].context_expr
        second_ok = isinstance(c, ast.Call) and refs.resolve(c.func) == "funsor.interpretations.PrioritizedInterpretation" and len(c.args) == 2 \
            and refs.resolve(c.args[0]) == "funsor.optimizer.optimize_base" and isinstance(c.args[1], ast.Call) and refs.resolve(c.args[1].func) == "funsor.interpreter.get_interpretation"
        a1 = [n for n in ast.walk(w1) if isinstance(n, ast.Assign) and isinstance(n.value, ast.Call) and (refs.resolve(n.value.func) or "").endswith("reinterpret")]
        r2 = [n for n in ast.walk(w2) if isinstance(n, ast.Return) and isinstance(n.value, ast.Call) and (refs.resolve(n.value.func) or "").endswith("reinterpret")]
        chain_ok = bool(a1) and bool(r2) and norm(a1[0].value.args[0]) == f.positional[0] and norm(r2[0].value.args[0]) == norm(a1[0].targets[0])
    col.check(ok and first_ok and chain_ok, f"{f.fq}::unfold then optimize", "the argument is reinterpreted under unfold and the result under the optimizer",
              "apply_optimizer does not reinterpret x under `unfold` and then that result under the optimizer", f.loc())
    col.check(ok and second_ok, f"{f.fq}::layered over current", "optimize_base is layered over get_interpretation() (so optimisation results are evaluated by the caller's interpretation)",
              "the optimizer pass is not PrioritizedInterpretation(optimize_base, get_interpretation())", f.loc())


# ---------------------------------------------------------------------- R01.5 mean = add-reduction over V scaled by 1/|V|, same V


def r_mean_scale(prog: Program, col: Collector, refs: Refs, cat: Catalogue, rule: str):
    """`mean` is implemented as an add-reduction divided by the number of points.  The set whose sizes make up the count and
    the set passed to the add-reduction must be the same value (same reaching definitions of the same local): restricting one
    of them to the operand's inputs and not the other rescales the mean by the size of variables the operand does not mention."""
    col.rule(rule, "the count that normalises a mean ranges over exactly the variables that are summed", floor=1)
    f = require_func(prog, "funsor.terms::Funsor.reduce")
    cfg = CFG(f.node)
    defs: Dict[str, List[ast.AST]] = {}
    for n in walk_no_nested(f.node):
        if isinstance(n, (ast.Assign, ast.AugAssign)):
            ts = n.targets if isinstance(n, ast.Assign) else [n.target]
            for t in ts:
                if isinstance(t, ast.Name):
                    defs.setdefault(t.id, []).append(n)

    def reach(name, at_stmt):
        ds = list(defs.get(name, []))
        r = _reaching(cfg, ds, at_stmt)
        # the parameter itself reaches when the use is reachable from entry without passing a definition
        import networkx as nx
        blocked = {x.idx for d in ds for x in cfg.nodes_for(d)}
        g = cfg.g.subgraph([x for x in cfg.g.nodes if x not in blocked])
        use = [x.idx for x in cfg.nodes_for(at_stmt)]
        if name in f.params and any(cfg.entry.idx in g and u in g and nx.has_path(g, cfg.entry.idx, u) for u in use):
            r = r + ["<parameter>"]
        return {id(x) if not isinstance(x, str) else x for x in r}

    def size_iter(e) -> Optional[str]:
        """name X such that e contains `<...>.size ... for v in X`"""
        for x in ast.walk(e):
            if isinstance(x, (ast.ListComp, ast.GeneratorExp, ast.SetComp)) and len(x.generators) == 1 and isinstance(x.generators[0].iter, ast.Name):
                if any(isinstance(y, ast.Attribute) and y.attr in ("size", "num_elements") for y in ast.walk(x.elt)):
                    return x.generators[0].iter.id
        return None

    n_sites = 0
    for ret in [n for n in walk_no_nested(f.node) if isinstance(n, ast.Return) and isinstance(n.value, ast.BinOp) and isinstance(n.value.op, (ast.Mult, ast.Div))]:
        sides = [ret.value.left, ret.value.right]
        red = None
        for sd in sides:
            for c in ast.walk(sd):
                if isinstance(c, ast.Call) and isinstance(c.func, ast.Attribute) and c.func.attr == "reduce" and len(c.args) == 2 \
                        and algebra_abs(cat, f.module, c.args[0]) == "ADD" and isinstance(c.args[1], ast.Name):
                    red = (c, sd)
        if red is None:
            continue
        other = [sd for sd in sides if sd is not red[1]][0]
        scale_stmt, x = ret, size_iter(other)
        if x is None and isinstance(other, ast.Name):
            for d in _reaching(cfg, defs.get(other.id, []), ret):
                x = size_iter(d.value)
                scale_stmt = d
        if x is None:
            continue
        n_sites += 1
        y = red[0].args[1].id
        construct = f"{f.fq}::{norm(ret)}"
        if x != y:
            col.unresolved(construct, f"count ranges over `{x}`, sum over `{y}`: different locals, not compared", f.loc(ret))
            continue
        rx, ry = reach(x, scale_stmt), reach(y, ret)
        col.check(rx == ry, construct, f"the count and the add-reduction both range over the same value of `{x}`",
                  f"the count is computed from `{x}` as it was at line {scale_stmt.lineno}, but the add-reduction ranges over `{y}` as re-defined afterwards "
                  "(restricted to the operand's inputs): a mean over variables the operand does not mention is divided by their size", f.loc(scale_stmt))
    if not n_sites:
        col.unresolved(f"{f.fq}::mean", "no `self.reduce(ops.add, V) * scale` site found in Funsor.reduce", f.loc())


def algebra_abs(cat: Catalogue, mod, expr) -> Optional[str]:
    return _abs(cat, mod, expr)


# ---------------------------------------------------------------------- R02.6 push-down of a reduction into some operands


def _distributivity_guards(f: Func, refs: Refs, table: str):
    """(early, enclosing) guards of a function: `if ... (a, b) not in DISTRIBUTIVE_OPS ...: return None` statements at function level
    (the NotIn test may be one conjunct of an `and`), and `if (a, b) in DISTRIBUTIVE_OPS:` tests."""
    early, positive = [], []
    for st in f.body:
        if isinstance(st, ast.If) and any(isinstance(x, ast.Return) for x in st.body) and not st.orelse:
            conj = st.test.values if isinstance(st.test, ast.BoolOp) and isinstance(st.test.op, ast.And) else [st.test]
            for c in conj:
                if isinstance(c, ast.Compare) and len(c.ops) == 1 and isinstance(c.ops[0], ast.NotIn) and refs.resolve(c.comparators[0]) == table \
                        and isinstance(c.left, ast.Tuple) and len(c.left.elts) == 2:
                    early.append((st, c.left))
    for n in walk_no_nested(f.node):
        if isinstance(n, ast.If):
            for c in ast.walk(n.test):
                if isinstance(c, ast.Compare) and len(c.ops) == 1 and isinstance(c.ops[0], ast.In) and refs.resolve(c.comparators[0]) == table \
                        and isinstance(c.left, ast.Tuple) and len(c.left.elts) == 2:
                    positive.append((n, c.left))
    return early, positive


def r_pushdown(prog: Program, col: Collector, refs: Refs, cat: Catalogue, rule: str):
    """A rewrite rule for Contraction(red_op, bin_op, reduced_vars, terms) that removes variables from the outer reduction
    (`reduced_vars -= U`, `reduced_vars - U`) has moved the reduction over U into a subset of the operands:
    sum_U (a * b) -> (sum_U a) * b.  That is the distributive law of (red_op, bin_op); it is false for a pair that is not
    declared distributive - in particular when red_op is bin_op, which the interpretation hands to the rule *before* any
    Contraction is constructed (so the constructor's assertion does not protect it)."""
    col.rule(rule, "rules that move a reduction into some operands of a contraction are guarded by distributivity of (red_op, bin_op)", floor=1)
    table = T + "DISTRIBUTIVE_OPS"
    seen = set()
    for r in cat.registrations:
        f = r.target
        if f is None or f.fq in seen or not r.pattern or isinstance(f.node, ast.Lambda):
            continue
        if not (r.registry.startswith("funsor.interpretations.") or r.registry.startswith("funsor.optimizer.")):
            continue
        if refs.resolve(r.pattern[0]) != "funsor.cnf.Contraction" or len(f.positional) < 3:
            continue
        seen.add(f.fq)
        R, B, V = f.positional[0], f.positional[1], f.positional[2]
        # every registration of this rule pins (red_op, bin_op) to concrete op classes forming a declared distributive pair?
        pinned = True
        for r2 in cat.registrations:
            if r2.target is not f or len(r2.pattern) < 3:
                continue
            refs_ = [cat.op_class_ref(refs.resolve(p)) if isinstance(p, (ast.Name, ast.Attribute)) else None for p in r2.pattern[1:3]]
            if not all(x and x.startswith("op:") for x in refs_):
                pinned = False
                break
            a, b = (axioms.identify(cat, cat.ops[x[3:]]) for x in refs_)
            d = axioms.distributive(a, b) if a and b else None
            if not (d and d[0]):
                pinned = False
        shrinks = []
        for n in walk_no_nested(f.node):
            if isinstance(n, ast.AugAssign) and isinstance(n.op, ast.Sub) and isinstance(n.target, ast.Name) and n.target.id == V:
                shrinks.append(n)
            elif isinstance(n, ast.BinOp) and isinstance(n.op, ast.Sub) and isinstance(n.left, ast.Name) and n.left.id == V:
                shrinks.append(n)
        # `V - union(inputs of ALL operands)` are the variables no operand mentions: reducing over them (at the top, over the whole
        # product) moves nothing into a subset of the operands and needs no distributivity
        terms_p = f.positional[3] if len(f.positional) > 3 else (f.node.args.vararg.arg if f.node.args.vararg else None)

        def over_all_terms(e, depth=0) -> bool:
            if isinstance(e, ast.Starred):
                e = e.value
            if isinstance(e, ast.Name) and depth < 3:
                if e.id == terms_p:
                    return True
                ds = [x.value for x in walk_no_nested(f.node) if isinstance(x, ast.Assign) and len(x.targets) == 1 and isinstance(x.targets[0], ast.Name) and x.targets[0].id == e.id]
                return len(ds) == 1 and over_all_terms(ds[0], depth + 1)
            if isinstance(e, (ast.GeneratorExp, ast.ListComp)) and len(e.generators) == 1 and not e.generators[0].ifs:
                return over_all_terms(e.generators[0].iter, depth + 1)
            return False

        def is_absent_expr(sh) -> bool:
            r_ = sh.right if isinstance(sh, ast.BinOp) else sh.value
            return isinstance(r_, ast.Call) and isinstance(r_.func, ast.Attribute) and r_.func.attr == "union" and len(r_.args) == 1 and over_all_terms(r_.args[0])

        shrinks = [sh for sh in shrinks if not is_absent_expr(sh)]
        if not shrinks:
            continue
        if pinned:
            col.ok(f"{f.fq}::registered for a fixed distributive pair", "the rule is only selected for a concrete (sum, product) pair that distributes", f.loc(), nontrivial=False)
            continue
        early, positive = _distributivity_guards(f, refs, table)
        for sh in shrinks:
            st = sh if isinstance(sh, ast.stmt) else None
            cur = sh
            while st is None:
                cur = f.module.parent.get(cur)
                st = cur if isinstance(cur, ast.stmt) else None
            guards = [g for s_, g in early if s_.lineno < st.lineno]
            for anc in f.module.ancestors(sh):
                if anc is f.node:
                    break
                for n_, g in positive:
                    if n_ is anc and any(sh is y for b_ in anc.body for y in ast.walk(b_)):
                        guards.append(g)
            construct = f"{f.fq}::{norm(st)}"
            good = [g for g in guards if norm(g.elts[0]) == R and norm(g.elts[1]) == B]
            if good:
                col.ok(construct, f"variables leave the outer reduction only under ({R}, {B}) in DISTRIBUTIVE_OPS", f.loc(st))
            elif guards:
                col.violation(construct, f"the reduction over some variables is moved into a subset of the operands under a guard on ({', '.join(norm(e) for e in guards[0].elts)}), "
                              f"not on the rule's own pair ({R}, {B})", f.loc(st))
            else:
                col.violation(construct, f"the reduction over some variables is moved into a subset of the operands (`{norm(sh)}`) without testing that ({R}, {B}) is a declared "
                              f"distributive pair: the interpretation passes e.g. {R} is {B} (sum over i of (x + t[i])) to this rule, and the operands that do not mention the variable "
                              "lose their n-fold multiplicity", f.loc(st))


# ---------------------------------------------------------------------- R02.7 same-op contraction: every operand is reduced over all variables


def r_same_op(prog: Program, col: Collector, refs: Refs, cat: Catalogue, rule: str):
    """sum_i (a + b) = sum_i a + sum_i b holds with each operand reduced over ALL of i - an operand that does not mention i
    then picks up its n-fold multiplicity inside `reduce` (R01.4).  Restricting the variables per operand (`V & v.input_vars`)
    silently drops that multiplicity for add / mul / logaddexp."""
    col.rule(rule, "in the red_op-is-bin_op branch every operand is reduced over all the reduced variables", floor=1)
    n = 0
    for r in cat.registrations:
        f = r.target
        if f is None or not r.pattern or refs.resolve(r.pattern[0]) != "funsor.cnf.Contraction" or len(f.positional) < 3 or isinstance(f.node, ast.Lambda):
            continue
        if not r.registry.startswith("funsor.interpretations."):
            continue
        R, B, V = f.positional[:3]
        for st in walk_no_nested(f.node):
            if not (isinstance(st, ast.If) and isinstance(st.test, ast.Compare) and len(st.test.ops) == 1 and isinstance(st.test.ops[0], ast.Is)
                    and {norm(st.test.left), norm(st.test.comparators[0])} == {R, B}):
                continue
            for c in [x for b in st.body for x in ast.walk(b) if isinstance(x, ast.Call) and isinstance(x.func, ast.Attribute) and x.func.attr == "reduce" and len(x.args) == 2]:
                if norm(c.args[0]) not in (R, B):
                    continue
                n += 1
                construct = f"{f.fq}::{norm(c)}"
                a = c.args[1]
                if isinstance(a, ast.Name) and a.id == V:
                    stores = [x for b in st.body for x in ast.walk(b) if isinstance(x, ast.Name) and x.id == V and isinstance(x.ctx, ast.Store)]
                    col.check(not stores, construct, f"each operand is reduced over the rule's own `{V}`", f"`{V}` is re-bound inside the same-op branch before the operands are reduced", f.loc(c))
                else:
                    restricted = any(isinstance(x, ast.Attribute) and x.attr in ("input_vars", "inputs") for x in ast.walk(a)) or isinstance(a, ast.BinOp)
                    if restricted:
                        col.violation(construct, f"the operands are reduced over `{norm(a)}` instead of all of `{V}`: an operand that does not mention a reduced variable "
                                      "is not multiplied by the number of points (sum_i (x + t[i]) becomes x + sum t)", f.loc(c))
                    else:
                        col.unresolved(construct, f"variables argument `{norm(a)}` not recognised", f.loc(c))
    if n == 0:
        col.unresolved("funsor.cnf::same-op branch", "no `if red_op is bin_op:` branch reducing the operands found", "funsor/cnf.py")


# ---------------------------------------------------------------------- R05.6 scope extrusion of binders needs a freshness test


def _dnf(t: ast.AST) -> List[List[ast.AST]]:
    """disjunctive normal form of a boolean test as lists of conjuncts (and/or only; anything else is an atom)"""
    if isinstance(t, ast.BoolOp) and isinstance(t.op, ast.Or):
        out = []
        for v in t.values:
            out += _dnf(v)
        return out
    if isinstance(t, ast.BoolOp) and isinstance(t.op, ast.And):
        acc = [[]]
        for v in t.values:
            acc = [a + b for a in acc for b in _dnf(v)]
        return acc
    return [[t]]


def r_scope_extrusion(prog: Program, col: Collector, refs: Refs, cat: Catalogue, rule: str):
    """A rewrite that builds Contraction(.., .., <vars including v.reduced_vars>, *<terms including v's siblings>) has moved the
    binders of the inner contraction v outward, over its sibling operands.  That is capture-free only if no sibling mentions a
    variable bound in v.  Alpha-renaming gives every *constructed* binder a fresh name, but a cons-hashed subterm that occurs
    twice (v * v) carries the same bound names in both places, so freshness has to be tested (or be vacuous: v binds nothing
    because `v.red_op is ops.null`, or there is no sibling because the outer `bin_op is ops.null`)."""
    col.rule(rule, "binders of an inner contraction are moved over sibling operands only under a freshness test", floor=2)
    seen = set()
    for r in cat.registrations:
        f = r.target
        if f is None or f.fq in seen or not r.pattern or isinstance(f.node, ast.Lambda) or refs.resolve(r.pattern[0]) != "funsor.cnf.Contraction":
            continue
        if not (r.registry.startswith("funsor.interpretations.") or r.registry.startswith("funsor.optimizer.")):
            continue
        seen.add(f.fq)
        if len(f.positional) < 4:
            continue
        R, B, V, TERMS = f.positional[:4]
        local_defs: Dict[str, List[ast.AST]] = {}
        for n in walk_no_nested(f.node):
            if isinstance(n, ast.Assign) and len(n.targets) == 1 and isinstance(n.targets[0], ast.Name):
                local_defs.setdefault(n.targets[0].id, []).append(n)
        cfg = CFG(f.node)
        for ret in [n for n in walk_no_nested(f.node) if isinstance(n, ast.Return) and n.value is not None]:
            for c in _contraction_calls(ret.value, refs):
                if len(c.args) < 4:
                    continue
                vars_e = c.args[2]
                inner = [x for x in ast.walk(vars_e) if isinstance(x, ast.Attribute) and x.attr in ("reduced_vars", "bound") and isinstance(x.value, ast.Name) and x.value.id != "self"]
                if not inner:
                    continue
                vname = inner[0].value.id
                # do the terms include siblings of v?  (slices of the rule's own `terms`, directly or through a reaching local)
                term_exprs = list(c.args[3:])
                for a in list(term_exprs):
                    for x in ast.walk(a):
                        if isinstance(x, ast.Name) and x.id in local_defs:
                            term_exprs += [d.value for d in _reaching(cfg, local_defs[x.id], ret)]
                sib = any(isinstance(x, ast.Subscript) and isinstance(x.value, ast.Name) and x.value.id == TERMS and isinstance(x.slice, ast.Slice)
                          for e in term_exprs for x in ast.walk(e))
                if not sib:
                    continue
                construct = f"{f.fq}::{norm(ret)[:110]}"
                # (i) an explicit freshness test earlier in the same loop body / enclosing the return
                fresh = False
                kind_mismatch = None
                quant_bad = None
                for n in walk_no_nested(f.node):
                    if isinstance(n, ast.If) and n.lineno < ret.lineno:
                        # the test with single-definition locals inlined (`sibling_vars = union(...)`; `if v.reduced_vars & sibling_vars`)
                        txt_nodes = list(ast.walk(n.test))
                        for x in list(txt_nodes):
                            if isinstance(x, ast.Name) and len(local_defs.get(x.id, [])) == 1:
                                txt_nodes += list(ast.walk(local_defs[x.id][0].value))
                        bound_attrs = {x.attr for x in txt_nodes if isinstance(x, ast.Attribute) and x.attr in ("reduced_vars", "bound") and isinstance(x.value, ast.Name) and x.value.id == vname}
                        input_attrs = {x.attr for x in txt_nodes if isinstance(x, ast.Attribute) and x.attr in ("input_vars", "inputs")}
                        mentions_bound = bool(bound_attrs)
                        mentions_inputs = bool(input_attrs)
                        # Variables are compared with Variables (reduced_vars / input_vars), names with names (bound / inputs)
                        if mentions_bound and mentions_inputs:
                            consistent = ("reduced_vars" in bound_attrs and "input_vars" in input_attrs) or ("bound" in bound_attrs and "inputs" in input_attrs)
                            if not consistent:
                                kind_mismatch = n
                                mentions_inputs = False
                        # names used in the test that are locals derived from the sibling slices
                        exits = any(isinstance(b, (ast.Continue, ast.Return)) for b in n.body)
                        encloses = any(ret is y for b in n.body for y in ast.walk(b))
                        # the quantifier over the siblings: a skipping guard must fire when SOME sibling mentions a bound variable,
                        # a guard around the rewrite must require that NO sibling does
                        if mentions_bound and mentions_inputs and (exits or encloses):
                            def _quant(t, neg=False):
                                out = []
                                if isinstance(t, ast.UnaryOp) and isinstance(t.op, ast.Not):
                                    return _quant(t.operand, not neg)
                                if isinstance(t, ast.BoolOp):
                                    for v_ in t.values:
                                        out += _quant(v_, neg)
                                    return out
                                if isinstance(t, ast.Call) and isinstance(t.func, ast.Name) and t.func.id in ("any", "all") and t.args \
                                        and isinstance(t.args[0], (ast.GeneratorExp, ast.ListComp)):
                                    q_ = t.func.id
                                    if neg:
                                        q_ = "none" if q_ == "any" else "notall"
                                    out.append(q_)
                                return out
                            qs = _quant(n.test)
                            if (exits and not encloses and any(q_ in ("all", "none") for q_ in qs)) or (encloses and not exits and any(q_ in ("any", "notall") for q_ in qs)):
                                quant_bad = n
                                mentions_inputs = False
                        if mentions_bound and mentions_inputs and (exits or encloses):
                            same_loop = any(isinstance(a, (ast.For, ast.While)) and any(n is y for y in ast.walk(a)) and any(ret is y for y in ast.walk(a)) for a in walk_no_nested(f.node)) \
                                or not any(isinstance(a, (ast.For, ast.While)) for a in walk_no_nested(f.node))
                            if same_loop:
                                fresh = True
                if fresh:
                    col.ok(construct, f"`{vname}`'s binders are moved over its siblings only after a test that no sibling mentions them", f.loc(ret))
                    continue
                # (ii) vacuous: every disjunct of the enclosing condition says v binds nothing or there are no siblings
                vac = False
                for anc in f.module.ancestors(ret):
                    if anc is f.node:
                        break
                    if isinstance(anc, ast.If) and any(ret is y for b in anc.body for y in ast.walk(b)):
                        def safe(conj):
                            if isinstance(conj, ast.Compare) and len(conj.ops) == 1 and isinstance(conj.ops[0], ast.Is):
                                l, rr = norm(conj.left), norm(conj.comparators[0])
                                null = {"ops.null", "null"}
                                if (l == f"{vname}.red_op" and rr in null) or (rr == f"{vname}.red_op" and l in null):
                                    return True  # v has no reduction: nothing is bound
                                if (l == B and rr in null) or (rr == B and l in null):
                                    return True  # the outer contraction has a single operand: no sibling
                            return False
                        if all(any(safe(c_) for c_ in disj) for disj in _dnf(anc.test)):
                            vac = True
                if vac:
                    col.ok(construct, f"vacuous: in every case of the enclosing condition `{vname}` binds nothing or has no sibling", f.loc(ret))
                elif quant_bad is not None:
                    col.violation(construct, f"the freshness test `{norm(quant_bad.test)[:90]}` quantifies over the siblings the wrong way round: the rewrite is skipped only when "
                                  "EVERY sibling mentions a bound variable, so with one sibling that does (v * v * z) the binders are still moved over it and capture its variable",
                                  f.loc(quant_bad))
                elif kind_mismatch is not None:
                    col.violation(construct, f"the freshness test `{norm(kind_mismatch.test)[:80]}` intersects Variable objects (`reduced_vars`) with input NAMES (`.inputs`): "
                                  "the two never have an element in common, so the test never fires and the binders are moved over siblings that mention them", f.loc(kind_mismatch))
                else:
                    col.violation(construct, f"the variables bound in `{vname}` are moved outward over its sibling operands without testing that no sibling mentions them: "
                                  f"a subterm that occurs twice (v * v with v a lazy reduction) carries the same bound names in both places, and the merged scope "
                                  "captures the sibling's variable (sum_i b[i] * sum_i b[i] becomes sum_i b[i]*b[i])", f.loc(ret))


# ---------------------------------------------------------------------- scalar / array sibling branches agree


def r_number_tensor_siblings(prog: Program, col: Collector, refs: Refs, cat: Catalogue, rule: str):
    """A Number is a 0-d Tensor.  Where one function handles both by separate branches of an isinstance chain on the same
    variable (Slice.eager_subs), the data computed in the Number branch and in the Tensor branch must be the same formula."""
    col.rule(rule, "Number and Tensor branches of one substitution rule compute the same formula", floor=1)
    n_sites = 0
    for tc in cat.term_classes.values():
        for mname, m in tc.cls.methods.items():
            if isinstance(m.node, ast.Lambda):
                continue
            # dispatch chains: an if/elif chain, or (after canonicalisation of early exits) consecutive `if`s of one block
            blocks = [m.node.body] + [getattr(x, f) for x in walk_no_nested(m.node) for f in ("body", "orelse") if isinstance(getattr(x, f, None), list)
                                      and getattr(x, f) and isinstance(getattr(x, f)[0], ast.stmt)]
            for block in blocks:
                chain_ifs = [st for st in block if isinstance(st, ast.If)]
                if not chain_ifs:
                    continue
                top = chain_ifs[0]
                branches = {}
                queue = list(chain_ifs)
                while queue:
                    cur = queue.pop(0)
                    t = cur.test
                    kind, var = None, None
                    if isinstance(t, ast.Call) and isinstance(t.func, ast.Name) and t.func.id == "isinstance" and len(t.args) == 2 and isinstance(t.args[0], ast.Name):
                        r_ = refs.resolve(t.args[1]) if isinstance(t.args[1], (ast.Name, ast.Attribute)) else None
                        if r_ == "funsor.terms.Number":
                            kind, var = "Number", t.args[0].id
                        elif r_ == "funsor.tensor.Tensor":
                            kind, var = "Tensor", t.args[0].id
                    elif isinstance(t, ast.Compare) and norm(t.comparators[0]) in ("'Tensor'", '"Tensor"') and isinstance(t.left, ast.Attribute) and t.left.attr == "__name__" \
                            and isinstance(t.left.value, ast.Call) and norm(t.left.value.func) == "type" and isinstance(t.left.value.args[0], ast.Name):
                        kind, var = "Tensor", t.left.value.args[0].id
                    if kind:
                        branches[kind] = (var, cur.body)
                    if len(cur.orelse) == 1 and isinstance(cur.orelse[0], ast.If):
                        queue.insert(0, cur.orelse[0])
                if set(branches) != {"Number", "Tensor"} or branches["Number"][0] != branches["Tensor"][0]:
                    continue

                def data_expr(body):
                    rets = [x for b in body for x in ast.walk(b) if isinstance(x, ast.Return) and isinstance(x.value, ast.Call) and x.value.args]
                    if len(rets) != 1:
                        return None
                    a0 = rets[0].value.args[0]
                    if isinstance(a0, ast.Name):
                        ds = [x for b in body for x in ast.walk(b) if isinstance(x, ast.Assign) and len(x.targets) == 1 and isinstance(x.targets[0], ast.Name) and x.targets[0].id == a0.id]
                        return ds[-1].value if ds else None
                    return a0

                en, et = data_expr(branches["Number"][1]), data_expr(branches["Tensor"][1])
                if en is None or et is None:
                    continue
                n_sites += 1
                construct = f"{m.fq}::Number/Tensor branches"
                col.check(ast.dump(en) == ast.dump(et), construct, f"both branches compute `{norm(en)}`",
                          f"the Number branch computes `{norm(en)}` but the Tensor branch computes `{norm(et)}`: a 0-d tensor and a number substituted into the same term give different values",
                          m.loc(top))
    if not n_sites:
        col.unresolved("funsor.terms::Number/Tensor sibling branches", "no function with separate Number and Tensor branches computing data found", "funsor/terms.py")


# ---------------------------------------------------------------------- occurrence counts are taken over the operand sequence


def r_operand_multiplicity(prog: Program, col: Collector, refs: Refs, cat: Catalogue, rule: str):
    """A Contraction rule that decides where to reduce a variable by counting in how many operands it occurs must count over the
    operand *sequence*: terms are cons-hashed, so a dict or set keyed by the operands holds a repeated operand once
    (x[i] * x[i] * y[j]: `i` then looks like it occurs in one operand and its reduction is pushed into a single copy)."""
    col.rule(rule, "occurrence counts of reduced variables are taken over the operand sequence, with repetition", floor=1)
    n = 0
    for r in cat.registrations:
        f = r.target
        if f is None or not r.pattern or isinstance(f.node, ast.Lambda) or refs.resolve(r.pattern[0]) != "funsor.cnf.Contraction" or len(f.positional) < 4:
            continue
        terms_p = f.positional[3]
        vararg = f.node.args.vararg.arg if f.node.args.vararg else None
        seq_names = {terms_p, vararg} - {None}
        counters = set()
        local_defs: Dict[str, List[ast.AST]] = {}
        for x in walk_no_nested(f.node):
            if isinstance(x, ast.Assign) and len(x.targets) == 1 and isinstance(x.targets[0], ast.Name):
                local_defs.setdefault(x.targets[0].id, []).append(x.value)
                v = x.value
                if isinstance(v, ast.Call) and norm(v.func).split(".")[-1] == "Counter":
                    counters.add(x.targets[0].id)
                if isinstance(v, ast.Call) and isinstance(v.func, ast.Name) and v.func.id in ("list", "tuple") and len(v.args) == 1 and isinstance(v.args[0], ast.Name) and v.args[0].id in seq_names:
                    seq_names.add(x.targets[0].id)
                if isinstance(v, ast.ListComp) and len(v.generators) == 1 and not v.generators[0].ifs and isinstance(v.generators[0].iter, ast.Name) and v.generators[0].iter.id in seq_names:
                    seq_names.add(x.targets[0].id)  # one entry per operand, in order
        # (b) a mapping / set keyed by the operands themselves, read back as a per-operand sequence (`.values()`, iteration, len): a repeated
        # operand is one key, so whatever is derived per operand (its variables, its size) is counted once
        for d in walk_no_nested(f.node):
            keyed = None
            if isinstance(d, (ast.DictComp, ast.SetComp)) and isinstance(d.generators[0].iter, ast.Name) and d.generators[0].iter.id in seq_names \
                    and isinstance(d.generators[0].target, ast.Name):
                key = d.key if isinstance(d, ast.DictComp) else d.elt
                if isinstance(key, ast.Name) and key.id == d.generators[0].target.id:
                    keyed = d
            if isinstance(d, ast.Call) and isinstance(d.func, ast.Attribute) and d.func.attr == "fromkeys" and d.args and isinstance(d.args[0], ast.Name) and d.args[0].id in seq_names:
                keyed = d
            if keyed is None:
                continue
            st = keyed
            while not isinstance(st, ast.stmt):
                st = f.module.parent.get(st)
            name = st.targets[0].id if isinstance(st, ast.Assign) and len(st.targets) == 1 and isinstance(st.targets[0], ast.Name) else None
            as_sequence = name is not None and any(
                (isinstance(u, ast.Call) and isinstance(u.func, ast.Attribute) and u.func.attr in ("values", "items") and isinstance(u.func.value, ast.Name) and u.func.value.id == name)
                or (isinstance(u, (ast.For, ast.comprehension)) and isinstance(u.iter, ast.Name) and u.iter.id == name)
                or (isinstance(u, ast.Call) and isinstance(u.func, ast.Name) and u.func.id in ("len", "list", "tuple") and u.args and isinstance(u.args[0], ast.Name) and u.args[0].id == name)
                for u in ast.walk(f.node))
            n += 1
            col.check(not as_sequence, f"{f.fq}::{norm(keyed)[:60]}", "used for lookup only",
                      f"`{norm(keyed)[:60]}` is keyed by the operands and then read back as if it had one entry per operand: operands are interned, so a factor that occurs twice "
                      "(x * x * y) is one key - the variables of the second occurrence are not counted and a reduction is placed as if the variable occurred once less", f.loc(keyed))
        if not counters:
            continue
        for lp in [x for x in walk_no_nested(f.node) if isinstance(x, ast.For)]:
            upd = [c for c in ast.walk(lp) if isinstance(c, ast.Call) and isinstance(c.func, ast.Attribute) and c.func.attr == "update" and isinstance(c.func.value, ast.Name) and c.func.value.id in counters]
            if not upd:
                continue
            n += 1
            it = lp.iter
            if isinstance(it, ast.Call) and isinstance(it.func, ast.Name) and it.func.id == "enumerate" and it.args:
                it = it.args[0]
            construct = f"{f.fq}::for {norm(lp.target)} in {norm(lp.iter)}"
            if isinstance(it, ast.Name) and it.id in seq_names:
                col.ok(construct, "counts every operand occurrence", f.loc(lp))
                continue
            base = it.func.value if isinstance(it, ast.Call) and isinstance(it.func, ast.Attribute) and it.func.attr in ("values", "items", "keys") else it
            collapsing = False
            if isinstance(base, ast.Name) and base.id in local_defs:
                for d in local_defs[base.id]:
                    if isinstance(d, (ast.DictComp, ast.SetComp)) and isinstance(d.generators[0].iter, ast.Name) and d.generators[0].iter.id in seq_names:
                        key = d.key if isinstance(d, ast.DictComp) else d.elt
                        if isinstance(key, ast.Name) and isinstance(d.generators[0].target, ast.Name) and key.id == d.generators[0].target.id:
                            collapsing = True
                    if isinstance(d, ast.Call) and isinstance(d.func, ast.Name) and d.func.id in ("set", "frozenset", "dict") and d.args and isinstance(d.args[0], ast.Name) and d.args[0].id in seq_names:
                        collapsing = True
            if isinstance(base, ast.Call) and isinstance(base.func, ast.Name) and base.func.id in ("set", "frozenset") and base.args and isinstance(base.args[0], ast.Name) and base.args[0].id in seq_names:
                collapsing = True
            if collapsing:
                col.violation(construct, f"the occurrence counter is filled from `{norm(lp.iter)}`, a collection keyed by the operands themselves: a repeated (cons-hashed) operand is counted once, "
                              "so a variable shared by two copies looks unique and its reduction is pushed into one of them", f.loc(lp))
            else:
                col.note(construct, "counter updated while walking another collection (not an occurrence count over the operands)", f.loc(lp))
    if not n:
        col.unresolved("funsor.cnf::occurrence counter", "no Counter-based occurrence count found in the Contraction rules", "funsor/cnf.py")


# ---------------------------------------------------------------------- reduced variables no operand mentions, tensor kernels


def r_absent_vars_kernel(prog: Program, col: Collector, refs: Refs, cat: Catalogue, rule: str):
    """The einsum kernel of the eager tensor contractions removes the reduced variables from the result's inputs with a tolerant
    `inputs.pop(var.name, None)`: a reduced variable that NO operand mentions is dropped without its n-fold multiplicity
    (sum over i of a[j]*b[j] is 3*a*b for |i| = 3).  Every caller must therefore hand the kernel only variables the operands
    mention and reduce the absent ones separately with its own reduction op (or the kernel must refuse them)."""
    col.rule(rule, "tensor contraction kernels are not given reduced variables that no operand mentions", floor=1)
    kernels = []
    for f in prog.funcs.values():
        if isinstance(f.node, ast.Lambda) or f.module.name != "funsor.cnf":
            continue
        if not any(isinstance(n, ast.Call) and (refs.resolve(n.func) or "").endswith("opt_einsum.contract") for n in walk_no_nested(f.node)):
            continue
        for lp in [n for n in walk_no_nested(f.node) if isinstance(n, ast.For) and isinstance(n.iter, ast.Name) and n.iter.id in f.positional]:
            tolerant = [c for c in ast.walk(lp) if isinstance(c, ast.Call) and isinstance(c.func, ast.Attribute) and c.func.attr == "pop" and len(c.args) == 2]
            if tolerant:
                kernels.append((f, f.positional.index(lp.iter.id)))
    if not kernels:
        col.unresolved("funsor.cnf::tensor contraction kernel", "no einsum kernel that pops reduced variables found", "funsor/cnf.py")
        return
    for k, idx in kernels:
        # a guard inside the kernel itself?
        guarded_inside = any(isinstance(n, ast.Compare) and len(n.ops) == 1 and isinstance(n.ops[0], (ast.LtE, ast.Lt)) and norm(n.left) == k.positional[idx]
                             for n in walk_no_nested(k.node)) or any(isinstance(n, ast.Call) and isinstance(n.func, ast.Attribute) and n.func.attr == "issubset"
                                                                     and norm(n.func.value) == k.positional[idx] for n in walk_no_nested(k.node))
        for mod, call in refs.calls_to(f"{k.module.name}.{k.name}"):
            fn = mod.enclosing_function(call)
            f = prog.func_of(fn) if fn is not None else None
            if f is None or f is k or len(call.args) <= idx:
                continue
            arg = call.args[idx]
            construct = f"{f.fq}::{norm(call)[:80]}"
            if guarded_inside:
                col.ok(construct, "the kernel itself refuses variables its operands do not mention", mod.loc(call))
                continue
            defs = {}
            for n in walk_no_nested(f.node):
                if isinstance(n, ast.Assign) and len(n.targets) == 1 and isinstance(n.targets[0], ast.Name):
                    defs.setdefault(n.targets[0].id, []).append(n.value)

            def is_absent(e):
                """<vars> - <union of the operands' input_vars>"""
                if isinstance(e, ast.Name) and len(defs.get(e.id, [])) == 1:
                    e = defs[e.id][0]
                return isinstance(e, ast.BinOp) and isinstance(e.op, ast.Sub) and any(isinstance(x, ast.Attribute) and x.attr in ("input_vars", "inputs") for x in ast.walk(e.right))

            restricted = isinstance(arg, ast.BinOp) and isinstance(arg.op, ast.Sub) and is_absent(arg.right)
            if isinstance(arg, ast.Name) and len(defs.get(arg.id, [])) == 1:
                d = defs[arg.id][0]
                restricted = restricted or (isinstance(d, ast.BinOp) and isinstance(d.op, (ast.Sub, ast.BitAnd)) and (is_absent(d.right) or any(
                    isinstance(x, ast.Attribute) and x.attr in ("input_vars", "inputs") for x in ast.walk(d.right))))
            compensated = any(isinstance(n, ast.Call) and isinstance(n.func, ast.Attribute) and n.func.attr == "reduce" and len(n.args) == 2 and norm(n.args[0]) == f.positional[0]
                              and is_absent(n.args[1]) for n in walk_no_nested(f.node))
            if isinstance(arg, ast.Name) and arg.id in f.positional and not restricted:
                col.violation(construct, f"the rule hands all of its `{arg.id}` to the einsum kernel, which silently drops those that no operand mentions: "
                              "sum over i of a[j]*b[j] evaluates to a*b instead of |i|*a*b (logaddexp/add: the + log|i| is lost)", mod.loc(call))
            elif restricted and compensated:
                col.ok(construct, "only variables the operands mention reach the kernel; the absent ones are reduced with the rule's own op", mod.loc(call))
            elif restricted:
                col.violation(construct, "the variables no operand mentions are split off but never reduced: their multiplicity is lost", mod.loc(call))
            else:
                col.unresolved(construct, f"variable set argument `{norm(arg)}` not recognised", mod.loc(call))


# ---------------------------------------------------------------------- a rule selected for a parametrised op uses the op


def r_op_params_used(prog: Program, col: Collector, refs: Refs, cat: Catalogue, rule: str):
    """A rule registered for (Unary | Binary | Finitary | Reduce, <op class>, ...) whose op class covers ops that carry parameters
    (getitem's offset, a reduction's axis / keepdims, reshape's shape ...) receives the *instance* with its parameters as first
    argument.  If the rule never mentions that argument, its result cannot depend on the parameters: it computes the answer for
    the default-parametrised op whatever was asked."""
    col.rule(rule, "rules registered for parametrised ops use the op instance they are given", floor=10)
    seen = set()
    for reg in cat.registrations:
        f = reg.target
        if f is None or not reg.pattern or len(reg.pattern) < 2 or isinstance(f.node, ast.Lambda) or f.fq in seen:
            continue
        if not reg.registry.startswith("funsor.interpretations."):
            continue
        head = refs.resolve(reg.pattern[0]) if isinstance(reg.pattern[0], (ast.Name, ast.Attribute)) else None
        if head not in ("funsor.terms.Unary", "funsor.terms.Binary", "funsor.terms.Finitary", "funsor.terms.Reduce"):
            continue
        ref = cat.op_class_ref(refs.resolve(reg.pattern[1]) if isinstance(reg.pattern[1], (ast.Name, ast.Attribute)) else None)
        if ref is None:
            continue
        withp = [o for o in cat.ops_under(ref) if o.params]
        if not withp or not f.positional:
            continue
        seen.add(f.fq)
        opn = f.positional[0]
        uses = any(isinstance(x, ast.Name) and x.id == opn and isinstance(x.ctx, ast.Load) for x in ast.walk(f.node))
        declines = all(isinstance(s_, (ast.Raise, ast.Expr)) or (isinstance(s_, ast.Return) and (s_.value is None or (isinstance(s_.value, ast.Constant) and s_.value.value is None)))
                       for s_ in f.body)
        construct = f"{f.fq}::uses `{opn}`"
        if uses or declines:
            col.ok(construct, "the rule reads / applies / forwards the op instance" if uses else "the rule only declines", f.loc(), nontrivial=uses)
        else:
            col.violation(construct, f"the rule is selected for {', '.join(o.var for o in withp[:3])}{'...' if len(withp) > 3 else ''} (parameters {withp[0].params}) but never mentions its op argument `{opn}`: "
                          "the parameters of the op instance cannot influence the result", f.loc())
        # applying the DEFAULT instance of the very op the rule was selected for (ops.getitem inside a rule for GetitemOp) computes the
        # default-parametrised op: right only where the rule has established that the parameters are the defaults
        default_vars = {o.fq: o for o in withp}
        plocals = {}
        for st in walk_no_nested(f.node):
            if isinstance(st, ast.Assign) and len(st.targets) == 1 and isinstance(st.targets[0], ast.Name) and any(
                    isinstance(x, ast.Name) and x.id == opn for x in ast.walk(st.value)):
                plocals[st.targets[0].id] = st.value
        for c in walk_no_nested(f.node):
            if not (isinstance(c, ast.Call) and isinstance(c.func, (ast.Name, ast.Attribute))):
                continue
            tgt = refs.resolve(c.func)
            o = cat.resolve_op(f.module, c.func)
            if o is None or o.fq not in default_vars or not o.params:
                continue
            arity = len(o.all_params) - len(o.params)
            if len(c.args) + len(c.keywords) > arity or any(isinstance(a_, ast.Starred) for a_ in c.args):
                continue  # the parameters are passed along explicitly
            # facts on the way: an equality between a parameter-derived value and a constant that HOLDS
            exits = (ast.Return, ast.Raise, ast.Continue, ast.Break)
            established = False
            for a in walk_no_nested(f.node):
                if not isinstance(a, ast.If):
                    continue
                t, pol_needed = a.test, None
                inside = lambda blk: any(c is y for st_ in blk for y in ast.walk(st_))
                if inside(a.body):
                    pol_needed = True
                elif inside(a.orelse):
                    pol_needed = False
                else:
                    par = f.module.parent.get(a)
                    for fld in ("body", "orelse", "finalbody"):
                        blk = getattr(par, fld, None)
                        if isinstance(blk, list) and any(x is a for x in blk):
                            k = [j for j, x in enumerate(blk) if x is a][0]
                            if inside(blk[k + 1:]) and a.body and isinstance(a.body[-1], exits):
                                pol_needed = False
                if pol_needed is None:
                    continue
                neg = False
                while isinstance(t, ast.UnaryOp) and isinstance(t.op, ast.Not):
                    t, neg = t.operand, not neg
                if isinstance(t, ast.Compare) and len(t.ops) == 1 and isinstance(t.ops[0], (ast.Eq, ast.NotEq, ast.Is, ast.IsNot)):
                    reads_param = any(isinstance(x, ast.Name) and (x.id in plocals or x.id == opn) for x in ast.walk(t))
                    holds_eq = (isinstance(t.ops[0], (ast.Eq, ast.Is)) != neg) == pol_needed
                    if reads_param and holds_eq:
                        established = True
            col.check(established, f"{f.fq}::{norm(c)[:50]}", "the default instance is applied where the parameters were tested to be the defaults",
                      f"`{norm(c.func)}` is the default instance of the op this rule is selected for (parameters {o.params}); it is applied on a path that has not established that `{opn}` "
                      f"carries the default parameters, so e.g. an offset / axis of the op instance is dropped (x[:, :, k] is evaluated as x[k] of the inner term)", f.loc(c))


# ---------------------------------------------------------------------- variables leave the outer reduction only with exact counts


def r_exact_counts(prog: Program, col: Collector, refs: Refs, cat: Catalogue, rule: str):
    """In the recursive eager contraction rule a set U of reduced variables is summed out inside k operands (k = 1: a single
    leaf, k = 2: a pair) and removed from the outer reduction.  That is only sound if no OTHER operand mentions a variable of
    U, i.e. U is drawn from the variables whose occurrence count is exactly k.  `count >= 2`, or intersecting all reduced
    variables with the pair's inputs, sums a variable out while a third operand still depends on it."""
    col.rule(rule, "variables summed out inside k operands occur in exactly k operands", floor=2)
    n = 0
    for r in cat.registrations:
        f = r.target
        if f is None or not r.pattern or isinstance(f.node, ast.Lambda) or refs.resolve(r.pattern[0]) != "funsor.cnf.Contraction" or len(f.positional) < 4:
            continue
        if not r.registry.startswith("funsor.interpretations."):
            continue
        V = f.positional[2]
        defs: Dict[str, List[ast.AST]] = {}
        for x in walk_no_nested(f.node):
            if isinstance(x, ast.Assign) and len(x.targets) == 1 and isinstance(x.targets[0], ast.Name):
                defs.setdefault(x.targets[0].id, []).append(x.value)
        counters = {k for k, vs in defs.items() if any(isinstance(v, ast.Call) and norm(v.func).split(".")[-1] == "Counter" for v in vs)}
        if not counters:
            continue

        def exact_filter(e, depth=0):
            """k if e is drawn from {v : count == k} of an occurrence counter; 'loose' if from a non-exact filter or unfiltered V"""
            if depth > 5:
                return None
            if isinstance(e, ast.Name):
                if e.id == V:
                    return "loose"
                res = [exact_filter(d, depth + 1) for d in defs.get(e.id, [])]
                res = [r_ for r_ in res if r_ is not None]
                if not res:
                    return None
                return "loose" if "loose" in res else res[0]
            for g in [x for x in ast.walk(e) if isinstance(x, (ast.GeneratorExp, ast.SetComp, ast.ListComp))]:
                it = g.generators[0].iter
                if isinstance(it, ast.Call) and isinstance(it.func, ast.Attribute) and it.func.attr == "items" and norm(it.func.value) in counters:
                    for c in g.generators[0].ifs:
                        if isinstance(c, ast.Compare) and len(c.ops) == 1 and isinstance(c.comparators[0], ast.Constant) and isinstance(c.comparators[0].value, int):
                            return c.comparators[0].value if isinstance(c.ops[0], ast.Eq) else "loose"
                    return "loose"
            # e.g. reduced_once & term.input_vars, reduced_twice.intersection(lhs.input_vars, rhs.input_vars)
            if isinstance(e, ast.BinOp) and isinstance(e.op, ast.BitAnd):
                a, b = exact_filter(e.left, depth + 1), exact_filter(e.right, depth + 1)
                for x_ in (a, b):
                    if isinstance(x_, int):
                        return x_
                return a or b
            if isinstance(e, ast.Call) and isinstance(e.func, ast.Attribute) and e.func.attr == "intersection":
                return exact_filter(e.func.value, depth + 1)
            return None

        for sh in [x for x in walk_no_nested(f.node) if isinstance(x, ast.AugAssign) and isinstance(x.op, ast.Sub) and isinstance(x.target, ast.Name) and x.target.id == V]:
            n += 1
            k = exact_filter(sh.value)
            construct = f"{f.fq}::{norm(sh)} (line order {sum(1 for y in walk_no_nested(f.node) if isinstance(y, ast.AugAssign) and y.lineno <= sh.lineno)})"
            if isinstance(k, int):
                col.ok(construct, f"`{norm(sh.value)}` is drawn from the variables that occur in exactly {k} operand(s)", f.loc(sh))
            elif k == "loose":
                col.violation(construct, f"`{norm(sh.value)}` is not restricted to variables with an exact occurrence count: a reduced variable that a further operand mentions "
                              "is summed out early (sum_a x[a] y[a,b] z[a] becomes (sum_a x y) * z[a]: wrong value and a leaked input)", f.loc(sh))
            else:
                col.unresolved(construct, f"origin of `{norm(sh.value)}` not understood", f.loc(sh))
    if not n:
        col.unresolved("funsor.cnf::exact counts", "no rule that removes variables from the outer reduction of a counted contraction found", "funsor/cnf.py")



# ---------------------------------------------------------------------- a commutative op's Python default is symmetric
def _canon_sym(e: ast.AST, env: Dict[str, ast.AST], depth=0) -> str:
    """canonical text of an expression modulo commutativity of +, *, two-argument max/min/maximum/minimum/logaddexp and |a - b|,
    with single-definition locals inlined"""
    if depth > 12:
        return norm(e)
    if isinstance(e, ast.Name) and e.id in env and e.id != "<resolve>":
        return _canon_sym(env[e.id], env, depth + 1)
    if isinstance(e, ast.BinOp) and isinstance(e.op, (ast.Add, ast.Mult)):
        def parts(x):
            if isinstance(x, ast.Name) and x.id in env:
                x = env[x.id]
            return parts(x.left) + parts(x.right) if isinstance(x, ast.BinOp) and type(x.op) is type(e.op) else [x]
        sym = "+" if isinstance(e.op, ast.Add) else "*"
        return "(" + sym.join(sorted(_canon_sym(p, env, depth + 1) for p in parts(e))) + ")"
    if isinstance(e, ast.BinOp):
        return f"({_canon_sym(e.left, env, depth + 1)} {type(e.op).__name__} {_canon_sym(e.right, env, depth + 1)})"
    if isinstance(e, ast.UnaryOp):
        return f"({type(e.op).__name__} {_canon_sym(e.operand, env, depth + 1)})"
    if isinstance(e, ast.Call):
        fn = e.func.attr if isinstance(e.func, ast.Attribute) else (e.func.id if isinstance(e.func, ast.Name) else norm(e.func))
        resolver = env.get("<resolve>")
        if resolver is not None and isinstance(e.func, (ast.Name, ast.Attribute)):
            r = resolver(e.func)          # `_builtin_max = max` and the like
            if r:
                fn = r.rsplit(".", 1)[-1]
        args = [_canon_sym(a, env, depth + 1) for a in e.args]
        if fn in ("max", "min", "maximum", "minimum", "logaddexp", "fmax", "fmin") and len(args) == 2:
            args = sorted(args)
        if fn in ("abs", "fabs", "absolute") and len(e.args) == 1:
            a = e.args[0]
            if isinstance(a, ast.Name) and a.id in env:
                a = env[a.id]
            if isinstance(a, ast.BinOp) and isinstance(a.op, ast.Sub):
                l, r = sorted([_canon_sym(a.left, env, depth + 1), _canon_sym(a.right, env, depth + 1)])
                return f"abs({l} - {r})"
        kws = sorted(f"{k.arg}={_canon_sym(k.value, env, depth + 1)}" for k in e.keywords)
        return f"{fn}({', '.join(args + kws)})"
    if isinstance(e, ast.IfExp):
        return f"({_canon_sym(e.body, env, depth + 1)} if {_canon_sym(e.test, env, depth + 1)} else {_canon_sym(e.orelse, env, depth + 1)})"
    if isinstance(e, ast.Compare):
        return f"({_canon_sym(e.left, env, depth + 1)} {' '.join(type(o).__name__ for o in e.ops)} {' '.join(_canon_sym(c, env, depth + 1) for c in e.comparators)})"
    return norm(e)


class _Swap(ast.NodeTransformer):
    def __init__(self, a, b):
        self.a, self.b = a, b

    def visit_Name(self, n):
        if n.id == self.a:
            return ast.copy_location(ast.Name(id=self.b, ctx=n.ctx), n)
        if n.id == self.b:
            return ast.copy_location(ast.Name(id=self.a, ctx=n.ctx), n)
        return n


def r_commutative_default_symmetric(prog: Program, col: Collector, refs: Refs, cat: Catalogue, rule: str):
    """x op y == y op x for every op the tables treat as commutative.  For the ops implemented by a Python body (not an operator.* /
    library function) the body with its two parameters exchanged must be the same expression modulo commutativity of the
    functions it is built from - an asymmetric body (`shift + log1p(exp(y - x))`) is right for one operand order only."""
    import copy
    col.rule(rule, "the Python default of a commutative binary op is symmetric in its two operands", floor=1)
    n = 0
    for fq, op in sorted(cat.ops.items()):
        if not isinstance(op.impl, ast.FunctionDef) or op.parent_is_op:
            continue
        ab = axioms.identify(cat, op)
        if ab not in axioms.COMMUTATIVE:
            continue
        fn = op.impl
        params = [a.arg for a in fn.args.args]
        if len(params) != 2:
            continue
        rets = [s_ for s_ in ast.walk(fn) if isinstance(s_, ast.Return) and s_.value is not None]
        if len(rets) != 1 or any(isinstance(s_, (ast.If, ast.For, ast.While, ast.Try)) for s_ in fn.body):
            col.unresolved(f"{fq}::symmetric", "the body is not straight-line with one return", op.module.loc(fn))
            continue
        env = {}
        multi = set()
        for st in fn.body:
            if isinstance(st, ast.Assign) and len(st.targets) == 1 and isinstance(st.targets[0], ast.Name):
                if st.targets[0].id in env:
                    multi.add(st.targets[0].id)
                env[st.targets[0].id] = st.value
        for m in multi:
            env.pop(m, None)
        n += 1
        resolve = (lambda node, _m=op.module: cat._resolve_alias(_m, node))
        env["<resolve>"] = resolve
        a = _canon_sym(rets[0].value, env)
        env2 = {k: _Swap(*params).visit(copy.deepcopy(v)) for k, v in env.items() if k != "<resolve>"}
        env2["<resolve>"] = resolve
        b = _canon_sym(_Swap(*params).visit(copy.deepcopy(rets[0].value)), env2)
        col.check(a == b, f"{fq}::symmetric", f"the body is unchanged when `{params[0]}` and `{params[1]}` are exchanged (modulo commutativity of +, *, max/min, |a-b|)",
                  f"`{op.var}` is treated as commutative ({ab}) but its Python implementation is not symmetric in `{params[0]}`, `{params[1]}`: "
                  f"`{norm(rets[0].value)}` differs from the same expression with the operands exchanged - it is right for one operand order only", op.module.loc(fn))
    col.cur.analysed["python_defaults_of_commutative_ops"] = n


# ---------------------------------------------------------------------- returning the operand unchanged from a rule for a class of ops
SINGLETON_IDENTITY_NAMES = {"sum", "prod", "amax", "amin", "logsumexp", "mean", "all", "any"}


def r_operand_returned_unchanged(prog: Program, col: Collector, refs: Refs, cat: Catalogue, rule: str):
    """A rule registered for (Unary, <class of ops>, ...) that returns its operand unchanged claims that every op of the class is
    the identity there.  Without a test on the op itself that is only true if every op of the class is (an associative op or the
    fold of one, which are the identity on a single element; var and std are not)."""
    col.rule(rule, "a rule for a class of unary ops returns its operand unchanged only for ops that are the identity there", floor=2)
    seen = set()
    n = 0
    for reg in cat.registrations:
        f = reg.target
        if f is None or not reg.pattern or len(reg.pattern) < 2 or isinstance(f.node, ast.Lambda) or f.fq in seen:
            continue
        if not reg.registry.startswith("funsor.interpretations."):
            continue
        head = refs.resolve(reg.pattern[0]) if isinstance(reg.pattern[0], (ast.Name, ast.Attribute)) else None
        if head != "funsor.terms.Unary" or len(f.positional) < 2:
            continue
        ref = cat.op_class_ref(refs.resolve(reg.pattern[1]) if isinstance(reg.pattern[1], (ast.Name, ast.Attribute)) else None)
        if ref is None:
            continue
        seen.add(f.fq)
        under = cat.ops_under(ref)
        opn, operands = f.positional[0], set(f.positional[1:])
        defs: Dict[str, List[ast.AST]] = {}
        for x in walk_no_nested(f.node):
            if isinstance(x, ast.Assign) and len(x.targets) == 1 and isinstance(x.targets[0], ast.Name):
                defs.setdefault(x.targets[0].id, []).append(x.value)

        def reads_op_directly(e, depth=0) -> bool:
            """op compared / tested / its parameters read - not merely passed on to another function"""
            for x in ast.walk(e):
                if isinstance(x, ast.Name) and x.id == opn:
                    p = f.module.parent.get(x)
                    if isinstance(p, ast.Compare) or (isinstance(p, ast.Attribute) and p.value is x) \
                            or (isinstance(p, ast.Call) and isinstance(p.func, ast.Name) and p.func.id == "isinstance" and p.args and p.args[0] is x):
                        return True
                if isinstance(x, ast.Name) and x.id in defs and len(defs[x.id]) == 1 and depth < 3 and x.id != opn:
                    if reads_op_directly(defs[x.id][0], depth + 1):
                        return True
            return False

        for r in walk_no_nested(f.node):
            if not (isinstance(r, ast.Return) and isinstance(r.value, ast.Name) and r.value.id in operands):
                continue
            n += 1
            guards = [a for a in f.module.ancestors(r) if isinstance(a, ast.If) and f.module.enclosing_function(a) is f.node]
            construct = f"{f.fq}::return {r.value.id}"
            if any(reads_op_directly(g.test) for g in guards):
                col.ok(construct, "returned unchanged under a test on the op itself", f.loc(r))
                continue
            bad = []
            for o in under:
                ab = axioms.identify(cat, o)
                if ab in axioms.ASSOCIATIVE or ab in set(axioms.FOLD.values()) or o.name in SINGLETON_IDENTITY_NAMES:
                    continue
                if isinstance(o.impl, ast.FunctionDef) and all(isinstance(s_, (ast.Raise, ast.Expr)) for s_ in o.impl.body):
                    continue  # a placeholder that is never evaluated (its implementation only raises)
                bad.append(o.var)
            col.check(not bad, construct, f"every op the rule is selected for ({len(under)}) is the identity on a single element",
                      f"the operand is returned unchanged for every op of the class, without a test on `{opn}`, but {sorted(bad)[:4]} "
                      f"{'is' if len(bad) == 1 else 'are'} not the identity there (the variance of one element is 0, not the element)", f.loc(r))
    col.cur.analysed["operand_returned_unchanged_sites"] = n


# ---------------------------------------------------------------------- roles of sum_op / prod_op
def r_semiring_roles(prog: Program, col: Collector, refs: Refs, cat: Catalogue, rule: str):
    """Functions of the package that take a semiring as parameters named sum_op and prod_op: (a) a call that forwards both to a callee
    with parameters of the same names must not exchange them; (b) a rule for MarkovProduct - the product over time of the
    transition factor - reduces over its time variable with the product op."""
    col.rule(rule, "sum_op / prod_op keep their roles when forwarded; a Markov product is reduced over time with the product op", floor=10)
    n = 0
    for f in prog.funcs.values():
        if isinstance(f.node, ast.Lambda) or not {"sum_op", "prod_op"} <= set(f.params):
            continue
        for c in walk_no_nested(f.node):
            if not isinstance(c, ast.Call):
                continue
            callee = refs.resolve(c.func) if isinstance(c.func, (ast.Name, ast.Attribute)) else None
            lk = prog.lookup(callee) if callee else None
            if not (lk and lk[0] == "func"):
                continue
            g = lk[1]
            if not {"sum_op", "prod_op"} <= set(g.params) or any(isinstance(a, ast.Starred) for a in c.args):
                continue
            passed = {}
            for i, a in enumerate(c.args):
                if i < len(g.positional):
                    passed[g.positional[i]] = a
            for k in c.keywords:
                if k.arg:
                    passed[k.arg] = k.value
            n += 1
            swapped = [(p, norm(a)) for p, a in passed.items() if p in ("sum_op", "prod_op") and isinstance(a, ast.Name) and a.id in ("sum_op", "prod_op") and a.id != p]
            col.check(not swapped, f"{f.fq}::{norm(c.func)}(...)", "sum_op and prod_op are forwarded under their own roles",
                      f"`{swapped[0][1]}` is passed as `{swapped[0][0]}` of {g.fq}: the two ops of the semiring are exchanged" if swapped else "", f.loc(c), nontrivial=False)
    for reg in cat.registrations:
        f = reg.target
        if f is None or not reg.pattern or isinstance(f.node, ast.Lambda):
            continue
        head = refs.resolve(reg.pattern[0]) if isinstance(reg.pattern[0], (ast.Name, ast.Attribute)) else None
        if head != "funsor.sum_product.MarkovProduct" or not reg.registry.startswith("funsor.interpretations."):
            continue
        tc = cat.term_classes.get(head)
        fields = tc.fields if tc else []
        if len(f.positional) != len(fields) or "prod_op" not in fields or "time" not in fields:
            continue
        role = dict(zip(fields, f.positional))
        for c in walk_no_nested(f.node):
            if isinstance(c, ast.Call) and isinstance(c.func, ast.Attribute) and c.func.attr == "reduce" and len(c.args) >= 2 \
                    and any(isinstance(x, ast.Name) and x.id == role["time"] for x in ast.walk(c.args[1])):
                n += 1
                col.check(isinstance(c.args[0], ast.Name) and c.args[0].id == role["prod_op"], f"{f.fq}::{norm(c)}",
                          "the factor is reduced over time with the product op",
                          f"the transition factor is reduced over the time variable with `{norm(c.args[0])}`, not with the product op `{role['prod_op']}`: "
                          "a Markov product is the product over time steps", f.loc(c))
    col.cur.analysed["semiring_role_sites"] = n


# ---------------------------------------------------------------------- Reduce rules do not silently drop absent variables
def r_reduce_rules_keep_absent_vars(prog: Program, col: Collector, refs: Refs, cat: Catalogue, rule: str):
    """A rule registered for Reduce receives ALL reduced variables, including those its operand does not mention; reducing over such a
    variable multiplies (add), scales (logaddexp) or powers (mul) the operand.  A rule that narrows the parameter as passed to the
    operand's own variables (`reduced_vars & arg.input_vars`, `.intersection(arg.inputs)`, a filter on membership) before the
    compensating helper has been applied drops that factor."""
    from ..dataflow import param_deps
    from ..cfg import CFG
    col.rule(rule, "a Reduce rule narrows the reduced variables to those of its operand only after compensating for the absent ones", floor=4)
    helper = _find_reduce_helper(prog, refs, cat)
    seen = set()
    n = 0
    for r in cat.registrations:
        f = r.target
        if f is None or not r.pattern or isinstance(f.node, ast.Lambda) or f.fq in seen:
            continue
        if refs.resolve(r.pattern[0]) != "funsor.terms.Reduce" or not r.registry.startswith("funsor.interpretations.") or len(f.positional) < 3:
            continue
        seen.add(f.fq)
        n += 1
        opn, argn, rvn = f.positional[:3]
        cfg = None
        bad = None
        for st in walk_no_nested(f.node):
            if not isinstance(st, (ast.Assign, ast.Return, ast.Expr, ast.AugAssign)):
                continue
            for e in ast.walk(st):
                narrowing = None
                if isinstance(e, ast.BinOp) and isinstance(e.op, ast.BitAnd):
                    sides = [e.left, e.right]
                    if any(isinstance(x, ast.Name) and x.id == rvn for x in sides) and any(
                            isinstance(y, ast.Attribute) and y.attr in ("input_vars", "inputs") and isinstance(y.value, ast.Name) and y.value.id == argn
                            for x in sides for y in ast.walk(x)):
                        narrowing = e
                if isinstance(e, ast.Call) and isinstance(e.func, ast.Attribute) and e.func.attr == "intersection" and isinstance(e.func.value, ast.Name) and e.func.value.id == rvn \
                        and any(isinstance(y, ast.Attribute) and y.attr in ("input_vars", "inputs") and isinstance(y.value, ast.Name) and y.value.id == argn for a in e.args for y in ast.walk(a)):
                    narrowing = e
                if isinstance(e, (ast.GeneratorExp, ast.ListComp, ast.SetComp)) and len(e.generators) == 1 and isinstance(e.generators[0].iter, ast.Name) \
                        and e.generators[0].iter.id == rvn and any(
                            isinstance(c, ast.Compare) and isinstance(c.ops[0], ast.In) and any(isinstance(y, ast.Attribute) and y.attr in ("input_vars", "inputs")
                                                                                                and isinstance(y.value, ast.Name) and y.value.id == argn for y in ast.walk(c.comparators[0]))
                            for c in e.generators[0].ifs):
                    narrowing = e
                if narrowing is None:
                    continue
                cfg = cfg or CFG(f.node)
                deps = param_deps(f, ast.Name(id=rvn, ctx=ast.Load()), st, cfg=cfg)
                if rvn in deps:
                    bad = (st, narrowing)
        construct = f"{f.fq}::{rvn}"
        if bad:
            col.violation(construct, f"`{norm(bad[1])}` narrows the reduced variables as passed to the rule to those `{argn}` mentions: reducing over a variable the operand does not "
                          f"mention is dropped instead of being compensated ({helper.name} multiplies / powers by the size of the variable) - e.g. a sum over an absent variable of "
                          "size 4 comes out 4 times too small", f.loc(bad[0]))
        else:
            col.ok(construct, "the reduced variables are not narrowed to the operand's before the absent ones are accounted for", f.loc(), nontrivial=False)
    col.cur.analysed["reduce_rules"] = n


# ---------------------------------------------------------------------- a product of sizes is taken over a sequence, not a set
def r_size_product_over_sequence(prog: Program, col: Collector, refs: Refs, cat: Catalogue, rule: str):
    """The number of points of several variables is the product of their sizes WITH repetition: folding a set of sizes
    (`reduce(mul, {v.output.size ... for v in vars})`, `prod(set(...))`) collapses variables of equal size (3 * 3 becomes 3)."""
    col.rule(rule, "a product of variable sizes is folded over a sequence (equal sizes are not collapsed)", floor=1)
    n = 0
    for f in prog.funcs.values():
        if isinstance(f.node, ast.Lambda):
            continue
        for c in walk_no_nested(f.node):
            if not isinstance(c, ast.Call):
                continue
            callee = refs.resolve(c.func) if isinstance(c.func, (ast.Name, ast.Attribute)) else None
            it = None
            wrong_fold = None
            if callee == "functools.reduce" and len(c.args) >= 2:
                fold = c.args[0]
                r0 = refs.resolve(fold) if isinstance(fold, (ast.Name, ast.Attribute)) else None
                o = cat.resolve_op(f.module, fold) if isinstance(fold, (ast.Name, ast.Attribute)) else None
                if (o is not None and axioms.identify(cat, o) == "MUL") or r0 in ("operator.mul",):
                    it = c.args[1]
                elif (o is not None and axioms.identify(cat, o) in ("ADD", "MAX", "MIN", "OR", "AND")) or r0 in ("operator.add", "builtins.max", "builtins.min"):
                    # sizes of SEVERAL variables folded with something else than a product: the number of joint assignments of
                    # i (size 2) and j (size 3) is 6, not 5
                    it2 = c.args[1]
                    elt2 = it2.elt if isinstance(it2, (ast.SetComp, ast.ListComp, ast.GeneratorExp)) else None
                    if elt2 is not None and isinstance(it2.generators[0].target, ast.Name):
                        tv = it2.generators[0].target.id
                        is_size = any(isinstance(x, ast.Attribute) and x.attr in ("size", "num_elements") and any(isinstance(y, ast.Name) and y.id == tv for y in ast.walk(x))
                                      for x in ast.walk(elt2))
                        # the size of a variable's DOMAIN (v.output.size), not the element count of an array
                        over_vars = any(isinstance(x, ast.Attribute) and x.attr in ("size", "num_elements") and isinstance(x.value, ast.Attribute) and x.value.attr == "output"
                                        for x in ast.walk(elt2))
                        if is_size and over_vars:
                            wrong_fold = (fold, it2)
            if wrong_fold is not None:
                n += 1
                col.violation(f"{f.fq}::{norm(c)[:60]}", f"the sizes of several variables are folded with `{norm(wrong_fold[0])}`: the number of joint values of the variables is the PRODUCT of "
                              "their sizes (2 and 3 give 6 points, not 5), so a multiplicity / normaliser computed from it is wrong whenever more than one variable is involved", f.loc(c))
                continue
            elif callee in ("math.prod", "numpy.prod") and c.args:
                it = c.args[0]
            if it is None:
                continue
            elt = it.elt if isinstance(it, (ast.SetComp, ast.ListComp, ast.GeneratorExp)) else None
            inner = it
            if isinstance(it, ast.Call) and isinstance(it.func, ast.Name) and it.func.id in ("set", "frozenset", "list", "tuple") and it.args:
                inner = it.args[0]
                elt = inner.elt if isinstance(inner, (ast.SetComp, ast.ListComp, ast.GeneratorExp)) else elt
            sizes = elt is not None and any((isinstance(x, ast.Attribute) and x.attr in ("size", "dtype", "num_elements")) or (isinstance(x, ast.BinOp) and isinstance(x.op, ast.Pow))
                                            for x in ast.walk(elt))
            if not sizes:
                continue
            n += 1
            is_set = isinstance(it, ast.SetComp) or isinstance(inner, ast.SetComp) or (isinstance(it, ast.Call) and isinstance(it.func, ast.Name) and it.func.id in ("set", "frozenset"))
            col.check(not is_set, f"{f.fq}::{norm(c)[:60]}", "the sizes are folded over a sequence",
                      "the product is folded over a SET of sizes: two variables of the same size contribute once (the multiplicity of reducing over i and j, both of size 3, "
                      "becomes 3 instead of 9)", f.loc(c))
    col.cur.analysed["size_products"] = n


# ---------------------------------------------------------------------- a Contraction rule accounts for ALL reduced variables
def _flows_whole_into_call(f: Func, x: ast.AST, depth: int = 0) -> bool:
    """does the value of expression node `x` reach an argument of a call un-intersected: directly, as the LEFT operand of `-` / `|`,
    through a conditional expression, or through a local it is assigned to"""
    if depth > 4:
        return False
    mod = f.module
    cur = x
    while True:
        p = mod.parent.get(cur)
        if isinstance(p, ast.BinOp) and isinstance(p.op, (ast.Sub, ast.BitOr)) and (p.left is cur or isinstance(p.op, ast.BitOr)):
            cur = p
            continue
        if isinstance(p, ast.IfExp) and (p.body is cur or p.orelse is cur):
            cur = p
            continue
        if isinstance(p, ast.Starred):
            cur = p
            continue
        break
    if isinstance(p, ast.Call) and (cur in p.args or any(k.value is cur for k in p.keywords)):
        fn = p.func.attr if isinstance(p.func, ast.Attribute) else (p.func.id if isinstance(p.func, ast.Name) else "")
        if fn in ("frozenset", "set", "tuple", "list", "sorted", "len", "bool", "isinstance"):
            return _flows_whole_into_call(f, p, depth + 1) if fn not in ("len", "bool", "isinstance") else False
        return True
    if isinstance(p, ast.keyword):
        return True
    if isinstance(p, ast.Return):
        return True
    if isinstance(p, (ast.Assign, ast.AugAssign)):
        tgts = p.targets if isinstance(p, ast.Assign) else [p.target]
        for t in tgts:
            if isinstance(t, ast.Name):
                for y in ast.walk(f.node):
                    if isinstance(y, ast.Name) and y.id == t.id and isinstance(y.ctx, ast.Load) and y is not x and getattr(y, "lineno", 0) >= p.lineno:
                        pp = mod.parent.get(y)
                        if isinstance(pp, ast.BinOp) and isinstance(pp.op, ast.BitAnd):
                            continue
                        if _flows_whole_into_call(f, y, depth + 1):
                            return True
    return False


def r_contraction_rules_cover_reduced_vars(prog: Program, col: Collector, refs: Refs, cat: Catalogue, rule: str):
    """A rule registered for Contraction receives the set of ALL reduced variables, including ones no operand mentions (they
    contribute a multiplicity).  A rule that rebuilds the contraction from pieces and uses that parameter only intersected with the
    operands' variables (or through counters filled from the operands' inputs) never reduces such a variable; some use of the
    parameter must be whole (`reduced_vars`, `reduced_vars - X`, `reduced_vars | X`) and flow into a reduction."""
    col.rule(rule, "a Contraction rule that reduces computed subsets also reduces the variables no operand mentions", floor=5)
    seen = set()
    n = 0
    for r in cat.registrations:
        f = r.target
        if f is None or not r.pattern or isinstance(f.node, ast.Lambda) or f.fq in seen or len(f.positional) < 4:
            continue
        if refs.resolve(r.pattern[0]) != "funsor.cnf.Contraction":
            continue
        if not (r.registry.startswith("funsor.interpretations.") or r.registry.startswith("funsor.optimizer.")):
            continue
        seen.add(f.fq)
        rv = f.positional[2]
        rets = [x for x in walk_no_nested(f.node) if isinstance(x, ast.Return)]
        if all(x.value is None or (isinstance(x.value, ast.Constant) and x.value.value is None) for x in rets):
            continue  # the rule only declines
        # aliases of the parameter (x = reduced_vars)
        names = {rv}
        for st in walk_no_nested(f.node):
            if isinstance(st, ast.Assign) and len(st.targets) == 1 and isinstance(st.targets[0], ast.Name) and isinstance(st.value, ast.Name) and st.value.id in names:
                names.add(st.targets[0].id)
        narrow, whole = [], []
        for x in ast.walk(f.node):
            if not (isinstance(x, ast.Name) and x.id in names and isinstance(x.ctx, ast.Load)):
                continue
            p = f.module.parent.get(x)
            if isinstance(p, ast.BinOp) and isinstance(p.op, ast.BitAnd):
                narrow.append(x)
            elif isinstance(p, ast.Attribute) and p.value is x and p.attr in ("intersection", "isdisjoint", "issubset", "issuperset"):
                narrow.append(x)
            elif isinstance(p, ast.Compare) and x in p.comparators and all(isinstance(o, (ast.In, ast.NotIn)) for o in p.ops):
                narrow.append(x)
            elif isinstance(p, (ast.If, ast.IfExp, ast.BoolOp, ast.UnaryOp, ast.Assert)) :
                pass  # truth test
            elif isinstance(p, ast.Compare):
                pass
            elif isinstance(p, ast.AugAssign) and p.target is x:
                pass
            elif _flows_whole_into_call(f, x):
                whole.append(x)
        if not narrow:
            continue
        n += 1
        construct = f"{f.fq}::{rv}"
        col.check(bool(whole), construct, f"besides {len(narrow)} intersection(s) with the operands' variables, `{rv}` is also used whole ({len(whole)} use(s))",
                  f"`{rv}` is only ever intersected with / tested against the variables of the operands ({len(narrow)} use(s)): a reduced variable that no operand mentions is "
                  "never reduced by the rebuilt contraction, so its multiplicity (n-fold sum / power) is dropped", f.loc(narrow[0]))
    col.cur.analysed["contraction_rules_with_subsets"] = n


# ---------------------------------------------------------------------- fusing an inner contraction needs the same reduction
def r_nested_fusion_same_red_op(prog: Program, col: Collector, refs: Refs, cat: Catalogue, rule: str):
    """red_V ( ... red'_W (inner) ... )  =  red_{V ∪ W} ( ... inner ... ) only when red' is red (or one of them is absent): a rule that
    returns a contraction over `reduced_vars | X.reduced_vars` for an inner contraction X must have tested X.red_op against its own
    red_op on the way; otherwise a logaddexp mixture is merged into an outer max (or add) and the inner sum is reduced with the wrong op."""
    col.rule(rule, "an inner contraction's reduced variables are merged into the outer reduction only under a test that the two reductions agree", floor=2)
    n = 0
    seen = set()
    for r in cat.registrations:
        f = r.target
        if f is None or not r.pattern or isinstance(f.node, ast.Lambda) or f.fq in seen or len(f.positional) < 3:
            continue
        if refs.resolve(r.pattern[0]) != "funsor.cnf.Contraction":
            continue
        if not (r.registry.startswith("funsor.interpretations.") or r.registry.startswith("funsor.optimizer.")):
            continue
        seen.add(f.fq)
        R, V = f.positional[0], f.positional[2]
        for c in walk_no_nested(f.node):
            if not (isinstance(c, ast.Call) and refs.resolve(c.func) == "funsor.cnf.Contraction" and len(c.args) >= 3):
                continue
            v3 = c.args[2]
            inner = None
            for b in ast.walk(v3):
                if isinstance(b, ast.BinOp) and isinstance(b.op, ast.BitOr):
                    for side in (b.left, b.right):
                        if isinstance(side, ast.Attribute) and side.attr == "reduced_vars" and isinstance(side.value, ast.Name):
                            inner = side.value.id
            if inner is None:
                continue
            n += 1
            # tests that mention <inner>.red_op together with the rule's own red_op (or ops.null), on the way to this call
            st = c
            while not isinstance(st, ast.stmt):
                st = f.module.parent.get(st)
            tests = [a.test for a in f.module.ancestors(c) if isinstance(a, ast.If) and f.module.enclosing_function(a) is f.node]
            for g in walk_no_nested(f.node):
                if isinstance(g, ast.If) and g.lineno < st.lineno and g.body and isinstance(g.body[-1], (ast.Return, ast.Continue, ast.Raise)):
                    tests.append(g.test)
            def relates(t):
                has_inner = any(isinstance(x, ast.Attribute) and x.attr == "red_op" and isinstance(x.value, ast.Name) and x.value.id == inner for x in ast.walk(t))
                has_outer = any(isinstance(x, ast.Name) and x.id == R for x in ast.walk(t))
                cmp_ = any(isinstance(x, ast.Compare) for x in ast.walk(t))
                return has_inner and has_outer and cmp_
            # the registration pattern may pin both reductions to the same op class
            # ... and that the two SETS of binders are disjoint: a duplicated subterm keeps its (already mangled) bound names, so an inner
            # contraction can bind the very variable the outer one binds; the union then collapses two nested reductions into one
            def disjoint_test(t):
                for x in ast.walk(t):
                    if isinstance(x, ast.BinOp) and isinstance(x.op, ast.BitAnd):
                        sides = [x.left, x.right]
                    elif isinstance(x, ast.Call) and isinstance(x.func, ast.Attribute) and x.func.attr in ("isdisjoint", "intersection") and x.args:
                        sides = [x.func.value, x.args[0]]
                    else:
                        continue
                    has_in = any(isinstance(y, ast.Attribute) and y.attr in ("reduced_vars", "bound") and isinstance(y.value, ast.Name) and y.value.id == inner for s_ in sides for y in ast.walk(s_))
                    has_out = any(isinstance(y, ast.Name) and y.id == V for s_ in sides for y in ast.walk(s_))
                    if has_in and has_out:
                        return True
                return False
            col.check(any(disjoint_test(t) for t in tests), f"{f.fq}::{norm(v3)} (disjoint binders)",
                      f"`{inner}.reduced_vars` is tested against `{V}` before the union is taken",
                      f"`{V} | {inner}.reduced_vars` is formed without testing that the two sets are disjoint: when a subterm is duplicated (r * r is distributed) its copies keep the "
                      "same bound names, the inner and the outer contraction then bind the same variable, and the union turns two nested reductions into one "
                      "((sum_i y)**2 becomes sum_i y**2)", f.loc(c))
            col.check(any(relates(t) for t in tests), f"{f.fq}::{norm(v3)}",
                      f"`{inner}.red_op` is compared with `{R}` before the two sets of reduced variables are merged",
                      f"the reduced variables of the inner contraction `{inner}` are merged into the outer reduction without comparing `{inner}.red_op` with `{R}`: when the outer "
                      f"reduction is another op (a max or add around a logaddexp mixture) the inner variables end up reduced with the wrong op", f.loc(c))
    col.cur.analysed["nested_fusion_sites"] = n


# ---------------------------------------------------------------------- the result of a Contraction rule still reduces
def r_contraction_result_reduces(prog: Program, col: Collector, refs: Refs, cat: Catalogue, rule: str):
    """A rule registered for Contraction(red_op, bin_op, reduced_vars, terms...) must return something that still reduces over
    `reduced_vars` with `red_op`: a Contraction / interpret call or a `.reduce` that receives (a value derived from) `reduced_vars`.
    Returning an operand, or the plain `bin_op` of the operands, is only right where the rule has established that nothing is
    reduced (a test or assertion on `red_op` / `reduced_vars`)."""
    from ..dataflow import param_deps
    from ..cfg import CFG
    col.rule(rule, "what a Contraction rule returns still carries the reduction (or the rule has tested that there is none)", floor=15)
    seen = set()
    n = 0
    for r in cat.registrations:
        f = r.target
        if f is None or not r.pattern or isinstance(f.node, ast.Lambda) or f.fq in seen or len(f.positional) < 3:
            continue
        if refs.resolve(r.pattern[0]) != "funsor.cnf.Contraction":
            continue
        if not (r.registry.startswith("funsor.interpretations.") or r.registry.startswith("funsor.optimizer.")):
            continue
        # a registration that pins red_op to NullOp has nothing to reduce
        ro = r.pattern[1] if len(r.pattern) > 1 else None
        if ro is not None and norm(ro).endswith("NullOp"):
            continue
        seen.add(f.fq)
        R, V = f.positional[0], f.positional[2]
        cfg = None
        for ret in [x for x in walk_no_nested(f.node) if isinstance(x, ast.Return) and x.value is not None]:
            if isinstance(ret.value, ast.Constant) and ret.value.value is None:
                continue
            n += 1
            cfg = cfg or CFG(f.node)
            deps = param_deps(f, ret.value, ret, cfg=cfg)
            construct = f"{f.fq}::{norm(ret)[:70]}"
            if V in deps:
                col.ok(construct, f"the result depends on `{V}`", f.loc(ret), nontrivial=False)
                continue
            # facts known on the way to the return: atoms of the tests that hold / fail there.  A conjunction that holds gives its
            # conjuncts, a disjunction that fails gives the negations of its disjuncts; a failed conjunction gives nothing.
            def atoms(t, pol):
                if isinstance(t, ast.UnaryOp) and isinstance(t.op, ast.Not):
                    return atoms(t.operand, not pol)
                if isinstance(t, ast.BoolOp):
                    if isinstance(t.op, ast.And) == pol:
                        return [x for v_ in t.values for x in atoms(v_, pol)]
                    return []
                # an equality that FAILS (`red_op is not X`) says nothing about whether something is reduced; an equality that holds,
                # a membership that holds, and the truth or falsity of a plain value (`reduced_vars`, `x.input_vars & reduced_vars`) do
                if isinstance(t, ast.Compare) and len(t.ops) == 1:
                    positive_op = isinstance(t.ops[0], (ast.Is, ast.Eq, ast.In, ast.LtE, ast.GtE, ast.Lt, ast.Gt))
                    if isinstance(t.ops[0], (ast.Is, ast.Eq, ast.In, ast.IsNot, ast.NotEq, ast.NotIn)) and positive_op != pol:
                        return []
                return [t]
            exits = (ast.Return, ast.Raise, ast.Continue, ast.Break)
            facts = []  # (atom, statement at which it is evaluated)
            for a in walk_no_nested(f.node):
                if isinstance(a, ast.Assert) and a.lineno < ret.lineno:
                    facts += [(x, a) for x in atoms(a.test, True)]
                if not isinstance(a, ast.If):
                    continue
                inside = lambda blk: any(ret is y for st in blk for y in ast.walk(st))
                if inside(a.body):
                    facts += [(x, a) for x in atoms(a.test, True)]
                elif inside(a.orelse):
                    facts += [(x, a) for x in atoms(a.test, False)]
                else:
                    par = f.module.parent.get(a)
                    for fld in ("body", "orelse", "finalbody"):
                        blk = getattr(par, fld, None)
                        if isinstance(blk, list) and any(x is a for x in blk):
                            k = [j for j, x in enumerate(blk) if x is a][0]
                            if inside(blk[k + 1:]):
                                if a.body and isinstance(a.body[-1], exits):
                                    facts += [(x, a) for x in atoms(a.test, False)]
                                elif a.orelse and isinstance(a.orelse[-1], exits):
                                    facts += [(x, a) for x in atoms(a.test, True)]
            established = any({R, V} & param_deps(f, x, at, cfg=cfg) for x, at in facts)
            col.check(established, construct, f"returned under a test on `{R}` / `{V}` (nothing is reduced there)",
                      f"`{norm(ret.value)[:60]}` does not depend on `{V}` and is not guarded by any test on `{R}` or `{V}`: the reduction over `{V}` is dropped, so the reduced "
                      "variables stay free in the rewritten term", f.loc(ret))
    col.cur.analysed["contraction_rule_returns"] = n


# ---------------------------------------------------------------------- operand order in rules for Binary


def r_binary_rule_operand_order(prog: Program, col: Collector, refs: Refs, cat: Catalogue, rule: str):
    """A rule registered for Binary(op, lhs, rhs) over a *class* of ops (BinaryOp, or any pattern that admits a non-commutative op)
    re-applies `op` to values derived from its operands.  The value in the first position must come from `lhs` and the one in the
    second from `rhs`: the swapped call is x op y -> y op x, right only for commutative ops (t - c becomes c - t)."""
    from ..dataflow import param_deps
    from ..cfg import CFG
    col.rule(rule, "a Binary rule re-applies its op with the operands in the order it received them", floor=6)
    seen = set()
    n = 0
    for reg in cat.registrations:
        f = reg.target
        if f is None or not reg.pattern or len(reg.pattern) < 4 or isinstance(f.node, ast.Lambda) or f.fq in seen:
            continue
        if not reg.registry.startswith("funsor.interpretations."):
            continue
        head = refs.resolve(reg.pattern[0]) if isinstance(reg.pattern[0], (ast.Name, ast.Attribute)) else None
        if head != "funsor.terms.Binary" or len(f.positional) != 3:
            continue
        # does the op pattern admit a non-commutative op?
        ref = cat.op_class_ref(refs.resolve(reg.pattern[1]) if isinstance(reg.pattern[1], (ast.Name, ast.Attribute)) else None)
        under = cat.ops_under(ref) if ref is not None else []
        abstracts = {axioms.identify(cat, o) for o in under}
        if under and None not in abstracts and abstracts <= axioms.COMMUTATIVE:
            continue
        seen.add(f.fq)
        opn, lhs, rhs = f.positional
        cfg = None
        for c in [x for x in walk_no_nested(f.node) if isinstance(x, ast.Call)]:
            if isinstance(c.func, ast.Name) and c.func.id == opn and len(c.args) == 2:
                a, b = c.args
            elif refs.resolve(c.func) == "funsor.terms.Binary" and len(c.args) == 3 and isinstance(c.args[0], ast.Name) and c.args[0].id == opn:
                a, b = c.args[1], c.args[2]
            else:
                continue
            if any(isinstance(x, ast.Starred) for x in (a, b)):
                continue
            cfg = cfg or CFG(f.node)
            st = c
            while not isinstance(st, ast.stmt):
                st = f.module.parent.get(st)
            da = param_deps(f, a, st, cfg=cfg) & {lhs, rhs}
            db = param_deps(f, b, st, cfg=cfg) & {lhs, rhs}
            n += 1
            construct = f"{f.fq}::{norm(c)[:60]}"
            if da == {rhs} and db == {lhs}:
                guards = [g for g in f.module.ancestors(c) if isinstance(g, ast.If)]
                tested = any(opn in {x.id for x in ast.walk(g.test) if isinstance(x, ast.Name)} for g in guards)
                col.check(tested, construct, "operands swapped under a test on the op",
                          f"`{norm(c)[:60]}` applies `{opn}` to (a value of `{rhs}`, a value of `{lhs}`): the operands are swapped, which is x {opn} y -> y {opn} x and right "
                          f"only for commutative ops; the rule is registered for {norm(reg.pattern[1])}, which includes sub, truediv, pow, ...", f.loc(c))
            elif da <= {lhs} and db <= {rhs}:
                col.ok(construct, "first position from the left operand, second from the right one", f.loc(c), nontrivial=bool(da and db))
            else:
                col.ok(construct, f"positions mix both operands ({sorted(da)}, {sorted(db)}): not judged", f.loc(c), nontrivial=False)
    col.cur.analysed["op_reapplications_in_binary_rules"] = n


# ---------------------------------------------------------------------- a reduction narrowed to the receiver's own variables


def r_receiver_narrowed_reduce(prog: Program, col: Collector, refs: Refs, cat: Catalogue, rule: str):
    """`x.reduce(op, V & x.input_vars)` (or V.intersection(x.inputs)) reduces x only over the variables it mentions.  The variables of
    V that x does not mention are not a no-op: summing over an absent variable of size n multiplies by n (add), adds log n
    (logaddexp), raises to the n-th power (mul).  Such a call is right only if the same function also takes the complement
    `V - x.input_vars` to compensate (or never needs to: an idempotent op under a test)."""
    col.rule(rule, "a reduction narrowed to the variables its receiver mentions is accompanied by the complement (the absent variables are compensated)", floor=1)
    n = 0
    for f in prog.funcs.values():
        if isinstance(f.node, ast.Lambda):
            continue
        calls = [c for c in walk_no_nested(f.node) if isinstance(c, ast.Call) and isinstance(c.func, ast.Attribute)
                 and c.func.attr in ("reduce", "eager_reduce", "sequential_reduce", "moment_matching_reduce") and len(c.args) >= 2]
        # comprehensions inside the function body are walked as well (walk_no_nested stops only at defs / lambdas)
        for c in calls:
            recv = norm(c.func.value)
            e = c.args[1]
            narrowed = None
            if isinstance(e, ast.BinOp) and isinstance(e.op, ast.BitAnd):
                for a, b in ((e.left, e.right), (e.right, e.left)):
                    if isinstance(b, ast.Attribute) and b.attr in ("input_vars", "inputs") and norm(b.value) == recv:
                        narrowed = (a, b)
                    if isinstance(b, ast.Call) and isinstance(b.func, ast.Name) and b.func.id in ("frozenset", "set") and len(b.args) == 1 \
                            and isinstance(b.args[0], ast.Attribute) and b.args[0].attr in ("input_vars", "inputs") and norm(b.args[0].value) == recv:
                        narrowed = (a, b.args[0])
            elif isinstance(e, ast.Call) and isinstance(e.func, ast.Attribute) and e.func.attr == "intersection" and len(e.args) == 1:
                b = e.args[0]
                if isinstance(b, ast.Attribute) and b.attr in ("input_vars", "inputs") and norm(b.value) == recv:
                    narrowed = (e.func.value, b)
            if narrowed is None:
                continue
            n += 1
            V = norm(narrowed[0])
            # the complement: V - recv.input_vars, V.difference(recv.inputs), or a filter `v not in recv.inputs` over V
            comp = False
            for x in ast.walk(f.node):
                if isinstance(x, ast.BinOp) and isinstance(x.op, ast.Sub) and norm(x.left) == V and isinstance(x.right, ast.Attribute) \
                        and x.right.attr in ("input_vars", "inputs") and norm(x.right.value) == recv:
                    comp = True
                if isinstance(x, ast.Call) and isinstance(x.func, ast.Attribute) and x.func.attr == "difference" and norm(x.func.value) == V and x.args \
                        and isinstance(x.args[0], ast.Attribute) and norm(x.args[0].value) == recv:
                    comp = True
                if isinstance(x, (ast.GeneratorExp, ast.ListComp, ast.SetComp)) and norm(x.generators[0].iter) == V and any(
                        isinstance(t, ast.Compare) and isinstance(t.ops[0], ast.NotIn) and isinstance(t.comparators[0], ast.Attribute) and norm(t.comparators[0].value) == recv
                        for t in x.generators[0].ifs):
                    comp = True
            col.check(comp, f"{f.fq}::{norm(c)[:70]}", f"the complement `{V} - {recv}.input_vars` is taken in the same function",
                      f"`{recv}` is reduced over `{norm(e)}` only - the variables of `{V}` that `{recv}` does not mention are silently dropped, and nothing in the function takes "
                      f"`{V} - {recv}.input_vars` to compensate: a sum over an absent variable of size n must multiply by n (logaddexp: + log n, mul: ** n)", f.loc(c))
    col.cur.analysed["receiver_narrowed_reductions"] = n


# ---------------------------------------------------------------------- both parts of a split of the reduced variables are accounted for


def _reaching_closure(func, expr, at_stmt, cfg, _seen=None, _depth=0):
    """All right-hand sides that can flow (through reaching definitions of locals) into `expr` evaluated at `at_stmt`."""
    import networkx as nx
    _seen = _seen if _seen is not None else {}
    out = [expr]
    if _depth > 10:
        return out
    defs = {}
    for n in walk_no_nested(func.node):
        targets = []
        if isinstance(n, ast.Assign):
            targets = n.targets
        elif isinstance(n, (ast.AugAssign, ast.AnnAssign)):
            targets = [n.target]
        elif isinstance(n, ast.For):
            targets = [n.target]
        for t in targets:
            for x in ast.walk(t):
                if isinstance(x, ast.Name) and isinstance(x.ctx, ast.Store):
                    defs.setdefault(x.id, []).append(n)
    use_nodes = [x.idx for x in cfg.nodes_for(at_stmt)]
    for x in ast.walk(expr):
        if not (isinstance(x, ast.Name) and isinstance(x.ctx, ast.Load)):
            continue
        ds = defs.get(x.id, [])
        def_nodes = {id(d): [n.idx for n in cfg.nodes_for(d)] for d in ds}
        all_def_nodes = {i for v in def_nodes.values() for i in v}
        for d in ds:
            others = all_def_nodes - set(def_nodes[id(d)]) - set(use_nodes)
            g = cfg.g.subgraph([n for n in cfg.g.nodes if n not in others])
            reaches = any(a in g and u in g and any(s_ == u or nx.has_path(g, s_, u) for s_ in g.successors(a)) for a in def_nodes[id(d)] for u in use_nodes)
            if not reaches:
                continue
            key = (id(d), x.id)
            if key in _seen:
                continue
            _seen[key] = True
            rhs = d.iter if isinstance(d, ast.For) else getattr(d, "value", None)
            if rhs is None:
                continue
            out += _reaching_closure(func, rhs, d, cfg, _seen, _depth + 1)
            # control dependence (syntactic): the tests under which the definition is executed
            for anc in func.module.ancestors(d):
                if anc is func.node:
                    break
                if isinstance(anc, (ast.If, ast.While)) and (id(anc), "test") not in _seen:
                    _seen[(id(anc), "test")] = True
                    out += _reaching_closure(func, anc.test, anc, cfg, _seen, _depth + 1)
            if isinstance(d, ast.AugAssign):
                out += _reaching_closure(func, ast.Name(id=x.id, ctx=ast.Load()), d, cfg, _seen, _depth + 1)
    return out


def r_split_reduced_vars_accounted(prog: Program, col: Collector, refs: Refs, cat: Catalogue, rule: str):
    """A reduction rule that splits its reduced variables into `V & S` and `V - S` (the variables of one kind and the rest) has to deal
    with both halves on every path that returns a value: the returned value must be computed from each half (flow-sensitively: a
    later re-binding that discards the intermediate result loses the half that went into it), unless the path has established that
    the half is empty."""
    from ..cfg import CFG
    col.rule(rule, "every returned value of a rule that splits its reduced variables is computed from both halves (or the half is known to be empty)", floor=3)
    scope = []
    seen = set()
    for r in cat.registrations:
        f = r.target
        if f is None or not r.pattern or isinstance(f.node, ast.Lambda) or f.fq in seen or not r.registry.startswith("funsor.interpretations."):
            continue
        head = refs.resolve(r.pattern[0]) if isinstance(r.pattern[0], (ast.Name, ast.Attribute)) else None
        if head in ("funsor.terms.Reduce", "funsor.cnf.Contraction", "funsor.integrate.Integrate"):
            seen.add(f.fq)
            scope.append(f)
    for f in prog.funcs.values():
        if f.name == "eager_reduce" and f.cls is not None and f.fq not in seen and not isinstance(f.node, ast.Lambda):
            seen.add(f.fq)
            scope.append(f)
    n = 0
    for f in scope:
        rv = [p for p in f.positional if p in ("reduced_vars",)]
        if not rv:
            continue
        V = rv[0]
        # halves: V & S / V - S with the same S, or B = V & S', A = V - B
        inter, diff = {}, {}
        names_of = {}
        for x in walk_no_nested(f.node):
            if isinstance(x, ast.BinOp) and isinstance(x.left, ast.Name) and x.left.id == V and isinstance(x.op, (ast.BitAnd, ast.Sub)):
                (inter if isinstance(x.op, ast.BitAnd) else diff).setdefault(norm(x.right), []).append(x)
            if isinstance(x, ast.BinOp) and isinstance(x.right, ast.Name) and x.right.id == V and isinstance(x.op, ast.BitAnd):
                inter.setdefault(norm(x.left), []).append(x)
            if isinstance(x, ast.Assign) and len(x.targets) == 1 and isinstance(x.targets[0], ast.Name):
                names_of.setdefault(norm(x.value), set()).add(x.targets[0].id)
        pairs = []
        for S in inter:
            if S in diff:
                pairs.append((inter[S], diff[S], S))
            # A = V - B where B names V & S
            for bname in names_of.get(f"{V} & {S}", set()) | names_of.get(f"{S} & {V}", set()):
                if bname in diff and bname != V:
                    pairs.append((inter[S], diff[bname], S))
        if not pairs:
            continue
        # V itself must not be re-bound (then the halves are not halves of the parameter)
        if any(isinstance(x, ast.Name) and x.id == V and isinstance(x.ctx, ast.Store) for x in walk_no_nested(f.node)):
            continue
        cfg = CFG(f.node)
        exits = (ast.Return, ast.Raise, ast.Continue, ast.Break)

        def atoms(t, pol):
            if isinstance(t, ast.UnaryOp) and isinstance(t.op, ast.Not):
                return atoms(t.operand, not pol)
            if isinstance(t, ast.BoolOp):
                if isinstance(t.op, ast.And) == pol:
                    return [a for v_ in t.values for a in atoms(v_, pol)]
                return []
            return [(t, pol)]

        def facts_at(ret):
            out = []
            for a in walk_no_nested(f.node):
                if not isinstance(a, ast.If):
                    continue
                inside = lambda blk: any(ret is y for st in blk for y in ast.walk(st))
                if inside(a.body):
                    out += atoms(a.test, True)
                elif inside(a.orelse):
                    out += atoms(a.test, False)
                else:
                    par = f.module.parent.get(a)
                    for fld in ("body", "orelse", "finalbody"):
                        blk = getattr(par, fld, None)
                        if isinstance(blk, list) and any(x is a for x in blk):
                            k = [j for j, x in enumerate(blk) if x is a][0]
                            if inside(blk[k + 1:]):
                                if a.body and isinstance(a.body[-1], exits):
                                    out += atoms(a.test, False)
                                elif a.orelse and isinstance(a.orelse[-1], exits):
                                    out += atoms(a.test, True)
            return out

        for inters, diffs, S in pairs:
            halves = [("∩", {norm(x) for x in inters}), ("−", {norm(x) for x in diffs})]
            # the split belongs to the innermost block that contains all its expressions (one op branch of the rule, say)
            def chain(x):
                return [a for a in f.module.ancestors(x) if isinstance(a, (ast.If, ast.For, ast.While, ast.With, ast.Try))][::-1]
            chains = [chain(x) for x in inters + diffs]
            common = []
            for level in zip(*chains):
                if all(a is level[0] for a in level):
                    common.append(level[0])
                else:
                    break
            region = common[-1] if common else f.node
            # which branch of that block?
            def branch_of(x):
                for fld in ("body", "orelse", "finalbody"):
                    blk = getattr(region, fld, None)
                    if isinstance(blk, list) and any(x is y for st in blk for y in ast.walk(st)):
                        return fld
                return None
            br = branch_of((inters + diffs)[0])
            for ret in [x for x in walk_no_nested(f.node) if isinstance(x, ast.Return) and x.value is not None and not (isinstance(x.value, ast.Constant) and x.value.value is None)]:
                if region is not f.node and branch_of(ret) != br:
                    continue
                closure = _reaching_closure(f, ret.value, ret, cfg)
                texts = set()
                for e in closure:
                    for y in ast.walk(e):
                        if isinstance(y, ast.BinOp):
                            texts.add(norm(y))
                # the whole V handed on (a delegation) accounts for both halves
                whole = any(isinstance(y, ast.Name) and y.id == V and not isinstance(f.module.parent.get(y), ast.BinOp) for e in closure for y in ast.walk(e))
                facts = facts_at(ret)
                for sym, forms in halves:
                    n += 1
                    construct = f"{f.fq}::{norm(ret)[:50]}::{V} {sym} {S}"
                    if forms & texts or whole:
                        col.ok(construct, "the returned value is computed from this half" if not whole else f"`{V}` is handed on whole", f.loc(ret), nontrivial=not whole)
                        continue
                    # known empty: a test of the half (or a name bound to it) that failed
                    aliases = set(forms)
                    for t_ in forms:
                        aliases |= names_of.get(t_, set())
                    empty = any((not pol) and norm(a_) in aliases for a_, pol in facts)
                    # ... or characterised it completely (`half == all real inputs`: handled in closed form on that path)
                    empty = empty or any(pol and isinstance(a_, ast.Compare) and len(a_.ops) == 1 and isinstance(a_.ops[0], ast.Eq)
                                         and (norm(a_.left) in aliases or norm(a_.comparators[0]) in aliases) for a_, pol in facts)
                    col.check(empty, construct, "the path has established that this half is empty",
                              f"`{norm(ret.value)[:50]}` is not computed from `{sorted(forms)[0]}` (no definition that reaches the return mentions it) and the path does not test that this half of "
                              f"`{V}` is empty: the reduction over those variables is lost (the result keeps them as inputs, or misses their multiplicity)", f.loc(ret))
    col.cur.analysed["split_obligations"] = n


# ---------------------------------------------------------------------- reduce-if-present needs the if-absent alternative


def r_guarded_reduce_has_alternative(prog: Program, col: Collector, refs: Refs, cat: Catalogue, rule: str):
    """`if name in x.inputs: x = x.reduce(op, name)` handles the case that x mentions the variable.  When it does not, reducing over the
    variable is still not the identity (sum: times the size, product: to the power of the size): the `if` needs an alternative branch
    that scales x, unless the op is tested to be idempotent."""
    col.rule(rule, "a reduction applied only when the operand mentions the variable has an alternative for when it does not", floor=3)
    n = 0
    for f in prog.funcs.values():
        if isinstance(f.node, ast.Lambda):
            continue
        for node in walk_no_nested(f.node):
            if not isinstance(node, ast.If):
                continue
            t, positive = node.test, True
            while isinstance(t, ast.UnaryOp) and isinstance(t.op, ast.Not):
                t, positive = t.operand, not positive
            if not (isinstance(t, ast.Compare) and len(t.ops) == 1 and isinstance(t.ops[0], (ast.In, ast.NotIn)) and isinstance(t.comparators[0], ast.Attribute)
                    and t.comparators[0].attr in ("inputs", "input_vars")):
                continue
            if isinstance(t.ops[0], ast.NotIn):
                positive = not positive
            present, absent = (node.body, node.orelse) if positive else (node.orelse, node.body)
            recv = norm(t.comparators[0].value)
            left = norm(t.left)
            root = left.split(".")[0]
            hits = [c for st in present for c in ast.walk(st) if isinstance(c, ast.Call) and isinstance(c.func, ast.Attribute) and c.func.attr == "reduce"
                    and norm(c.func.value) == recv and len(c.args) >= 2 and norm(c.args[1]).split(".")[0] == root]
            if not hits:
                continue
            n += 1
            alt = bool(absent) and any(isinstance(x, (ast.Name, ast.Attribute)) and norm(x) == recv for st in absent for x in ast.walk(st))
            col.check(alt, f"{f.fq}::if {norm(t)[:50]}", "the else / elif branch treats the operand that does not mention the variable",
                      f"`{recv}` is reduced over `{left}` only if it mentions it, and there is no alternative branch: when `{recv}` does not depend on `{left}` the reduction is skipped "
                      "altogether, although summing a constant over a variable of size n gives n times the constant (a product: its n-th power)", f.loc(node))
    col.cur.analysed["guarded_reductions"] = n


# ---------------------------------------------------------------------- the tables the rewrites read (shared with C15 R15.1 / R15.2 / R15.6)


def r_units_and_distributive_tables(prog: Program, col: Collector, refs: Refs, cat: Catalogue, rule_units: str, rule_dist: str):
    """Unit elimination drops operands equal to UNITS[op]; pushing a reduction into operands / unfolding relies on DISTRIBUTIVE_OPS.
    A wrong table entry makes the normalised, unfolded and optimised terms disagree with naive evaluation, so both tables are compared
    with the analyser's own algebra (same engine as C15 R15.1 / R15.2)."""
    def ident(mod, expr):
        op = cat.resolve_op(mod, expr)
        return (None, None) if op is None else (op, axioms.identify(cat, op))
    col.rule(rule_units, "UNITS[op] is the neutral element of op (what unit elimination drops)", floor=6)
    for e in cat.table_entries(T + "UNITS"):
        construct = f"UNITS[{norm(e.key)}]"
        if e.value is None:
            col.unresolved(construct, f"opaque write to UNITS: {norm(e.node)}", e.loc)
            continue
        op, ab = ident(e.module, e.key)
        val = const_value(e.value)
        if ab is None or val is NotImplemented:
            col.unresolved(construct, f"cannot resolve op or constant ({norm(e.key)} -> {ab}, {norm(e.value)})", e.loc)
            continue
        m = axioms.neutral_matches(ab, val)
        if m is None:
            col.unresolved(construct, f"no neutral element known for {ab}", e.loc)
        else:
            col.check(m, construct, f"{norm(e.value)} is neutral for {ab}",
                      f"UNITS[{norm(e.key)}] = {norm(e.value)} but the neutral element of {ab} is {axioms.NEUTRAL[ab][1]!r}: unit elimination drops an operand that is not neutral, so the "
                      "normalised term and naive evaluation differ", e.loc)
    col.rule(rule_dist, "every declared (sum, prod) pair distributes (what push-down and unfolding rely on)", floor=6)
    for e in cat.table_entries(T + "DISTRIBUTIVE_OPS"):
        construct = f"DISTRIBUTIVE_OPS.add({norm(e.key)})"
        if not (isinstance(e.key, ast.Tuple) and len(e.key.elts) == 2):
            col.unresolved(construct, "entry is not a literal pair", e.loc)
            continue
        (_, a), (_, m) = ident(e.module, e.key.elts[0]), ident(e.module, e.key.elts[1])
        if a is None or m is None:
            col.unresolved(construct, f"cannot resolve ops ({a}, {m})", e.loc)
            continue
        d = axioms.distributive(a, m)
        if d is None:
            col.unresolved(construct, f"pair ({a}, {m}) mixes carriers or is unknown to the oracle", e.loc)
        else:
            col.check(d[0], construct, f"{m} distributes over {a} on {d[1]}",
                      f"({a}, {m}) is declared distributive but {m} does not distribute over {a}", e.loc)
