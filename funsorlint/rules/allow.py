"""Reasoned allow-list for the C20 ownership rules: one named symbol, one line of reason.  Never wider than a symbol."""

# attribute names that hold interning tables / registries / caches on classes (written by metaclasses and decorators)
CLASS_STATE_ATTRS = {
    "_cons_cache": "hash-consing table of a term class (FunsorMeta/reflect); identity cache, owned by C07",
    "_type_cache": "intern table of parametrised types (GenericTypeMeta, ArrayType, ProductDomain)",
    "_instance_cache": "intern table of parametrised op instances (OpMeta.__call__)",
    "dispatcher": "per-op-class PartialDispatcher (registration at import time)",
    "_subclass_registry": "patterns to re-register on future op subclasses (Op.subclass_register)",
    "_cache": "dispatch cache of PartialDispatcher (keyed by argument types)",
    "registry": "KeyedRegistry table of dispatchers",
    "funcs": "multipledispatch Dispatcher table",
}

# attribute stores on term objects that are part of construction or are derived caches
TERM_ATTR_STORES = {
    ("funsor.terms::reflect", "_ast_values"): "constructor epilogue: reflect stores the constructor arguments on the term it has just built",
    ("funsor.util::lazy_property.__get__", "*"): "lazy_property caches a derived value under the property's own name (never a constructor field)",
}

# functions whose parameter is a caller-owned accumulator by protocol
ACCUMULATOR_PARAMS = {
    "out": "printer protocol: functions registered with quote.register append lines to the caller's fresh `out` list",
}
