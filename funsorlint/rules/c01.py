"""C01 - eager evaluation returns the mathematical value (structural clauses only)."""
from __future__ import annotations

from typing import Optional

from ..catalogue import Catalogue
from ..model import Program
from ..report import Collector
from . import algebra
from .common import Refs

EXPLANATION = (
    "C01 is a value equality; taken whole it is out of reach of static analysis. Decided here are four structural necessary "
    "conditions: R01.1 every operator dunder of Funsor builds the op the Python data model assigns to it, reflected forms swap the "
    "operands of non-commutative ops, named methods build the op of their name and parametrised reductions pass axis/ddof/keepdims "
    "in the order the op declares them; R01.2 the associative-op -> array-reduction table used by Tensor.eager_reduce is the fold of "
    "each op; R01.3 the operator tables of funsor.syntax (symbol, op, ast node) agree row by row with the data model; R01.4 reduction "
    "over variables the operand does not mention compensates with the n-fold power of the REDUCTION op - decided by specialising "
    "each of the four sites to every concrete associative op (branch conditions on op identity/class/table membership are evaluated "
    "from the catalogue) and comparing the compensation with axioms.power_of; R01.5 the count that normalises `mean` ranges over exactly "
    "the variables the add-reduction sums (same reaching definitions); R01.6/R01.7 = R02.1/R02.2 because the default interpretation "
    "layers eager over normalize, so unit-elimination and inverse/involution rewrites are steps of eager evaluation. NOT decided: that a rule's arithmetic on values, "
    "alignment and broadcasting are right."
    ' Added since: R01.8 a Contraction rule moves a reduction into a subset of operands only under distributivity of its own (red_op, bin_op) pair; R01.9 Number and Tensor branches of one substitution rule compute the same formula; R01.10 the einsum kernel of the eager tensor contractions is never given reduced variables no operand mentions; R01.11 a rule registered for ops that carry parameters uses the op instance it receives.'
)
ASSUMPTIONS = ["funsorlint/axioms.py", "the Python data model for operator dunders"]
RULE_TEXT = "one obligation per dunder/method, per table row, per (site, concrete reduction op) pair"


def run(prog: Program, col: Collector, tier: str, refs: Optional[Refs] = None, cat: Optional[Catalogue] = None):
    refs = refs or Refs(prog)
    cat = cat or Catalogue(prog, refs)
    algebra.r_dunders(prog, col, refs, cat, "R01.1")
    from . import c15
    col.rule("R01.2", "associative op -> array reduction table is the fold of the op (shared with R15.4)", floor=6)
    from .. import axioms
    from ..model import norm
    for e in cat.table_entries("funsor.tensor.REDUCE_OP_TO_NUMERIC"):
        k = algebra._abs(cat, e.module, e.key)
        v = algebra._abs(cat, e.module, e.value) if e.value is not None else None
        construct = f"REDUCE_OP_TO_NUMERIC[{norm(e.key)}]"
        if k is None or v is None:
            col.unresolved(construct, "cannot resolve ops", e.loc)
        else:
            col.check(axioms.FOLD.get(k) == v, construct, f"fold of {k} is {v}", f"{norm(e.key)} ({k}) is reduced with {norm(e.value)} ({v}); its fold is {axioms.FOLD.get(k)}", e.loc)
    algebra.r_syntax_tables(prog, col, refs, cat, "R01.3")
    algebra.r_power(prog, col, refs, cat, "R01.4")
    algebra.r_mean_scale(prog, col, refs, cat, "R01.5")
    # eager = Prioritized(eager_base, normalize_base, reflect): the normalising rewrites are steps of eager evaluation too
    algebra.r_unit_elimination(prog, col, refs, cat, "R01.6")
    algebra.r_inverse_rules(prog, col, refs, cat, "R01.7")
    algebra.r_pushdown(prog, col, refs, cat, "R01.8")
    algebra.r_number_tensor_siblings(prog, col, refs, cat, "R01.9")
    algebra.r_absent_vars_kernel(prog, col, refs, cat, "R01.10")
    algebra.r_op_params_used(prog, col, refs, cat, "R01.11")
    algebra.r_commutative_default_symmetric(prog, col, refs, cat, "R01.12")
    algebra.r_reduce_rules_keep_absent_vars(prog, col, refs, cat, "R01.14")
    algebra.r_size_product_over_sequence(prog, col, refs, cat, "R01.15")
    # eager evaluation of (Number, Tensor) and (Tensor, Number) operands runs the mixed scalar/array kernels: mirror images for commutative ops
    col.rule("R01.16", "mixed scalar/array registrations of a commutative op are mirror images", floor=6)
    from . import c15
    c15._mirror(prog, col, refs, cat)
    # the eager tensor kernels split arrays into batch and event dimensions (shared with C06 R06.10)
    col.rule("R01.17", "the batch / event boundary of a tensor's array is computed from that tensor's own event rank", floor=2)
    from . import c06
    c06._boundary_of_own_tensor(prog, col, refs, cat)
    col.rule("R01.18", "axis labels for a tensor's array are generated in the order of that tensor's own inputs", floor=2)
    c06._axis_labels_in_layout_order(prog, col, refs, cat)
    algebra.r_operand_returned_unchanged(prog, col, refs, cat, "R01.19")
    col.rule("R01.20", "a renaming set that is filtered by a test on itself is filtered to a fixpoint", floor=0)
    from . import c04
    c04._self_referential_filter(prog, col, refs, cat)
    algebra.r_binary_rule_operand_order(prog, col, refs, cat, "R01.22")
    algebra.r_receiver_narrowed_reduce(prog, col, refs, cat, "R01.26")
    from . import kernels
    kernels.r_aligned_or_same_layout(prog, col, refs, cat, "R01.23")
    kernels.r_unit_axis_padding(prog, col, refs, cat, "R01.24")
    kernels.r_index_padding_count(prog, col, refs, cat, "R01.25")
    kernels.r_axis_params_rebased(prog, col, refs, cat, "R01.29")
    # parametrised ops (SumOp(axis=-1) / SumOp(axis=-2), GetitemOp(offset)) are distinguished by their parameters when they are interned
    col.rule("R01.21", "the interning key of a parametrised op is its parameters, not a hash of them", floor=2)
    from . import c07
    c07._op_key_overrides(prog, col, refs)
    # eager evaluation of Number operands runs the scalar implementation of an op, of Tensor operands the array one: they must agree
    from . import numerics
    numerics.run_agreement(prog, col, refs, cat, rule="R01.13")
    from . import algebra as _algebra
    _algebra.r_split_reduced_vars_accounted(prog, col, refs, cat, "R01.27")
    from . import algebra as _algebra2
    _algebra2.r_guarded_reduce_has_alternative(prog, col, refs, cat, "R01.28")
    return col
