"""C02 - every rewrite step of an exact interpretation preserves value (structural clauses only)."""
from __future__ import annotations

from typing import Optional

from ..catalogue import Catalogue
from ..model import Program
from ..report import Collector
from . import algebra
from .common import Refs

EXPLANATION = (
    "C02 quantifies over values; decided here is the shared structural dependency of the rewrite rules: they treat the op tables as "
    "axioms and must instantiate them at the right op. R02.1 unit elimination drops terms equal to UNITS[e] only from a contraction "
    "whose bin_op is that same e (guarded by `e in UNITS`, one term kept). R02.2 rules that introduce an inverse (x - y -> x + -y, "
    "x / y -> x * reciprocal(y)), cancel involutions (log(exp x), -(-x), ...) or push a unary op through a product agree with the "
    "inverse tables of funsorlint/axioms.py for the op class they are registered under. R02.3 every rewrite of the unfold/optimize "
    "passes that re-nests a Contraction or pushes a product under a reduction is control-dependent on a DISTRIBUTIVE_OPS test of "
    "exactly the (sum, product) pair it relies on; Contraction.__init__ asserts the same. R02.4 = R01.4 (missing-operand reduction). "
    "R02.5 accumulator seeds are UNITS of the accumulating op. Truthfulness of the tables themselves is C15."
    " Added since: R02.6 push-down of a reduction into some operands needs distributivity of the rule's own pair; R02.7 the same-op branch reduces every operand over all variables; R02.8 occurrence counts are taken over the operand sequence; R02.9 = R01.10; R02.10 variables summed out inside k operands have occurrence count exactly k; distribution over an inner contraction requires that it has no reduction."
)
ASSUMPTIONS = ["funsorlint/axioms.py", "op tables truthful (C15)"]
RULE_TEXT = "one obligation per rewrite rule of the listed kinds / per (site, op) pair / per seed"


def run(prog: Program, col: Collector, tier: str, refs: Optional[Refs] = None, cat: Optional[Catalogue] = None):
    refs = refs or Refs(prog)
    cat = cat or Catalogue(prog, refs)
    algebra.r_unit_elimination(prog, col, refs, cat, "R02.1")
    algebra.r_inverse_rules(prog, col, refs, cat, "R02.2")
    algebra.r_distributive_guards(prog, col, refs, cat, "R02.3")
    algebra.r_power(prog, col, refs, cat, "R02.4")
    algebra.r_seeds(prog, col, refs, cat, "R02.5")
    algebra.r_pushdown(prog, col, refs, cat, "R02.6")
    algebra.r_same_op(prog, col, refs, cat, "R02.7")
    algebra.r_operand_multiplicity(prog, col, refs, cat, "R02.8")
    algebra.r_absent_vars_kernel(prog, col, refs, cat, "R02.9")
    algebra.r_exact_counts(prog, col, refs, cat, "R02.10")
    # the kernels behind the eager (logaddexp, add) contraction rule: NaN-free and exact at -inf (shared with C15 R15.8 / C08 R08.9)
    from . import numerics
    numerics.run(prog, col, refs, cat, rule_log="R02.11", rule_safe=None)
    algebra.r_semiring_roles(prog, col, refs, cat, "R02.12")
    algebra.r_operand_returned_unchanged(prog, col, refs, cat, "R02.13")
    algebra.r_reduce_rules_keep_absent_vars(prog, col, refs, cat, "R02.14")
    algebra.r_size_product_over_sequence(prog, col, refs, cat, "R02.15")
    algebra.r_contraction_rules_cover_reduced_vars(prog, col, refs, cat, "R02.16")
    col.rule("R02.17", "fusing nested substitutions keeps every outer pair and hands the whole outer substitution to every inner value", floor=2)
    from . import c04
    c04._fusion(prog, col, refs, cat)
    col.rule("R02.18", "blocks that are multiplied together in a substitution kernel are concatenated over the same sequence", floor=1)
    c04._co_indexed_blocks(prog, col, refs, cat, c04._subs_collections(prog, refs, cat))
    col.rule("R02.19", "composition of two slices: start, stop and step of the composed slice select exactly the composed index set", floor=1)
    c04._slice_composition(prog, col, refs, cat)
    col.rule("R02.20", "integrating against a Delta substitutes the points of the integrated names only", floor=1)
    c04._delta_integrate(prog, col, refs, cat)
    algebra.r_nested_fusion_same_red_op(prog, col, refs, cat, "R02.21")
    algebra.r_contraction_result_reduces(prog, col, refs, cat, "R02.22")
    algebra.r_binary_rule_operand_order(prog, col, refs, cat, "R02.23")
    algebra.r_receiver_narrowed_reduce(prog, col, refs, cat, "R02.27")
    from . import kernels
    kernels.r_aligned_or_same_layout(prog, col, refs, cat, "R02.24")
    kernels.r_unit_axis_padding(prog, col, refs, cat, "R02.25")
    kernels.r_index_padding_count(prog, col, refs, cat, "R02.26")
    from . import algebra as _algebra
    _algebra.r_split_reduced_vars_accounted(prog, col, refs, cat, "R02.28")
    from . import algebra as _algebra2
    _algebra2.r_guarded_reduce_has_alternative(prog, col, refs, cat, "R02.29")
    from . import algebra as _alg3, c15 as _c15
    _alg3.r_units_and_distributive_tables(prog, col, refs, cat, "R02.30", "R02.31")
    col.rule("R02.32", "mixed scalar/array registrations of a commutative op are mirror images (naive evaluation of op(constant, tensor) runs them)", floor=6)
    _c15._mirror(prog, col, refs, cat)
    algebra.r_op_params_used(prog, col, refs, cat, "R02.33")
    return col
