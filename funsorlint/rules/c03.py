"""C03 - memoised evaluation never returns a result computed for different arguments (memoize clause), and the
reinterpreters rebuild each term from its own children in order."""
from __future__ import annotations

import ast
from typing import Optional, Set

from ..catalogue import Catalogue
from ..cfg import CFG
from ..model import AnalysisError, Func, Program, norm
from ..report import Collector
from .common import Refs, require_func, walk_no_nested

EXPLANATION = (
    "Memoize keeps ONE cache per context that is consulted for every term class (unlike the per-class cons caches), so its key must "
    "identify the class as well as every argument. R03.1 computes which inputs the key depends on (following make_hash_key's own "
    "dependence summary: it ignores its cls parameter) and requires {cls, all args}. R03.2: get, miss test and insert use one key; the "
    "miss test is `is None`, sound because total interpretations never return None (Memoize.is_total forwards the base's). R03.3: "
    "memoize() reads the enclosing interpretation before entering Memoize(base, cache) with a with-statement and yields inside it. "
    "R03.4: both reinterpreters dispatch on type(x) and pass the reinterpreted children in children(x) order. NOT decided: value "
    "equality of deferred and immediate evaluation."
    " Added since: the hit/miss/insert protocol is decided by symbolic execution of every path (funsorlint/protocol.py); what is passed as *args to make_hash_key tiles args exactly; the caller's cache is replaced only when it is None; R03.5-R03.7 the normalising rewrites preserve value (shared with C02)."
)
ASSUMPTIONS = ["children(x) returns the constructor arguments in order (Funsor: _ast_values; checked by C07 R07.4 that these are the keyed args)"]
RULE_TEXT = "one obligation per dependence of the memo key, per protocol clause, per reinterpreter call shape"


def _return_deps(f: Func) -> Set[str]:
    """parameters that some returned expression of f mentions (directly or through local definitions)"""
    params = set(f.params)
    deps: Set[str] = set()
    defs = {}
    for n in walk_no_nested(f.node):
        if isinstance(n, ast.Assign) and len(n.targets) == 1 and isinstance(n.targets[0], ast.Name):
            defs.setdefault(n.targets[0].id, []).append(n.value)

    def visit(e, seen):
        for x in ast.walk(e):
            if isinstance(x, ast.Name):
                if x.id in params:
                    deps.add(x.id)
                elif x.id in defs and x.id not in seen:
                    for v in defs[x.id]:
                        visit(v, seen | {x.id})

    for r in [n for n in walk_no_nested(f.node) if isinstance(n, ast.Return) and n.value is not None]:
        visit(r.value, set())
    return deps


def run(prog: Program, col: Collector, tier: str, refs: Optional[Refs] = None, cat: Optional[Catalogue] = None):
    refs = refs or Refs(prog)
    mi = require_func(prog, "funsor.interpretations::Memoize.interpret")
    mk = require_func(prog, "funsor.interpretations::Interpretation.make_hash_key")
    selfn, clsn = mi.positional[0], mi.positional[1]
    argv = mi.node.args.vararg.arg if mi.node.args.vararg else None

    # ---------------------------------------------------------------- R03.1
    col.rule("R03.1", "a memo table shared by all term classes is keyed by class and all arguments", floor=2)
    cache_accesses = [n for n in walk_no_nested(mi.node) if isinstance(n, ast.Attribute) and n.attr == "cache" and isinstance(n.value, ast.Name) and n.value.id == selfn]
    if not cache_accesses:
        col.violation(f"{mi.fq}::cache", "Memoize.interpret no longer consults self.cache", mi.loc())
        return col
    keys = []
    for a in cache_accesses:
        p = mi.module.parent.get(a)
        if isinstance(p, ast.Subscript):
            keys.append(p.slice)
        elif isinstance(p, ast.Attribute) and p.attr in ("get", "setdefault", "pop"):
            c = mi.module.parent.get(p)
            if isinstance(c, ast.Call) and c.args:
                keys.append(c.args[0])
        elif isinstance(p, ast.Compare):
            keys.append(p.left)
    kn = {norm(k) for k in keys}
    mk_deps = _return_deps(mk)  # which of its parameters make_hash_key's result depends on
    mk_params = mk.positional
    mk_var = mk.node.args.vararg.arg if mk.node.args.vararg else None

    def deps_of(e, seen=()) -> Set[str]:
        out: Set[str] = set()
        if isinstance(e, ast.Name):
            if e.id in (clsn, argv, selfn):
                return {e.id}
            for n in walk_no_nested(mi.node):
                if isinstance(n, ast.Assign) and any(isinstance(t, ast.Name) and t.id == e.id for t in n.targets) and e.id not in seen:
                    out |= deps_of(n.value, tuple(seen) + (e.id,))
            return out
        if isinstance(e, ast.Call) and isinstance(e.func, ast.Attribute) and e.func.attr == mk.name:
            # follow the callee's dependence summary
            for i, a in enumerate(e.args):
                if isinstance(a, ast.Starred):
                    if mk_var in mk_deps:
                        sliced = isinstance(a.value, ast.Subscript)
                        d = deps_of(a.value.value if sliced else a.value, seen)
                        out |= {x + "[sliced]" if sliced and x == argv else x for x in d}
                else:
                    pname = mk_params[i] if i < len(mk_params) else None
                    if pname in mk_deps:
                        out |= deps_of(a, seen)
            return out
        if isinstance(e, ast.Subscript) and isinstance(e.value, ast.Name) and e.value.id == argv:
            return {argv + "[sliced]"}
        for c in ast.iter_child_nodes(e):
            if isinstance(c, ast.expr):
                out |= deps_of(c, seen)
        return out

    def slices_of(e):
        """[(lower, upper)] text bounds for the pieces of `args` that expression e is made of; None = not a pure re-arrangement"""
        if isinstance(e, ast.Name) and e.id == argv:
            return [("", "")]
        if isinstance(e, ast.Subscript) and isinstance(e.value, ast.Name) and e.value.id == argv and isinstance(e.slice, ast.Slice) and e.slice.step is None:
            return [(norm(e.slice.lower) if e.slice.lower is not None else "", norm(e.slice.upper) if e.slice.upper is not None else "")]
        if isinstance(e, ast.Tuple) and len(e.elts) == 1:
            return slices_of(e.elts[0])
        if isinstance(e, ast.Call) and isinstance(e.func, ast.Name) and e.func.id in ("tuple", "list") and len(e.args) == 1:
            return slices_of(e.args[0])
        if isinstance(e, ast.BinOp) and isinstance(e.op, ast.Add):
            a, b = slices_of(e.left), slices_of(e.right)
            return None if a is None or b is None else a + b
        return None

    def covers_all(e, seen=()):
        """does expression e carry every element of *args?  True / False / None (not understood)"""
        if isinstance(e, ast.Name) and e.id != argv:
            defs_ = [n.value for n in walk_no_nested(mi.node) if isinstance(n, ast.Assign) and any(isinstance(t, ast.Name) and t.id == e.id for t in n.targets)]
            if not defs_ or e.id in seen:
                return None
            res = [covers_all(d, tuple(seen) + (e.id,)) for d in defs_]
            if any(r is False for r in res):
                return False
            return True if all(r is True for r in res) else None
        sl = slices_of(e)
        if sl is None:
            return None
        # the pieces must tile args: first starts at the beginning, each next piece starts where the previous ended, last is open
        pos = ""
        for lo, hi in sl:
            same = lo == pos or (pos and lo.replace(" ", "") in (f"{pos}-len({argv})".replace(" ", ""), f"({pos})-len({argv})".replace(" ", "")))
            if not same:
                return False
            pos = hi
        return pos == ""

    if len(kn) != 1:
        col.violation(f"{mi.fq}::one key", f"the cache is read and written under different keys {sorted(kn)}", mi.loc())
    # every element of *args reaches make_hash_key on every definition of what is passed (slices must tile args exactly)
    for c in [n for n in walk_no_nested(mi.node) if isinstance(n, ast.Call) and isinstance(n.func, ast.Attribute) and n.func.attr == mk.name]:
        for a in c.args:
            if isinstance(a, ast.Starred):
                cov = covers_all(a.value)
                if cov is False:
                    col.violation(f"{mi.fq}::key covers every element of args", f"`{norm(a.value)}` re-arranges *{argv} into pieces that do not tile it: an argument is left out of the memo key, "
                                  "so two nodes that differ only there share one entry (a result computed for different arguments is returned)", mi.loc(c))
                elif cov is None:
                    col.unresolved(f"{mi.fq}::key covers every element of args", f"`{norm(a.value)}` not understood as a re-arrangement of *{argv}", mi.loc(c))
    for k in keys[:1]:
        d = deps_of(k)
        col.check(clsn in d, f"{mi.fq}::key depends on cls", f"key depends on {sorted(d)}",
                  f"the memo key depends only on {sorted(d)}: make_hash_key ignores its cls parameter, so two term classes applied to equal arguments share one entry "
                  "(memoize returns a result computed for a different constructor)", mi.loc(k))
        col.check(argv in d, f"{mi.fq}::key depends on all args", "key covers every argument",
                  f"the memo key does not cover all arguments ({sorted(d)}): results computed for different arguments are returned", mi.loc(k))

    # ---------------------------------------------------------------- R03.2
    col.rule("R03.2", "hit / miss / insert protocol of Memoize", floor=4)
    # path-sensitive find-or-add verification (funsorlint/protocol.py): every entry->return path executed symbolically
    from ..protocol import FindOrAdd
    cache_set = set(map(id, cache_accesses))
    fa = FindOrAdd(mi, lambda e: id(e) in cache_set, "self.cache")
    for fd in fa.run():
        col.add(fd.status, f"{mi.fq}::{fd.role}", fd.detail, mi.loc(fd.node) if fd.node is not None else mi.loc())
    col.cur.analysed["paths"] = {"paths": fa.n_paths, "pruned_infeasible": fa.n_pruned, "hit": fa.n_hit, "miss": fa.n_miss}
    if not any(x.status == "violation" for x in fa.findings):
        col.check(fa.n_hit > 0, f"{mi.fq}::hit path exists", "some path returns the cached value", "no path returns a cached value: nothing is memoized", mi.loc())
        col.check(fa.n_miss > 0, f"{mi.fq}::miss path exists", "some path computes and stores", "no path stores a computed value", mi.loc())
    # what is computed on a miss: the base interpretation applied to (cls, *args)
    stores = [n for n in walk_no_nested(mi.node) if isinstance(n, ast.Assign) and any(isinstance(t, ast.Subscript) and t.value in cache_accesses for t in n.targets)]
    for st in stores:
        v = st.value
        if isinstance(v, ast.Name):
            defs = [n for n in walk_no_nested(mi.node) if isinstance(n, ast.Assign) and n is not st and any(isinstance(t, ast.Name) and t.id == v.id for t in n.targets)
                    and isinstance(n.value, ast.Call) and isinstance(n.value.func, ast.Attribute) and n.value.func.attr == "interpret"]
            v = defs[-1].value if defs else v
        base_call = v if isinstance(v, ast.Call) and isinstance(v.func, ast.Attribute) and v.func.attr == "interpret" and "base_interpretation" in norm(v.func.value) else None
        args_ok = base_call is not None and len(base_call.args) == 2 and norm(base_call.args[0]) == clsn and isinstance(base_call.args[1], ast.Starred) and norm(base_call.args[1].value) == argv
        col.check(args_ok, f"{mi.fq}::computed on miss", "on a miss the base interpretation is applied to (cls, *args)",
                  f"the value stored on a miss is `{norm(st.value)}`, not base_interpretation.interpret(cls, *args)", mi.loc(st))
    mt = prog.funcs.get("funsor.interpretations::Memoize.is_total")
    ok = mt is not None and any(isinstance(n, ast.Return) and norm(n.value) == f"{mt.positional[0]}.base_interpretation.is_total" for n in walk_no_nested(mt.node))
    col.check(ok, "funsor.interpretations::Memoize.is_total", "totality is the base interpretation's (so None can only mean 'not cached' for total bases)",
              "Memoize.is_total does not forward base_interpretation.is_total", mt.loc() if mt else mi.loc())

    # ---------------------------------------------------------------- R03.3
    col.rule("R03.3", "memoize() wraps the interpretation active at entry and unwinds it", floor=2)
    mf = require_func(prog, "funsor.interpretations::memoize")
    withs = [n for n in walk_no_nested(mf.node) if isinstance(n, ast.With)]
    yields = [n for n in walk_no_nested(mf.node) if isinstance(n, ast.Yield)]
    ok = len(withs) == 1 and len(yields) == 1 and any(yields[0] is x for x in ast.walk(withs[0]))
    ctx = withs[0].items[0].context_expr if withs else None
    ok = ok and isinstance(ctx, ast.Call) and refs.resolve(ctx.func) == "funsor.interpretations.Memoize"
    col.check(ok, f"{mf.fq}::with Memoize(...): yield", "Memoize is entered with `with` and the managed block runs inside it",
              "memoize() does not enter Memoize(...) with a with-statement around its single yield", mf.loc())
    base_ok = False
    if ok and ctx.args:
        a0 = ctx.args[0]
        if isinstance(a0, ast.Name):
            defs = [n for n in walk_no_nested(mf.node) if isinstance(n, ast.Assign) and any(isinstance(t, ast.Name) and t.id == a0.id for t in n.targets)]
            base_ok = len(defs) == 1 and isinstance(defs[0].value, ast.Call) and refs.resolve(defs[0].value.func) == "funsor.interpreter.get_interpretation" and defs[0].lineno < withs[0].lineno
        elif isinstance(a0, ast.Call):
            base_ok = refs.resolve(a0.func) == "funsor.interpreter.get_interpretation"
        cache_ok = len(ctx.args) >= 2 and norm(ctx.args[1]) == mf.positional[0] if mf.positional else True
        base_ok = base_ok and cache_ok
    col.check(base_ok, f"{mf.fq}::base", "the base is get_interpretation() read before entering, the cache is the caller's", "memoize() does not wrap the interpretation active at entry (or drops the caller's cache)", mf.loc())

    # the cache a caller hands in is the cache that is used: Memoize.__init__ may replace it only when it `is None`
    minit = prog.funcs.get("funsor.interpretations::Memoize.__init__")
    if minit is None:
        col.unresolved("funsor.interpretations::Memoize.__init__", "constructor not found", mi.loc())
    else:
        cache_attr = None
        for a in cache_accesses:
            if isinstance(a, ast.Attribute):
                cache_attr = a.attr
        cparam = None
        stores = [n for n in walk_no_nested(minit.node) if isinstance(n, ast.Assign) and any(isinstance(t, ast.Attribute) and t.attr == cache_attr and isinstance(t.value, ast.Name)
                                                                                              and t.value.id == minit.positional[0] for t in n.targets)]
        for st in stores:
            v = st.value
            construct = f"{minit.fq}::{norm(st)}"
            names = [x.id for x in ast.walk(v) if isinstance(x, ast.Name) and x.id in minit.positional[1:]]
            if not names:
                col.violation(construct, "the cache attribute is not derived from the constructor's cache parameter: a caller-supplied cache is ignored", minit.loc(st))
                continue
            cparam = names[0]
            if isinstance(v, ast.BoolOp) or (isinstance(v, ast.IfExp) and not (isinstance(v.test, ast.Compare) and isinstance(v.test.ops[0], (ast.Is, ast.IsNot)))):
                col.violation(construct, f"`{norm(v)}` replaces the caller's cache whenever it is falsy: an EMPTY dict handed to memoize(cache) is silently swapped for a private one, "
                              "so results are not shared through it (repeated identical subexpressions are rebuilt)", minit.loc(st))
                continue
            # re-bindings of the parameter before the store must be under `<param> is None`
            bad = None
            for n in walk_no_nested(minit.node):
                if isinstance(n, ast.Assign) and any(isinstance(t, ast.Name) and t.id == cparam for t in n.targets) and n.lineno < st.lineno:
                    from .common import guarding_branch
                    gb = guarding_branch(minit.module, n)
                    okg = False
                    if gb is not None:
                        _, t, pos, _ = gb
                        if isinstance(t, ast.Compare) and len(t.ops) == 1 and norm(t.left) == cparam and isinstance(t.comparators[0], ast.Constant) and t.comparators[0].value is None:
                            okg = (isinstance(t.ops[0], ast.Is) and pos) or (isinstance(t.ops[0], ast.IsNot) and not pos)
                    if not okg:
                        bad = n
            col.check(bad is None, construct, "the caller's cache is used unless it is None", f"the cache parameter is replaced under a condition other than `{cparam} is None` "
                      f"(`{norm(bad) if bad is not None else ''}`): an empty dict supplied by the caller is dropped", minit.loc(st))
        if not stores:
            col.unresolved(f"{minit.fq}::cache", "no assignment to the cache attribute found", minit.loc())

    # ---------------------------------------------------------------- R03.4
    col.rule("R03.4", "reinterpreters rebuild each term from type(x) and its children in order", floor=2)
    rr = require_func(prog, "funsor.interpreter::recursion_reinterpret")
    x = rr.positional[0]
    calls = [n for n in walk_no_nested(rr.node) if isinstance(n, ast.Call) and isinstance(n.func, ast.Attribute) and n.func.attr == "interpret"]
    ok = False
    for c in calls:
        if len(c.args) == 2 and norm(c.args[0]) == f"type({x})" and isinstance(c.args[1], ast.Starred):
            inner = c.args[1].value
            ok = isinstance(inner, ast.Call) and norm(inner.func) == "map" and norm(inner.args[0]) == rr.name and norm(inner.args[1]) == f"children({x})"
    col.check(ok, f"{rr.fq}::interpret(type(x), *map(self, children(x)))", "children are reinterpreted and passed in order",
              "recursion_reinterpret does not call interpret(type(x), *map(recursion_reinterpret, children(x)))", rr.loc())
    sr = require_func(prog, "funsor.interpreter::stack_reinterpret")
    # locals bound to `<stack top>.interpret`
    interp_aliases = {t.id for n in walk_no_nested(sr.node) if isinstance(n, ast.Assign) and isinstance(n.value, ast.Attribute) and n.value.attr == "interpret"
                      for t in n.targets if isinstance(t, ast.Name)}
    calls = [n for n in walk_no_nested(sr.node) if isinstance(n, ast.Call) and ((isinstance(n.func, ast.Name) and n.func.id in interp_aliases)
                                                                                 or (isinstance(n.func, ast.Attribute) and n.func.attr == "interpret"))]
    ok = False
    for c in calls:
        if len(c.args) == 2 and isinstance(c.args[0], ast.Call) and norm(c.args[0].func) == "type" and isinstance(c.args[1], ast.Starred) and isinstance(c.args[1].value, ast.GeneratorExp):
            g = c.args[1].value
            v = norm(c.args[0].args[0])
            ok = norm(g.generators[0].iter) == f"children({v})" and not g.generators[0].ifs
    col.check(ok, f"{sr.fq}::interpret(type(v), *(... for c in children(v)))", "children are looked up in children(v) order with no filter",
              "stack_reinterpret does not pass the reinterpreted children of each node in children(value) order", sr.loc())
    bad = [norm(n) for f in (rr, sr) for n in walk_no_nested(f.node) if isinstance(n, ast.Call) and isinstance(n.func, ast.Name) and n.func.id in ("reversed", "sorted", "set")]
    col.check(not bad, "funsor.interpreter::reinterpreters::no reordering", "no reversed/sorted/set round-trip on children", f"children are reordered: {bad}", rr.loc())
    # building under `normalize` and reinterpreting eagerly agrees with eager only if the normalising rewrites preserve value
    from . import algebra
    cat = cat or Catalogue(prog, refs)
    algebra.r_unit_elimination(prog, col, refs, cat, "R03.5")
    algebra.r_inverse_rules(prog, col, refs, cat, "R03.6")
    algebra.r_same_op(prog, col, refs, cat, "R03.7")
    # what sequential / moment_matching / the recursive eager rule do with the reduced variables (shared with C01, C02, C08)
    algebra.r_exact_counts(prog, col, refs, cat, "R03.8")
    algebra.r_reduce_rules_keep_absent_vars(prog, col, refs, cat, "R03.9")
    col.rule("R03.10", "fusing nested substitutions (a normalize / lazy rewrite) keeps every outer pair and hands the whole outer substitution to every inner value", floor=2)
    from . import c04
    c04._fusion(prog, col, refs, cat)
    # the kernel behind the eager (logaddexp, add) contraction that a normalized expression is reinterpreted with
    from . import numerics
    numerics.run(prog, col, refs, cat, rule_log="R03.11", rule_safe=None)
    # what a deferred reduction over a variable the operand does not mention evaluates to (shared with C01 R01.4), and the normalize
    # rule that pushes a substitution into the operands of a contraction (shared with C04 R04.1 / R04.4)
    algebra.r_power(prog, col, refs, cat, "R03.12")
    col.rule("R03.13", "substitution pairs are applied at once, never one at a time to an evolving result", floor=3)
    c04._sequential_loops(prog, col, refs, cat, c04._subs_collections(prog, refs, cat))
    col.rule("R03.14", "a guard over the pairs of a substitution that drops or narrows pairs is universal", floor=2)
    c04._quantified_guards(prog, col, refs, cat, c04._subs_collections(prog, refs, cat))
    # round 7: what every interpretation shares when it (re)builds a binder or substitutes into an evaluated tensor
    from . import c05, kernels
    col.rule("R03.15", "every constructed term is mangled: all bound names, fresh names, rebuilt through reflect (shared with C05 R05.2)", floor=6)
    c05._mangle(prog, col, refs)
    col.rule("R03.16", "a renaming set that is filtered by a test on itself is filtered to a fixpoint (shared with C04 R04.19)", floor=0)
    c04._self_referential_filter(prog, col, refs, cat)
    kernels.r_aligned_or_same_layout(prog, col, refs, cat, "R03.17")
    kernels.r_unit_axis_padding(prog, col, refs, cat, "R03.18")
    kernels.r_index_padding_count(prog, col, refs, cat, "R03.19")
    algebra.r_receiver_narrowed_reduce(prog, col, refs, cat, "R03.20")
    col.rule("R03.21", "a rebuilt node is substituted only at the names that are fresh in the node itself (shared with C04 R04.17)", floor=1)
    c04._fresh_of_original_node(prog, col, refs, cat)
    return col
