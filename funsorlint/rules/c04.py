"""C04 - substitution is simultaneous, capture-avoiding function application (three structural clauses only)."""
from __future__ import annotations

import ast
from typing import Dict, List, Optional, Set

from ..catalogue import Catalogue
from ..model import AnalysisError, Func, Program, norm
from ..report import Collector
from .common import Refs, regions_where, require_func, walk_no_nested

EXPLANATION = (
    "C04 quantifies over the values of arbitrary terms and is NOT decided as a whole. Decided are three clauses whose truth is in the "
    "shape of the code. R04.1 simultaneity: no function of the package applies the pairs of a substitution one at a time to an evolving "
    "result (a loop over the pairs that rebuilds a loop-carried value by substituting only the current pair into the previous value) - "
    "later pairs would then rewrite what earlier pairs introduced, which is sequential, not simultaneous, substitution. R04.2 names that "
    "are not inputs of f are ignored: Funsor.__call__ builds the substitution from f's own inputs only and the Subs metaclass keeps only "
    "pairs whose key is an input of the argument. R04.3 the declared inputs of a lazily built substitution are exactly f's unsubstituted "
    "inputs plus the inputs of the substituted values: Subs.__init__ starts from a copy of arg.inputs, deletes every key, and only then "
    "adds the inputs of every value (so f(x=x+1) keeps x). Capture avoidance is decided under C05. NOT decided: the value of a substitution "
    "(renaming onto existing names, diagonals, slices, fusing of chained substitutions)."
    ' Round 4: R04.4 guards over the pairs (any/all of key membership) are read as quantified statements per branch: handing all pairs to X.eager_subs needs every key in X.fresh, letting an operand pass unsubstituted needs no key among its inputs. R04.5 the Number and Tensor branches of an eager_subs compute the same function of index.data (modulo commutativity). R04.6 a stage of a staged eager_subs whose values may be open terms contains a clash test that depends on its pairs and on the remaining pairs / the term. R04.7 no loop over the pairs removes the current key from a mapping and adds other names to it. R04.8 a Slice-valued branch of an eager_subs reads start, stop and step of the slice. R04.9 where the name of a substituted value becomes a key of the inputs of the result, that name is tested against the inputs of the term itself (or a collapsed renaming raises). R04.10 a single-key eager_subs does not rebuild its own class under the key being substituted.'
)
ASSUMPTIONS = ["binder hygiene (C05)", "substitution collections are recognised by role: a parameter or local named by the Subs constructor field / iterated as (name, value) pairs"]
RULE_TEXT = "one obligation per loop over substitution pairs, per filter of foreign names, per step of the Subs typing rule"

SUBST_CALLS = {"funsor.terms.Subs", "funsor.terms.substitute"}


def _is_subst_expr(e: ast.AST, refs: Refs, pair_names: Set[str]) -> bool:
    """does `e` substitute using only the current pair: Subs(x, ((k, v),)), x(**{k: v}), substitute(x, {k: v}), x(k=v) is impossible"""
    for c in ast.walk(e):
        if not isinstance(c, ast.Call):
            continue
        r = refs.resolve(c.func) if isinstance(c.func, (ast.Name, ast.Attribute)) else None
        if r in SUBST_CALLS and len(c.args) >= 2:
            names = {x.id for x in ast.walk(c.args[1]) if isinstance(x, ast.Name)}
            if pair_names & names and not any(isinstance(x, (ast.GeneratorExp, ast.ListComp, ast.DictComp)) for x in ast.walk(c.args[1])):
                return True
        for k in c.keywords:
            if k.arg is None and isinstance(k.value, ast.Dict):  # f(**{k: v})
                names = {x.id for x in ast.walk(k.value) if isinstance(x, ast.Name)}
                if pair_names & names:
                    return True
    return False


def run(prog: Program, col: Collector, tier: str, refs: Optional[Refs] = None, cat: Optional[Catalogue] = None):
    refs = refs or Refs(prog)
    cat = cat or Catalogue(prog, refs)

    # ---------------------------------------------------------------- R04.1
    col.rule("R04.1", "substitution pairs are applied at once, never one at a time to an evolving result", floor=3)
    colls = _subs_collections(prog, refs, cat)
    _sequential_loops(prog, col, refs, cat, colls)

    # ---------------------------------------------------------------- R04.2
    col.rule("R04.2", "names that are not inputs of f are ignored", floor=2)
    fc = require_func(prog, "funsor.terms::Funsor.__call__")
    selfn = fc.positional[0]
    kw = fc.node.args.kwarg.arg if fc.node.args.kwarg else None
    # every read of kwargs[...] is under iteration over / membership in self.inputs, and kwargs itself never reaches Subs
    ok = kw is not None
    why = "Funsor.__call__ takes no **kwargs"
    if kw is not None:
        reads = [n for n in walk_no_nested(fc.node) if isinstance(n, ast.Subscript) and isinstance(n.value, ast.Name) and n.value.id == kw]
        for rd in reads:
            loops = [a for a in fc.module.ancestors(rd) if isinstance(a, ast.For) and norm(a.iter) in (f"{selfn}.inputs", f"{selfn}.inputs.keys()")]
            if not loops or norm(rd.slice) != norm(loops[0].target):
                ok, why = False, f"`{norm(rd)}` is read outside a loop over {selfn}.inputs"
        leaks = [n for n in walk_no_nested(fc.node) if isinstance(n, ast.Call) and any(isinstance(a, ast.Name) and a.id == kw for a in ast.walk(n) if a is not n.func)
                 and refs.resolve(n.func) in SUBST_CALLS]
        items = [n for n in walk_no_nested(fc.node) if isinstance(n, ast.Call) and isinstance(n.func, ast.Attribute) and n.func.attr in ("items", "update")
                 and any(isinstance(a, ast.Name) and a.id == kw for a in ast.walk(n))]
        if leaks or items:
            ok, why = False, "the caller's keyword dict flows into the substitution unfiltered"
        if not reads:
            ok, why = False, "keyword arguments are not looked up per input"
    col.check(ok, f"{fc.fq}::keywords restricted to own inputs", "keyword substitutions are looked up input by input; other names are dropped",
              f"{why}: a keyword that is not an input of the funsor is not ignored", fc.loc())
    sm = require_func(prog, "funsor.terms::SubsMeta.__call__")
    argp, subsp = sm.positional[1], sm.positional[2]
    filt = False
    for n in walk_no_nested(sm.node):
        if isinstance(n, (ast.GeneratorExp, ast.ListComp)) and norm(n.generators[0].iter) in (subsp, f"{subsp}.items()"):
            for c in n.generators[0].ifs:
                if isinstance(c, ast.Compare) and len(c.ops) == 1 and isinstance(c.ops[0], ast.In) and norm(c.comparators[0]) == f"{argp}.inputs":
                    filt = True
    col.check(filt, f"{sm.fq}::pairs filtered by arg.inputs", "only pairs whose key is an input of the argument are kept",
              "the Subs metaclass no longer drops pairs whose key is not an input of the argument", sm.loc())

    # ---------------------------------------------------------------- R04.4
    col.rule("R04.4", "a guard over the pairs of a substitution that drops or narrows pairs is universal", floor=2)
    _quantified_guards(prog, col, refs, cat, colls)

    # ---------------------------------------------------------------- R04.5
    col.rule("R04.5", "the Number and the Tensor branch of an eager_subs compute the same function of the index data", floor=1)
    _ground_index_siblings(prog, col, refs, cat)

    # ---------------------------------------------------------------- R04.6
    col.rule("R04.6", "a stage of a staged substitution whose values may be open checks for clashes with the pairs applied after it", floor=2)
    _staging(prog, col, refs, cat, colls)

    # ---------------------------------------------------------------- R04.7
    col.rule("R04.7", "keys are removed for all pairs before names are added for any pair (no interleaved delete / insert)", floor=1)
    _interleaved_delete_insert(prog, col, refs, cat, colls)

    # ---------------------------------------------------------------- R04.8
    col.rule("R04.8", "a slice substituted into a term is decomposed completely (start, stop and step)", floor=1)
    _slice_components(prog, col, refs, cat)

    # ---------------------------------------------------------------- R04.9
    col.rule("R04.9", "an input is renamed to the name of a substituted value only after that name is tested against the term's own inputs", floor=2)
    _rename_clash(prog, col, refs, cat, colls)

    # ---------------------------------------------------------------- R04.10
    col.rule("R04.10", "the key that was substituted is not an input of the result: a rebuilt term is named by the value, not by the old key", floor=3)
    _key_leaves_inputs(prog, col, refs, cat)

    # ---------------------------------------------------------------- R04.11
    col.rule("R04.11", "fusing f(S1)(S2): every outer pair is kept and every inner value receives the whole outer substitution", floor=2)
    _fusion(prog, col, refs, cat)

    # ---------------------------------------------------------------- R04.12
    col.rule("R04.12", "blocks that are multiplied together in an eager_subs are concatenated over the same sequence of names", floor=1)
    _co_indexed_blocks(prog, col, refs, cat, colls)

    # ---------------------------------------------------------------- R04.13
    col.rule("R04.13", "slicing a concatenation: the part-local slice bounds select exactly the global indices start, start+step, ... that fall into the part", floor=1)
    _cat_slice_arithmetic(prog, col, refs, cat)

    # ---------------------------------------------------------------- R04.14 (shared with C05: R05.2)
    col.rule("R04.14", "every constructed term is alpha-mangled: all bound names get fresh names (capture avoidance of substituted values)", floor=6)
    from . import c05
    c05._mangle(prog, col, refs)

    # ---------------------------------------------------------------- R04.15 (shared with C06: R06.10)
    col.rule("R04.15", "the batch / event boundary of a tensor's array is computed from that tensor's own event rank", floor=2)
    from . import c06
    c06._boundary_of_own_tensor(prog, col, refs, cat)

    # ---------------------------------------------------------------- R04.16
    col.rule("R04.16", "substituting a ground value into a Delta matches only if ALL coordinates of the point are equal", floor=1)
    _delta_match(prog, col, refs, cat)

    # ---------------------------------------------------------------- R04.17
    col.rule("R04.17", "a rebuilt node is substituted only at the names that are fresh in the node itself, not in what it evaluated to", floor=1)
    _fresh_of_original_node(prog, col, refs, cat)

    # ---------------------------------------------------------------- R04.18
    col.rule("R04.18", "composition of two slices: start, stop and step of the composed slice select exactly the composed index set", floor=1)
    _slice_composition(prog, col, refs, cat)

    # ---------------------------------------------------------------- R04.19
    col.rule("R04.19", "a renaming set that is filtered by a test on itself is filtered to a fixpoint", floor=0)
    _self_referential_filter(prog, col, refs, cat)

    # ---------------------------------------------------------------- R04.20
    col.rule("R04.20", "integrating against a Delta substitutes the points of the integrated names only", floor=1)
    _delta_integrate(prog, col, refs, cat)

    # ---------------------------------------------------------------- R04.21
    col.rule("R04.21", "a term is declared affine in an input only after its op has been tested (affine substitution into Gaussians relies on it)", floor=4)
    _affine_rules_test_op(prog, col, refs, cat)

    # ---------------------------------------------------------------- R04.27
    col.rule("R04.27", "an eager_subs that renames inputs counts duplicate target names over every class of value it renames", floor=1)
    _renaming_duplicates_counted(prog, col, refs, cat)

    # ---------------------------------------------------------------- R04.26
    col.rule("R04.26", "whether an input of the term is substituted is decided on the keys of the substitution, never on a collection that holds names of the values", floor=4)
    _substituted_decided_on_keys(prog, col, refs, cat)

    # ---------------------------------------------------------------- R04.25
    col.rule("R04.25", "the set algebra of the affine_inputs rules claims an input affine only where the op's law allows it", floor=6)
    _affine_calculus(prog, col, refs, cat)

    # ---------------------------------------------------------------- R04.22 / R04.23 (kernels behind substitution of index tensors)
    from . import kernels
    kernels.r_aligned_or_same_layout(prog, col, refs, cat, "R04.22")
    kernels.r_unit_axis_padding(prog, col, refs, cat, "R04.23")
    kernels.r_index_padding_count(prog, col, refs, cat, "R04.24")

    # ---------------------------------------------------------------- R04.3
    col.rule("R04.3", "Subs declares f's unsubstituted inputs plus the inputs of the substituted values", floor=3)
    si = require_func(prog, "funsor.terms::Subs.__init__")
    argp, subsp = si.positional[1], si.positional[2]
    sup = [c for c in walk_no_nested(si.node) if isinstance(c, ast.Call) and isinstance(c.func, ast.Attribute) and c.func.attr == "__init__" and c.args]
    iname = sup[0].args[0].id if sup and isinstance(sup[0].args[0], ast.Name) else None
    if iname is None:
        col.unresolved(f"{si.fq}::inputs", "the inputs passed to the base constructor are not a local", si.loc())
        return col
    start = [n for n in walk_no_nested(si.node) if isinstance(n, ast.Assign) and any(isinstance(t, ast.Name) and t.id == iname for t in n.targets)]
    ok_start = len(start) == 1 and norm(start[0].value) in (f"{argp}.inputs.copy()", f"OrderedDict({argp}.inputs)")
    col.check(ok_start, f"{si.fq}::starts from a copy of arg.inputs", "inputs start as a copy of the argument's inputs",
              "the declared inputs do not start from (a copy of) the argument's inputs", si.loc(start[0]) if start else si.loc())
    dels, adds = [], []
    for lp in [n for n in walk_no_nested(si.node) if isinstance(n, ast.For) and norm(lp_iter := n.iter) == subsp]:
        key = lp.target.elts[0].id if isinstance(lp.target, ast.Tuple) and isinstance(lp.target.elts[0], ast.Name) else None
        val = lp.target.elts[1].id if isinstance(lp.target, ast.Tuple) and len(lp.target.elts) > 1 and isinstance(lp.target.elts[1], ast.Name) else None
        for st in lp.body:
            if isinstance(st, ast.Delete) and any(norm(t) == f"{iname}[{key}]" for t in st.targets):
                dels.append(lp)
            if isinstance(st, ast.Expr) and isinstance(st.value, ast.Call) and norm(st.value.func) == f"{iname}.pop" and st.value.args and norm(st.value.args[0]) == key:
                dels.append(lp)
            if isinstance(st, ast.Expr) and isinstance(st.value, ast.Call) and norm(st.value.func) == f"{iname}.update" and st.value.args and norm(st.value.args[0]) == f"{val}.inputs":
                adds.append(lp)
        if lp.orelse or any(isinstance(x, (ast.Break, ast.Continue)) for x in ast.walk(lp)) or any(isinstance(s_, ast.If) for s_ in lp.body if not isinstance(s_, ast.Assert)):
            if lp in dels or lp in adds:
                col.violation(f"{si.fq}::{norm(lp)[:60]}", "the loop that removes keys / adds value inputs is conditional: some pairs are skipped", si.loc(lp))
    col.check(bool(dels), f"{si.fq}::every key removed", "every substituted key is removed from the inputs", "substituted keys are not removed from the declared inputs", si.loc())
    col.check(bool(adds), f"{si.fq}::every value's inputs added", "the inputs of every substituted value are added",
              "the inputs of the substituted values are not added to the declared inputs", si.loc())
    if dels and adds:
        col.check(max(d.lineno for d in dels) < min(a.lineno for a in adds), f"{si.fq}::remove before add", "keys are removed before value inputs are added (f(x=x+1) keeps x)",
                  "value inputs are added before the keys are removed: an input of a value that has the name of a substituted key is deleted again (f(x=x+1) loses x)", si.loc(adds[0]))
    return col


def _sequential_loops(prog: Program, col: Collector, refs: Refs, cat: Catalogue, colls: Dict[str, Set[str]]):
    n_loops = 0
    # substitution collections by role: the parameter in the position of the `subs` field of Subs in rules registered for
    # Subs, the second parameter of every `eager_subs` method, of `substitute`, of the Subs constructor and metaclass; and
    # locals derived from them by copy constructors / comprehensions
    for f in prog.funcs.values():
        if isinstance(f.node, ast.Lambda) or f.fq not in colls:
            continue
        coll = colls[f.fq]
        for lp in [n for n in walk_no_nested(f.node) if isinstance(n, ast.For)]:
            # a loop over (name, value) pairs of a substitution: target is a 2-tuple, iterable is a name that looks like a
            # substitution collection by role (parameter called like the Subs field, or `.items()` of one)
            if not (isinstance(lp.target, ast.Tuple) and len(lp.target.elts) == 2 and all(isinstance(x, ast.Name) for x in lp.target.elts)):
                continue
            it = lp.iter
            base = it.func.value if isinstance(it, ast.Call) and isinstance(it.func, ast.Attribute) and it.func.attr == "items" else it
            if not (isinstance(base, ast.Name) and base.id in coll):
                continue
            n_loops += 1
            pair = {x.id for x in lp.target.elts}
            carried = []
            for st in ast.walk(lp):
                if isinstance(st, ast.Assign) and len(st.targets) == 1 and isinstance(st.targets[0], ast.Name):
                    x = st.targets[0].id
                    uses_prev = any(isinstance(y, ast.Name) and y.id == x and isinstance(y.ctx, ast.Load) for y in ast.walk(st.value))
                    if uses_prev and _is_subst_expr(st.value, refs, pair):
                        carried.append(st)
            construct = f"{f.fq}::for {norm(lp.target)} in {norm(lp.iter)}"
            if carried:
                col.violation(construct, f"`{norm(carried[0])[:90]}` substitutes the current pair into the value built by the previous iterations: a later pair rewrites what an earlier "
                              "pair introduced ((x*y)(x=y+1, y=x) becomes sequential), so the substitution is not simultaneous", f.loc(carried[0]))
            else:
                col.ok(construct, "the loop does not thread a value through one-pair substitutions", f.loc(lp), nontrivial=False)
    col.cur.analysed["loops_over_substitution_pairs"] = n_loops


# ---------------------------------------------------------------------- substitution collections by role
def _derive(f: Func, coll: Set[str]) -> Set[str]:
    coll = set(coll)
    for _ in range(4):
        before = len(coll)
        for n in walk_no_nested(f.node):
            if isinstance(n, ast.Assign) and len(n.targets) == 1 and isinstance(n.targets[0], ast.Name):
                v = n.value
                src = None
                if isinstance(v, ast.Call) and isinstance(v.func, ast.Name) and v.func.id in ("OrderedDict", "dict", "tuple", "list") and v.args:
                    src = v.args[0]
                if isinstance(src, (ast.GeneratorExp, ast.ListComp)):
                    src = src.generators[0].iter
                if isinstance(v, (ast.GeneratorExp, ast.ListComp, ast.DictComp)):
                    src = v.generators[0].iter
                if isinstance(src, ast.Call) and isinstance(src.func, ast.Attribute) and src.func.attr == "items":
                    src = src.func.value
                if isinstance(src, ast.Name) and src.id in coll:
                    coll.add(n.targets[0].id)
            # M[k] = ... inside a loop over the pairs: M is keyed by the substituted names
            if isinstance(n, ast.For) and isinstance(n.target, ast.Tuple) and n.target.elts and isinstance(n.target.elts[0], ast.Name):
                it = n.iter
                base = it.func.value if isinstance(it, ast.Call) and isinstance(it.func, ast.Attribute) and it.func.attr == "items" else it
                if isinstance(base, ast.Name) and base.id in coll:
                    k = n.target.elts[0].id
                    for st in ast.walk(n):
                        if isinstance(st, ast.Assign):
                            for t in st.targets:
                                if isinstance(t, ast.Subscript) and isinstance(t.value, ast.Name) and isinstance(t.slice, ast.Name) and t.slice.id == k:
                                    coll.add(t.value.id)
        if len(coll) == before:
            break
    return coll


def _subs_collections(prog: Program, refs: Refs, cat: Catalogue) -> Dict[str, Set[str]]:
    """function fq -> local names that hold (part of) a substitution: the parameter in the position of the `subs` field of Subs in
    rules registered for Subs, the second parameter of every `eager_subs` method, of `substitute`, of the Subs constructor and
    metaclass; locals derived from them by copy constructors / comprehensions / keyed stores; and the parameters of helper
    methods that receive such a local (the stages of a staged eager_subs)."""
    subs_params: Dict[str, Set[str]] = {}
    subs_tc = cat.term_classes.get("funsor.terms.Subs")
    subs_idx = subs_tc.fields.index("subs") if subs_tc and "subs" in subs_tc.fields else 1
    for r in cat.registrations:
        if r.target is not None and r.pattern and isinstance(r.pattern[0], (ast.Name, ast.Attribute)) and refs.resolve(r.pattern[0]) == "funsor.terms.Subs":
            pos = r.target.positional
            off = 1 if r.registry.startswith("funsor.") and len(pos) == len(subs_tc.fields) + 1 else 0
            if len(pos) > subs_idx + off:
                subs_params.setdefault(r.target.fq, set()).add(pos[subs_idx + off])
    for f in prog.funcs.values():
        if f.name == "eager_subs" and f.cls is not None and len(f.positional) >= 2:
            subs_params.setdefault(f.fq, set()).add(f.positional[1])
    for fq, idx in (("funsor.terms::substitute", 1), ("funsor.terms::Subs.__init__", 2), ("funsor.terms::SubsMeta.__call__", 2), ("funsor.terms::Funsor.eager_subs", 1)):
        f0 = prog.funcs.get(fq)
        if f0 is not None and len(f0.positional) > idx:
            subs_params.setdefault(fq, set()).add(f0.positional[idx])
    colls: Dict[str, Set[str]] = {}
    work = list(subs_params)
    while work:
        fq = work.pop()
        f = prog.funcs.get(fq)
        if f is None or isinstance(f.node, ast.Lambda):
            continue
        coll = _derive(f, subs_params[fq])
        colls[fq] = coll
        if f.cls is None:
            continue
        selfn = f.positional[0] if f.positional else None
        for c in walk_no_nested(f.node):
            if isinstance(c, ast.Call) and isinstance(c.func, ast.Attribute) and isinstance(c.func.value, ast.Name) and c.func.value.id == selfn:
                m = prog.find_method(f.cls.fq, c.func.attr)
                if m is None or m.fq == fq:
                    continue
                for i, a in enumerate(c.args):
                    names = {x.id for x in ast.walk(a) if isinstance(x, ast.Name)}
                    pure = all(isinstance(x, (ast.Name, ast.BinOp, ast.Add, ast.Load)) for x in ast.walk(a))
                    if names and names <= coll and pure and i + 1 < len(m.positional):
                        pn = m.positional[i + 1]
                        if pn not in subs_params.setdefault(m.fq, set()):
                            subs_params[m.fq].add(pn)
                            work.append(m.fq)
    return colls


# ---------------------------------------------------------------------- R04.4
def _quantifier(test: ast.AST, coll: Set[str]):
    """(quantifier, positive?, key variable, container expression) of `any/all(<key> [not] in <E> for <key>, _ in <S>)`, looking
    through an outer `not`; None when the test has another form."""
    neg = False
    while isinstance(test, ast.UnaryOp) and isinstance(test.op, ast.Not):
        neg = not neg
        test = test.operand
    if not (isinstance(test, ast.Call) and isinstance(test.func, ast.Name) and test.func.id in ("any", "all") and len(test.args) == 1):
        return None
    g = test.args[0]
    if not (isinstance(g, (ast.GeneratorExp, ast.ListComp)) and len(g.generators) == 1 and not g.generators[0].ifs):
        return None
    gen = g.generators[0]
    it = gen.iter
    base = it.func.value if isinstance(it, ast.Call) and isinstance(it.func, ast.Attribute) and it.func.attr in ("items", "keys") else it
    if not (isinstance(base, ast.Name) and base.id in coll):
        return None
    key = gen.target.elts[0] if isinstance(gen.target, ast.Tuple) and gen.target.elts else gen.target
    if not isinstance(key, ast.Name):
        return None
    e = g.elt
    pos = True
    while isinstance(e, ast.UnaryOp) and isinstance(e.op, ast.Not):
        pos = not pos
        e = e.operand
    if not (isinstance(e, ast.Compare) and len(e.ops) == 1 and isinstance(e.ops[0], (ast.In, ast.NotIn)) and isinstance(e.left, ast.Name) and e.left.id == key.id):
        return None
    if isinstance(e.ops[0], ast.NotIn):
        pos = not pos
    q = test.func.id
    if neg:  # not any(p) == all(not p); not all(p) == any(not p)
        q = "all" if q == "any" else "any"
        pos = not pos
    return q, pos, base.id, e.comparators[0]


def _dual(q, pos):
    return ("all" if q == "any" else "any"), (not pos)


def _quantified_guards(prog: Program, col: Collector, refs: Refs, cat: Catalogue, colls: Dict[str, Set[str]]):
    n = 0
    for fq, coll in sorted(colls.items()):
        f = prog.funcs[fq]
        for node in walk_no_nested(f.node):
            if not isinstance(node, (ast.If, ast.IfExp)):
                continue
            qi = _quantifier(node.test, coll)
            if qi is None:
                continue
            q, pos, S, E = qi
            if isinstance(node, ast.IfExp):
                branches = [("true", [node.body]), ("false", [node.orelse])]
            else:
                branches = [("true", node.body), ("false", node.orelse)]
                # `if T: return ...` followed by the rest of the block: the rest is the false branch
                if not node.orelse and node.body and isinstance(node.body[-1], (ast.Return, ast.Raise, ast.Continue)):
                    par = f.module.parent.get(node)
                    for fld in ("body", "orelse", "finalbody"):
                        b = getattr(par, fld, None)
                        if isinstance(b, list) and node in b:
                            branches[1] = ("false", b[b.index(node) + 1:])
            for which, body in branches:
                cq, cpos = (q, pos) if which == "true" else _dual(q, pos)
                body_mod = ast.Module(body=[x if isinstance(x, ast.stmt) else ast.Expr(value=x) for x in body], type_ignores=[])
                construct = f"{f.fq}::{norm(node.test)[:80]}::{which}"
                # (A) the whole collection is handed to a routine that only handles the names in E's owner (X.eager_subs(S), E = X.fresh)
                if isinstance(E, ast.Attribute) and E.attr == "fresh":
                    owner = norm(E.value)
                    handed = [c for c in ast.walk(body_mod) if isinstance(c, ast.Call) and isinstance(c.func, ast.Attribute) and c.func.attr == "eager_subs"
                              and norm(c.func.value) == owner and len(c.args) == 1 and isinstance(c.args[0], ast.Name) and c.args[0].id == S]
                    if handed:
                        n += 1
                        col.check((cq, cpos) == ("all", True), construct,
                                  f"all pairs are handed to {owner}.eager_subs only when every key is one of its fresh names",
                                  f"all pairs are handed to {owner}.eager_subs although only {'some key is' if cq == 'any' else 'not every key is'} known to be one of its fresh names: "
                                  "eager_subs of a term with fresh names handles those names only, so the other pairs are silently dropped", f.loc(handed[0]))
                # (B) an operand passes through unsubstituted: only when none of the keys is among its inputs
                if isinstance(E, ast.Attribute) and E.attr == "inputs" and isinstance(E.value, ast.Name):
                    X = E.value.id
                    passes = (isinstance(node, ast.IfExp) and isinstance(body[0], ast.Name) and body[0].id == X) or \
                        (isinstance(node, ast.If) and any(isinstance(st, ast.Return) and isinstance(st.value, ast.Name) and st.value.id == X for st in body))
                    if passes:
                        n += 1
                        col.check((cq, cpos) == ("all", False), construct,
                                  f"`{X}` is left unsubstituted only when no key is among its inputs",
                                  f"`{X}` is left unsubstituted whenever {'some key is missing from' if (cq, cpos) == ('any', False) else 'the guard fails for'} its inputs: "
                                  "pairs whose key it does mention are dropped, so the substituted names stay free in the result", f.loc(node))
    col.cur.analysed["quantified_guards"] = n


# ---------------------------------------------------------------------- R04.5
def _poly(e: ast.AST):
    """canonical form of an expression modulo commutativity / associativity of + and *: frozenset-free nested sorted tuples"""
    if isinstance(e, ast.BinOp) and isinstance(e.op, ast.Add):
        def terms(x):
            return terms(x.left) + terms(x.right) if isinstance(x, ast.BinOp) and isinstance(x.op, ast.Add) else [x]
        return ("+",) + tuple(sorted(repr(_poly(t)) for t in terms(e)))
    if isinstance(e, ast.BinOp) and isinstance(e.op, ast.Mult):
        def facs(x):
            return facs(x.left) + facs(x.right) if isinstance(x, ast.BinOp) and isinstance(x.op, ast.Mult) else [x]
        return ("*",) + tuple(sorted(repr(_poly(t)) for t in facs(e)))
    return ("atom", norm(e))


def _ground_index_siblings(prog: Program, col: Collector, refs: Refs, cat: Catalogue):
    n = 0
    for f in prog.funcs.values():
        if f.name != "eager_subs" or f.cls is None:
            continue

        def kind(test):
            """('Number'|'Tensor', var) for isinstance(v, Number) / isinstance(v, Tensor) / type(v).__name__ == 'Tensor'"""
            if isinstance(test, ast.Call) and isinstance(test.func, ast.Name) and test.func.id == "isinstance" and len(test.args) == 2 and isinstance(test.args[0], ast.Name):
                r = refs.resolve(test.args[1]) if isinstance(test.args[1], (ast.Name, ast.Attribute)) else None
                if r in ("funsor.terms.Number", "funsor.tensor.Tensor"):
                    return r.rsplit(".", 1)[-1], test.args[0].id
            if isinstance(test, ast.Compare) and len(test.ops) == 1 and isinstance(test.ops[0], ast.Eq) and isinstance(test.comparators[0], ast.Constant) \
                    and test.comparators[0].value in ("Tensor", "Number"):
                l = test.left
                if isinstance(l, ast.Attribute) and l.attr == "__name__" and isinstance(l.value, ast.Call) and isinstance(l.value.func, ast.Name) and l.value.func.id == "type" \
                        and l.value.args and isinstance(l.value.args[0], ast.Name):
                    return test.comparators[0].value, l.value.args[0].id
            return None

        found = {}
        for node, k, region in regions_where(f.module, f.node, kind):
            v = k[1]
            for st in region:
                if isinstance(st, ast.Assign) and len(st.targets) == 1 and isinstance(st.targets[0], ast.Name) \
                        and any(isinstance(x, ast.Attribute) and x.attr == "data" and isinstance(x.value, ast.Name) and x.value.id == v for x in ast.walk(st.value)):
                    found.setdefault((v, st.targets[0].id), {}).setdefault(k[0], (st, node))
        # the declared dtype of the two results: Number(data, D) / <Tensor>(data, inputs, D)
        dtypes = {}
        for node, k, region in regions_where(f.module, f.node, kind):
            for st in region:
                if isinstance(st, ast.Return) and isinstance(st.value, ast.Call) and len(st.value.args) >= 2:
                    dtypes.setdefault(k[1], {}).setdefault(k[0], (st.value.args[-1], st))
        for v, d in dtypes.items():
            if "Number" in d and "Tensor" in d:
                n += 1
                a, b = d["Number"], d["Tensor"]
                col.check(norm(a[0]) == norm(b[0]), f"{f.fq}::dtype for Number / Tensor `{v}`",
                          f"both ground-index branches declare the dtype `{norm(a[0])}`",
                          f"the Number branch declares the result with dtype `{norm(a[0])}` but the Tensor branch with `{norm(b[0])}`: the same substitution is typed differently "
                          "for a number and for a tensor of indices (the declared bounded-integer domain need not contain the data)", f.loc(b[1]))
        for (v, tgt), d in found.items():
            if "Number" in d and "Tensor" in d:
                n += 1
                a, b = d["Number"][0], d["Tensor"][0]
                same = _poly(a.value) == _poly(b.value)
                col.check(same, f"{f.fq}::{tgt} for Number / Tensor `{v}`",
                          f"both ground-index branches compute `{norm(a.value)}`",
                          f"the Number branch computes `{norm(a.value)}` but the Tensor branch computes `{norm(b.value)}`: substituting an index tensor does not denote the "
                          "pointwise substitution of its elements", f.loc(b))
    col.cur.analysed["ground_index_sibling_pairs"] = n


# ---------------------------------------------------------------------- R04.6
GROUND_VALUE_CLASSES = {"funsor.terms.Number", "funsor.tensor.Tensor", "funsor.terms.Slice"}


def _staging(prog: Program, col: Collector, refs: Refs, cat: Catalogue, colls: Dict[str, Set[str]]):
    """A staged eager_subs applies one class of pairs and wraps the result in Subs(result, remaining).  That is sequential
    application; it equals the simultaneous substitution only if no name introduced by a value of the stage is a key of the
    remaining pairs.  Ground values (Number / Tensor / Slice) introduce batch names only; for a stage whose values may be open
    terms the stage must test for the clash (and raise or stay lazy)."""
    n = 0
    for fq, coll in sorted(colls.items()):
        f = prog.funcs[fq]
        if f.name != "eager_subs" or f.cls is None:
            continue
        selfn = f.positional[0]
        defs = {}
        for st in walk_no_nested(f.node):
            if isinstance(st, ast.Assign) and len(st.targets) == 1 and isinstance(st.targets[0], ast.Name):
                defs.setdefault(st.targets[0].id, []).append(st.value)
        for c in walk_no_nested(f.node):
            if not (isinstance(c, ast.Call) and isinstance(c.func, ast.Attribute) and isinstance(c.func.value, ast.Name) and c.func.value.id == selfn and len(c.args) == 2):
                continue
            m = prog.find_method(f.cls.fq, c.func.attr)
            if m is None or len(m.positional) != 3:
                continue
            stage_arg, rem_arg = c.args
            if not (isinstance(stage_arg, ast.Name) and stage_arg.id in coll):
                continue
            # is this a stage?  the callee returns Subs(<result>, <its last parameter>) on some path
            remp = m.positional[2]
            wraps = [x for x in ast.walk(m.node) if isinstance(x, ast.Call) and refs.resolve(x.func) == "funsor.terms.Subs" and len(x.args) == 2
                     and isinstance(x.args[1], ast.Name) and x.args[1].id == remp]
            if not wraps:
                continue
            n += 1
            # value classes admitted by the filter that defines the stage's pairs
            ground = None
            for v in defs.get(stage_arg.id, []):
                g = v.args[0] if isinstance(v, ast.Call) and v.args and isinstance(v.args[0], (ast.GeneratorExp, ast.ListComp)) else v
                if isinstance(g, (ast.GeneratorExp, ast.ListComp)):
                    classes = set()
                    for cond in g.generators[0].ifs:
                        for t in ast.walk(cond):
                            if isinstance(t, ast.Call) and isinstance(t.func, ast.Name) and t.func.id == "isinstance" and len(t.args) == 2:
                                par = f.module.parent.get(t)
                                negated = isinstance(par, ast.UnaryOp) and isinstance(par.op, ast.Not)
                                elts = t.args[1].elts if isinstance(t.args[1], ast.Tuple) else [t.args[1]]
                                if not negated:
                                    classes |= {refs.resolve(x) for x in elts if isinstance(x, (ast.Name, ast.Attribute))}
                    positive = [cond for cond in g.generators[0].ifs if isinstance(cond, ast.Call) and isinstance(cond.func, ast.Name) and cond.func.id == "isinstance"]
                    ground = bool(positive) and bool(classes) and classes <= GROUND_VALUE_CLASSES
            construct = f"{m.fq}::stage applied before `{norm(rem_arg)}`"
            if ground:
                # ground values introduce batch (integer-typed) names only, so the pairs applied afterwards must not be keyed by
                # integer-typed inputs: the collection whose filter keeps values with `dtype != "real"` may not be in the remainder
                int_keyed = set()
                for nm, vs in defs.items():
                    for v in vs:
                        for x in ast.walk(v):
                            if isinstance(x, ast.Compare) and len(x.ops) == 1 and isinstance(x.ops[0], ast.NotEq) and isinstance(x.comparators[0], ast.Constant) \
                                    and x.comparators[0].value == "real" and isinstance(x.left, ast.Attribute) and x.left.attr == "dtype":
                                int_keyed.add(nm)
                later_int = sorted({x.id for x in ast.walk(rem_arg) if isinstance(x, ast.Name) and x.id in int_keyed and x.id != stage_arg.id})
                col.check(not later_int, construct,
                          f"the values of `{stage_arg.id}` are ground (Number / Tensor / Slice): they introduce batch names only, and no integer-keyed pair is applied afterwards",
                          f"the ground values of `{stage_arg.id}` may carry batch inputs, and the integer-keyed pairs `{', '.join(later_int)}` are applied to the result afterwards: "
                          "g(i=1, x=T) with a tensor T that has an input named i evaluates T at i=1 as well (sequential, not simultaneous, substitution); the integer stage "
                          "has to come first", f.loc(c))
                continue
            # open values: look for a clash test in the stage: an `if` that raises / stays lazy and depends on both the stage's pairs
            # and (the remaining pairs or the term's own inputs)
            subsp = m.positional[1]
            from ..dataflow import param_deps
            guard = None
            from ..cfg import CFG
            mcfg = CFG(m.node)
            for node in walk_no_nested(m.node):
                if not isinstance(node, ast.If):
                    continue
                exits = any(isinstance(x, ast.Raise) for st in node.body for x in ast.walk(st)) or \
                    any(isinstance(st, ast.Return) and isinstance(st.value, ast.Call) and norm(st.value.func).endswith("reflect.interpret") for st in node.body)
                if not exits:
                    continue
                # flow-sensitive: which parameters can the test depend on through the definitions that reach it
                names = param_deps(m, node.test, node, cfg=mcfg)
                if subsp in names and (remp in names or m.positional[0] in names):
                    guard = node
            col.check(guard is not None, construct,
                      "the stage tests its values against the pairs applied afterwards / the term's inputs and raises or stays lazy on a clash",
                      f"the values of `{stage_arg.id}` may be open terms, and the stage wraps its result in Subs(result, {remp}) without testing that no name they introduce is a key "
                      f"of `{remp}`: the later pairs rewrite variables that came in with this stage's values (g(x=2*y, y=e) evaluates e twice), which is sequential, "
                      "not simultaneous, substitution", m.loc(wraps[0]))
    col.cur.analysed["substitution_stages"] = n


# ---------------------------------------------------------------------- R04.7
def _interleaved_delete_insert(prog: Program, col: Collector, refs: Refs, cat: Catalogue, colls: Dict[str, Set[str]]):
    n = 0
    for fq, coll in sorted(colls.items()):
        f = prog.funcs[fq]
        for lp in [x for x in walk_no_nested(f.node) if isinstance(x, ast.For)]:
            it = lp.iter
            base = it.func.value if isinstance(it, ast.Call) and isinstance(it.func, ast.Attribute) and it.func.attr in ("items", "keys") else it
            if not (isinstance(base, ast.Name) and base.id in coll):
                continue
            key = lp.target.elts[0] if isinstance(lp.target, ast.Tuple) and lp.target.elts else lp.target
            if not isinstance(key, ast.Name):
                continue
            n += 1
            dels, ins = {}, {}
            for x in ast.walk(lp):
                if isinstance(x, ast.Delete):
                    for t in x.targets:
                        if isinstance(t, ast.Subscript) and isinstance(t.value, ast.Name) and isinstance(t.slice, ast.Name) and t.slice.id == key.id:
                            dels[t.value.id] = x
                if isinstance(x, ast.Call) and isinstance(x.func, ast.Attribute) and x.func.attr == "pop" and isinstance(x.func.value, ast.Name) \
                        and x.args and isinstance(x.args[0], ast.Name) and x.args[0].id == key.id:
                    dels[x.func.value.id] = x
                if isinstance(x, ast.Assign):
                    for t in x.targets:
                        if isinstance(t, ast.Subscript) and isinstance(t.value, ast.Name) and not (isinstance(t.slice, ast.Name) and t.slice.id == key.id):
                            ins[t.value.id] = x
                if isinstance(x, ast.Call) and isinstance(x.func, ast.Attribute) and x.func.attr in ("update", "setdefault") and isinstance(x.func.value, ast.Name):
                    ins[x.func.value.id] = x
            both = sorted(set(dels) & set(ins))
            construct = f"{f.fq}::for {norm(lp.target)} in {norm(lp.iter)}"
            if both:
                M = both[0]
                col.violation(construct, f"the loop over the pairs both removes the current key from `{M}` and adds names for the current value to `{M}`: the key of a later pair "
                              "deletes a name added for an earlier pair (f(x=2*y, y=3*x) loses y), so the pairs are not applied at once", f.loc(ins[M]))
            else:
                col.ok(construct, "no mapping has the current key removed and other names added in the same pass", f.loc(lp), nontrivial=False)
    col.cur.analysed["loops_checked_for_interleaving"] = n


# ---------------------------------------------------------------------- R04.8
def _slice_components(prog: Program, col: Collector, refs: Refs, cat: Catalogue):
    """In an eager_subs, a branch for a value that is a Slice and that reads the components of `<value>.slice` computes the
    composed index set from them; the set depends on start, stop AND step, so a branch that reads only some of them is the
    composition for other slices than the one given (the usual omission: the inner stop, which makes the result too long)."""
    n = 0
    for f in prog.funcs.values():
        if f.name != "eager_subs" or f.cls is None:
            continue
        def is_slice_test(t):
            if isinstance(t, ast.Call) and isinstance(t.func, ast.Name) and t.func.id == "isinstance" and len(t.args) == 2 and isinstance(t.args[0], ast.Name) \
                    and (refs.resolve(t.args[1]) if isinstance(t.args[1], (ast.Name, ast.Attribute)) else None) == "funsor.terms.Slice":
                return t.args[0].id
            return None

        for node, v, region in regions_where(f.module, f.node, is_slice_test):
            comps = set()
            whole = False
            for st in region:
                for x in ast.walk(st):
                    if isinstance(x, ast.Attribute) and isinstance(x.value, ast.Attribute) and x.value.attr == "slice" and isinstance(x.value.value, ast.Name) and x.value.value.id == v:
                        comps.add(x.attr)
                    if isinstance(x, ast.Attribute) and x.attr == "slice" and isinstance(x.value, ast.Name) and x.value.id == v \
                            and not isinstance(f.module.parent.get(x), ast.Attribute):
                        whole = True
            if not comps or whole:
                continue
            n += 1
            missing = {"start", "stop", "step"} - comps
            col.check(not missing, f"{f.fq}::components of {v}.slice",
                      f"the branch for a Slice value reads start, stop and step of `{v}.slice`",
                      f"the branch for a Slice value reads only {sorted(comps)} of `{v}.slice` ({sorted(missing)} ignored): the composed slice does not depend on it, so e.g. "
                      "x(i=Slice(j, a, b)) has as many elements as if b were the full length", f.loc(node))
    col.cur.analysed["slice_branches"] = n


# ---------------------------------------------------------------------- R04.9
def _rename_clash(prog: Program, col: Collector, refs: Refs, cat: Catalogue, colls: Dict[str, Set[str]]):
    """Substituting a Variable / Slice by *renaming* an input (`k = v.name; inputs[k] = d`, or a rename map) is only the
    substitution if the new name is not already an input that keeps its name: otherwise two inputs collapse into one
    (t(i="j") with j an input) or a later pair rewrites the renamed input (t(i="j", j=0)).  A function that uses the name of a
    substituted value as a key of the result's inputs must therefore test that name against the term's own inputs (membership),
    or compare the size of the renamed mapping with the original and raise."""
    n = 0
    for fq, coll in sorted(colls.items()):
        f = prog.funcs[fq]
        if f.cls is None or not f.positional:
            continue
        selfn = f.positional[0]
        # locals bound to `<value>.name` where <value> comes from the pairs (loop / comprehension target or subscript of the collection)
        valnames = set()
        for x in ast.walk(f.node):
            if isinstance(x, (ast.For, ast.comprehension)):
                it = x.iter
                base = it.func.value if isinstance(it, ast.Call) and isinstance(it.func, ast.Attribute) and it.func.attr in ("items", "values") else it
                if isinstance(base, ast.Name) and base.id in coll:
                    tg = x.target
                    if isinstance(tg, ast.Tuple) and len(tg.elts) == 2 and isinstance(tg.elts[1], ast.Name):
                        valnames.add(tg.elts[1].id)
                    elif isinstance(tg, ast.Name) and isinstance(it, ast.Call) and it.func.attr == "values":
                        valnames.add(tg.id)
            if isinstance(x, ast.Assign) and len(x.targets) == 1 and isinstance(x.targets[0], ast.Name) and isinstance(x.value, ast.Subscript) \
                    and isinstance(x.value.value, ast.Name) and x.value.value.id in coll:
                valnames.add(x.targets[0].id)

        def is_value_name(e):
            return isinstance(e, ast.Attribute) and e.attr == "name" and isinstance(e.value, ast.Name) and e.value.id in valnames

        # uses of a value's name as a key of a new inputs mapping
        renames = []
        for x in walk_no_nested(f.node):
            if isinstance(x, ast.Assign) and len(x.targets) == 1 and isinstance(x.targets[0], ast.Name) and is_value_name(x.value):
                k = x.targets[0].id
                for y in walk_no_nested(f.node):
                    if isinstance(y, ast.Assign) and any(isinstance(t, ast.Subscript) and isinstance(t.slice, ast.Name) and t.slice.id == k for t in y.targets):
                        renames.append(x)
                        break
            if isinstance(x, ast.Assign) and any(isinstance(t, ast.Subscript) and is_value_name(t.slice) for t in x.targets):
                renames.append(x)
            if isinstance(x, ast.Assign) and isinstance(x.value, ast.DictComp) and is_value_name(x.value.value):
                # rename = {k: v.name for k, v in subs}; used through rename.get(k, k) as a key
                m = x.targets[0].id if isinstance(x.targets[0], ast.Name) else None
                if m and any(isinstance(y, ast.Call) and isinstance(y.func, ast.Attribute) and y.func.attr == "get" and isinstance(y.func.value, ast.Name) and y.func.value.id == m
                             for y in ast.walk(f.node)):
                    renames.append(x)
        if not renames:
            continue
        n += 1
        # clash tests
        member = [c for c in ast.walk(f.node) if isinstance(c, ast.Compare) and len(c.ops) == 1 and isinstance(c.ops[0], (ast.In, ast.NotIn))
                  and any(isinstance(y, ast.Attribute) and y.attr == "name" for y in ast.walk(c.left))
                  and norm(c.comparators[0]) in (f"{selfn}.inputs", f"{selfn}.inputs.keys()")]
        sizes = []
        for c in ast.walk(f.node):
            if isinstance(c, ast.If) and isinstance(c.test, ast.Compare) and len(c.test.ops) == 1 and isinstance(c.test.ops[0], (ast.NotEq, ast.Lt, ast.Gt)):
                l, r = c.test.left, c.test.comparators[0]
                if all(isinstance(e, ast.Call) and isinstance(e.func, ast.Name) and e.func.id == "len" for e in (l, r)) \
                        and f"{selfn}.inputs" in (norm(l.args[0]), norm(r.args[0])) and any(isinstance(y, ast.Raise) for st in c.body for y in ast.walk(st)):
                    sizes.append(c)
        construct = f"{f.fq}::{norm(renames[0])[:70]}"
        col.check(bool(member or sizes), construct,
                  "the new name is tested against the term's own inputs" if member else "a collapsed renaming (fewer inputs than before) raises",
                  "the name of a substituted value becomes a key of the result's inputs without ever being compared with the term's own inputs: renaming onto a name the "
                  "term already uses collapses two inputs into one (t(i='j') with j an input), and a later pair of the same call rewrites the renamed input (t(i='j', j=0))",
                  f.loc(renames[0]))
    col.cur.analysed["renaming_sites"] = n


# ---------------------------------------------------------------------- R04.10
def _key_leaves_inputs(prog: Program, col: Collector, refs: Refs, cat: Catalogue):
    """An eager_subs that asserts its single key to be the term's own name field (`subs[0][0] == self.name`) substitutes that
    name away.  A result rebuilt with the class's own constructor and `self.name` in the name position still has the key as an
    input - the value's own variable (the name of the Variable / Slice) is the one that must appear."""
    n = 0
    for f in prog.funcs.values():
        if f.name != "eager_subs" or f.cls is None or not f.positional:
            continue
        selfn = f.positional[0]
        field = None
        for st in f.body:
            if isinstance(st, ast.Assert):
                for c in ast.walk(st.test):
                    if isinstance(c, ast.Compare) and len(c.ops) == 1 and isinstance(c.ops[0], ast.Eq):
                        sides = [c.left, c.comparators[0]]
                        own = [e for e in sides if isinstance(e, ast.Attribute) and isinstance(e.value, ast.Name) and e.value.id == selfn]
                        key = [e for e in sides if isinstance(e, ast.Subscript) and isinstance(e.value, ast.Subscript)]
                        if own and key:
                            field = own[0].attr
        if field is None:
            continue
        n += 1
        bad = []
        for r in [x for x in walk_no_nested(f.node) if isinstance(x, ast.Return) and x.value is not None]:
            for c in ast.walk(r.value):
                if isinstance(c, ast.Call) and isinstance(c.func, ast.Name) and (refs.resolve(c.func) or "") == f.cls.fq and c.args:
                    a0 = c.args[0]
                    if isinstance(a0, ast.Attribute) and a0.attr == field and isinstance(a0.value, ast.Name) and a0.value.id == selfn:
                        bad.append((r, c))
        construct = f"{f.fq}::result name"
        if bad:
            col.violation(construct, f"`{norm(bad[0][1])[:70]}` rebuilds the term under its old name `{selfn}.{field}` although that name is the key being substituted: "
                          "the result still has the key as an input and does not mention the variable of the substituted value", f.loc(bad[0][0]))
        else:
            col.ok(construct, f"no result is rebuilt under the substituted key `{selfn}.{field}`", f.loc())
    col.cur.analysed["single_key_eager_subs"] = n


# ---------------------------------------------------------------------- R04.11
def _fusion(prog: Program, col: Collector, refs: Refs, cat: Catalogue):
    """f(S1)(S2) = f(S2 + {k: v(S2) for (k, v) in S1}): the outer pairs act on f's remaining inputs AND inside every inner value.
    A fusion rule that filters the outer pairs by anything but "is an input of the argument" (e.g. by what the inner values
    mention, or by what f mentions) drops one of the two actions for names that need both."""
    n = 0
    seen = set()
    for r in cat.registrations:
        f = r.target
        if f is None or len(r.pattern) < 2 or isinstance(f.node, ast.Lambda) or f.fq in seen:
            continue
        if refs.resolve(r.pattern[0]) != "funsor.terms.Subs" or refs.resolve(r.pattern[1]) != "funsor.terms.Subs" or len(f.positional) < 2:
            continue
        seen.add(f.fq)
        n += 1
        argn, outer = f.positional[0], f.positional[1]
        whole = {outer}

        def is_std_filter(c, key):
            return isinstance(c, ast.Compare) and len(c.ops) == 1 and isinstance(c.ops[0], ast.In) and isinstance(c.left, ast.Name) and c.left.id == key \
                and norm(c.comparators[0]) in (f"{argn}.inputs", f"{argn}.input_vars")

        bad = []
        for _ in range(3):
            for st in walk_no_nested(f.node):
                comps = [x for x in ast.walk(st) if isinstance(x, (ast.GeneratorExp, ast.ListComp, ast.DictComp, ast.SetComp))]
                for cp in comps:
                    g = cp.generators[0]
                    it = g.iter
                    base = it.func.value if isinstance(it, ast.Call) and isinstance(it.func, ast.Attribute) and it.func.attr == "items" else it
                    if not (isinstance(base, ast.Name) and base.id in whole):
                        continue
                    key = g.target.elts[0].id if isinstance(g.target, ast.Tuple) and g.target.elts and isinstance(g.target.elts[0], ast.Name) else None
                    nonstd = [c for c in g.ifs if not is_std_filter(c, key)]
                    if nonstd:
                        if (cp, nonstd[0]) not in bad:
                            bad.append((cp, nonstd[0]))
                    elif isinstance(st, ast.Assign) and len(st.targets) == 1 and isinstance(st.targets[0], ast.Name):
                        v = st.value
                        inner = v.args[0] if isinstance(v, ast.Call) and isinstance(v.func, ast.Name) and v.func.id in ("tuple", "list", "OrderedDict", "dict") and v.args else v
                        if inner is cp and isinstance(getattr(cp, "elt", None), ast.Tuple) and len(cp.elt.elts) == 2 \
                                and isinstance(g.target, ast.Tuple) and [norm(e) for e in cp.elt.elts] == [norm(e) for e in g.target.elts]:
                            whole.add(st.targets[0].id)   # an unfiltered / standard-filtered copy of the outer pairs
        # every inner value is wrapped with the WHOLE outer substitution
        wraps = [c for c in ast.walk(f.node) if isinstance(c, ast.Call) and refs.resolve(c.func) == "funsor.terms.Subs" and len(c.args) == 2
                 and isinstance(f.module.parent.get(c), ast.Tuple)]
        # ... or conditionally: `Subs(v, outer) if <test> else v` is only the same thing when the test says "no key is an input of v"
        for ie in [x for x in ast.walk(f.node) if isinstance(x, ast.IfExp) and isinstance(f.module.parent.get(x), ast.Tuple)]:
            for wrapped, bare, when_true in ((ie.body, ie.orelse, True), (ie.orelse, ie.body, False)):
                if isinstance(wrapped, ast.Call) and refs.resolve(wrapped.func) == "funsor.terms.Subs" and len(wrapped.args) == 2 and isinstance(bare, ast.Name) \
                        and norm(wrapped.args[0]) == bare.id:
                    wraps.append(wrapped)
                    qi = _quantifier(ie.test, whole)
                    ok_cond = False
                    if qi is not None:
                        q, pos, _S, E = qi
                        # condition under which the value passes through UNWRAPPED
                        cq, cpos = _dual(q, pos) if when_true else (q, pos)
                        ok_cond = isinstance(E, ast.Attribute) and E.attr in ("inputs", "input_vars") and norm(E.value) == bare.id and (cq, cpos) == ("all", False)
                    if not ok_cond:
                        bad.append((ie, ie.test))
        bad_wrap = [c for c in wraps if not (isinstance(c.args[1], ast.Name) and c.args[1].id in whole)]
        construct = f"{f.fq}::fusion"
        if bad:
            cp, cond = bad[0]
            col.violation(construct, f"the outer pairs are filtered by `{norm(cond)}` before being fused: a name that is both an input of the inner argument and mentioned by an "
                          "inner value needs the outer pair in both places, so one of the two is lost (the fused term differs from substituting twice)", f.loc(cp))
        elif bad_wrap:
            col.violation(construct, f"an inner value is wrapped as `{norm(bad_wrap[0])[:60]}`: it does not receive the whole outer substitution", f.loc(bad_wrap[0]))
        elif not wraps:
            col.unresolved(construct, "no `(k, Subs(v, <outer>))` pair found in the fusion rule", f.loc())
        else:
            col.ok(construct, f"outer pairs kept whole (`{', '.join(sorted(whole))}`), every inner value wrapped with them", f.loc())
    col.cur.analysed["fusion_rules"] = n


# ---------------------------------------------------------------------- R04.12
def _co_indexed_blocks(prog: Program, col: Collector, refs: Refs, cat: Catalogue, colls: Dict[str, Set[str]]):
    """In the substitution kernels of Gaussian the substituted values and the matching rows of the precision factor are gathered
    into two arrays by concatenation and then multiplied.  Position p of one array meets position p of the other, so both must be
    gathered by iterating the same sequence with the same filter; gathering one of them in another order (e.g. the order in
    which the caller wrote the pairs) pairs each value with another variable's block."""
    n = 0
    for fq in sorted(colls):
        f = prog.funcs[fq]
        cats = {}
        for st in walk_no_nested(f.node):
            if isinstance(st, ast.Assign) and len(st.targets) == 1 and isinstance(st.targets[0], ast.Name) and isinstance(st.value, ast.Call):
                o = cat.resolve_op(f.module, st.value.func) if isinstance(st.value.func, (ast.Name, ast.Attribute)) else None
                if o is not None and o.name == "cat" and st.value.args:
                    seq = st.value.args[0]
                    if isinstance(seq, (ast.ListComp, ast.GeneratorExp)) and len(seq.generators) == 1:
                        g = seq.generators[0]
                        sig = ("comp", norm(g.iter), tuple(sorted(norm(c) for c in g.ifs)))
                    else:
                        sig = ("other", norm(seq), ())
                    cats.setdefault(st.targets[0].id, []).append((sig, st))
        cats = {k: v[0] for k, v in cats.items() if len(v) == 1}
        if len(cats) < 2:
            continue
        for c in walk_no_nested(f.node):
            pair = None
            if isinstance(c, ast.Call) and len(c.args) == 2 and all(isinstance(a, ast.Name) and a.id in cats for a in c.args):
                pair = (c.args[0].id, c.args[1].id)
            elif isinstance(c, ast.BinOp) and isinstance(c.op, ast.MatMult) and all(isinstance(a, ast.Name) and a.id in cats for a in (c.left, c.right)):
                pair = (c.left.id, c.right.id)
            if pair is None or pair[0] == pair[1]:
                continue
            n += 1
            (s1, st1), (s2, st2) = cats[pair[0]], cats[pair[1]]
            col.check(s1 == s2, f"{f.fq}::{pair[0]} x {pair[1]}", f"both blocks are gathered over `{s1[1]}`" + (f" if {' and '.join(s1[2])}" if s1[2] else ""),
                      f"`{pair[0]}` is gathered over `{s1[1]}`{' if ' + ' and '.join(s1[2]) if s1[2] else ''} but `{pair[1]}` over `{s2[1]}`{' if ' + ' and '.join(s2[2]) if s2[2] else ''}: "
                      "the two arrays are multiplied position by position, so a value meets the block of another variable whenever the two orders differ "
                      "(e.g. the caller wrote the pairs in another order than the term's inputs)", f.loc(st1))
    col.cur.analysed["co_indexed_block_pairs"] = n


# ---------------------------------------------------------------------- R04.13
class _NoEval(Exception):
    pass


def _ieval(e: ast.AST, env: Dict[str, int]):
    """evaluate a side-effect-free integer expression of the analysed program over concrete small integers (the analyser's own
    evaluator; nothing of the repository is executed)"""
    if isinstance(e, ast.Constant) and isinstance(e.value, (int, bool)):
        return e.value
    if isinstance(e, ast.Name):
        if e.id in env:
            return env[e.id]
        raise _NoEval(e.id)
    if isinstance(e, ast.Attribute):
        key = norm(e)
        if key in env:
            return env[key]
        raise _NoEval(key)
    if isinstance(e, ast.BinOp):
        a, b = _ieval(e.left, env), _ieval(e.right, env)
        if isinstance(e.op, ast.Add):
            return a + b
        if isinstance(e.op, ast.Sub):
            return a - b
        if isinstance(e.op, ast.Mult):
            return a * b
        if isinstance(e.op, ast.FloorDiv):
            if b == 0:
                raise _NoEval("div0")
            return a // b
        if isinstance(e.op, ast.Mod):
            if b == 0:
                raise _NoEval("div0")
            return a % b
        raise _NoEval(type(e.op).__name__)
    if isinstance(e, ast.UnaryOp):
        v = _ieval(e.operand, env)
        if isinstance(e.op, ast.USub):
            return -v
        if isinstance(e.op, ast.Not):
            return not v
        if isinstance(e.op, ast.UAdd):
            return v
        raise _NoEval("unary")
    if isinstance(e, ast.IfExp):
        return _ieval(e.body, env) if _ieval(e.test, env) else _ieval(e.orelse, env)
    if isinstance(e, ast.Compare):
        left = _ieval(e.left, env)
        for op, c in zip(e.ops, e.comparators):
            right = _ieval(c, env)
            ok = {ast.Lt: left < right, ast.LtE: left <= right, ast.Gt: left > right, ast.GtE: left >= right, ast.Eq: left == right, ast.NotEq: left != right}.get(type(op))
            if ok is None:
                raise _NoEval("cmp")
            if not ok:
                return False
            left = right
        return True
    if isinstance(e, ast.BoolOp):
        vals = [_ieval(v, env) for v in e.values]
        return all(vals) if isinstance(e.op, ast.And) else any(vals)
    if isinstance(e, ast.Call) and isinstance(e.func, ast.Name) and e.func.id in ("min", "max", "abs") and not e.keywords:
        vals = [_ieval(a, env) for a in e.args]
        return {"min": min, "max": max, "abs": lambda *x: abs(x[0])}[e.func.id](*vals)
    raise _NoEval(type(e).__name__)


def _iexec(stmts, env: Dict[str, int]):
    for st in stmts:
        if isinstance(st, ast.Assign) and len(st.targets) == 1 and isinstance(st.targets[0], ast.Name):
            env[st.targets[0].id] = _ieval(st.value, env)
        elif isinstance(st, ast.AugAssign) and isinstance(st.target, ast.Name):
            env[st.target.id] = _ieval(ast.BinOp(left=ast.Name(id=st.target.id, ctx=ast.Load()), op=st.op, right=st.value), env)
        elif isinstance(st, ast.If):
            _iexec(st.body if _ieval(st.test, env) else st.orelse, env)
        else:
            raise _NoEval(type(st).__name__)


def _cat_slice_arithmetic(prog: Program, col: Collector, refs: Refs, cat: Catalogue):
    """Cat.eager_subs with a Slice value walks the parts with a running offset `pos` and gives each part the local slice
    Slice(part_name, pstart, pstop, step, psize).  The integer expressions for pstart / pstop are extracted and evaluated (by
    the analyser's own evaluator) for every pos, psize, start, stop, step on a small grid; wherever the part [pos, pos + psize)
    contains a selected index, pstart must be the offset of the first one and pstop must not cut a selected index off."""
    f = prog.funcs.get("funsor.terms::Cat.eager_subs")
    if f is None:
        raise AnalysisError("anchor Cat.eager_subs not found")
    loops = [lp for lp in walk_no_nested(f.node) if isinstance(lp, ast.For)
             and any(isinstance(c, ast.Call) and refs.resolve(c.func) == "funsor.terms.Slice" and len(c.args) >= 5 for c in ast.walk(lp))]
    if not loops:
        raise AnalysisError("Cat.eager_subs: the loop that builds per-part slices was not found")
    lp = loops[0]
    sl = [c for c in ast.walk(lp) if isinstance(c, ast.Call) and refs.resolve(c.func) == "funsor.terms.Slice" and len(c.args) >= 5][0]
    a_start, a_stop, a_step, a_size = sl.args[1], sl.args[2], sl.args[3], sl.args[4]
    # names by role: the slice components unpacked from <value>.slice, the running offset (augmented by the part size at the end of the body)
    comp = {}
    for st in walk_no_nested(f.node):
        if isinstance(st, ast.Assign) and isinstance(st.targets[0], ast.Tuple) and isinstance(st.value, ast.Tuple) and len(st.targets[0].elts) == len(st.value.elts):
            for t, v in zip(st.targets[0].elts, st.value.elts):
                if isinstance(t, ast.Name) and isinstance(v, ast.Attribute) and isinstance(v.value, ast.Attribute) and v.value.attr == "slice" and v.attr in ("start", "stop", "step"):
                    comp[v.attr] = t.id
        if isinstance(st, ast.Assign) and len(st.targets) == 1 and isinstance(st.targets[0], ast.Name) and isinstance(st.value, ast.Attribute) \
                and isinstance(st.value.value, ast.Attribute) and st.value.value.attr == "slice" and st.value.attr in ("start", "stop", "step"):
            comp[st.value.attr] = st.targets[0].id
    offs = [st for st in lp.body if isinstance(st, ast.AugAssign) and isinstance(st.op, ast.Add) and isinstance(st.target, ast.Name)]
    if set(comp) != {"start", "stop", "step"} or len(offs) != 1 or not isinstance(a_size, ast.Name):
        col.unresolved(f"{f.fq}::slice arithmetic", "cannot identify the slice components / running offset / part size by role", f.loc(lp))
        return
    pos_n, psize_n = offs[0].target.id, a_size.id
    # the arithmetic prefix of the loop body: everything before the statement that contains the Slice construction
    prefix = []
    for st in lp.body:
        if any(x is sl for x in ast.walk(st)):
            break
        if isinstance(st, ast.Assign) and isinstance(st.targets[0], ast.Name) and st.targets[0].id == psize_n:
            continue  # psize = part.inputs[...].size : an input of the arithmetic
        prefix.append(st)
    bad = None
    n_cases = 0
    try:
        for step in (1, 2, 3, 4):
            for psize in (1, 2, 3, 5):
                for pos in range(0, 7):
                    for start in range(0, 9):
                        for stop in range(start + 1, 12):
                            env = {comp["start"]: start, comp["stop"]: stop, comp["step"]: step, pos_n: pos, psize_n: psize}
                            _iexec(prefix, env)
                            ps, pe, pstep = _ieval(a_start, env), _ieval(a_stop, env), _ieval(a_step, env)
                            want = [g - pos for g in range(start, stop, step) if pos <= g < pos + psize]
                            if not want:
                                continue
                            n_cases += 1
                            got = list(range(ps, min(pe, psize), pstep)) if pstep > 0 else None
                            if got != want and bad is None:
                                bad = (dict(pos=pos, psize=psize, start=start, stop=stop, step=step), ps, pe, want)
    except _NoEval as ex:
        col.unresolved(f"{f.fq}::slice arithmetic", f"the bound expressions are not plain integer arithmetic ({ex})", f.loc(lp))
        return
    col.cur.analysed["cat_slice_cases"] = n_cases
    if bad:
        case, ps, pe, want = bad
        col.violation(f"{f.fq}::slice arithmetic", f"for {case} the part-local slice is [{ps}:{pe}:{case['step']}] but the selected indices of this part are {want} "
                      "(offsets from the start of the part): the slice of the concatenation picks elements that were not selected", f.loc(sl))
    else:
        col.ok(f"{f.fq}::slice arithmetic", f"{n_cases} combinations of (offset, part size, start, stop, step) on the grid: the part-local slice selects exactly the global selection", f.loc(sl))


# ---------------------------------------------------------------------- R04.16
def _delta_match(prog: Program, col: Collector, refs: Refs, cat: Catalogue):
    """Delta(name, point, log_density)(name=value) with a ground value is log_density where value == point and -inf elsewhere.  For a
    vector-valued point the elementwise comparison must be reduced over the event dimensions with `all`: `any` reports a match when a
    single coordinate agrees."""
    f = prog.funcs.get("funsor.delta::Delta.eager_subs")
    if f is None:
        raise AnalysisError("anchor Delta.eager_subs not found")
    n = 0
    for c in ast.walk(f.node):
        if isinstance(c, ast.Call) and isinstance(c.func, ast.Attribute) and c.func.attr in ("all", "any") and isinstance(c.func.value, ast.Compare) \
                and len(c.func.value.ops) == 1 and isinstance(c.func.value.ops[0], (ast.Eq, ast.NotEq)):
            n += 1
            eq = isinstance(c.func.value.ops[0], ast.Eq)
            good = (c.func.attr == "all") == eq      # (a == b).all()  or  not (a != b).any() style handled by the caller
            col.check(good, f"{f.fq}::{norm(c)}", "the coordinates are compared with == and reduced with all",
                      f"`{norm(c)}` reduces the coordinate-wise comparison with `{c.func.attr}`: a value that agrees with the point in one coordinate only is treated as a hit "
                      "(the substituted Delta returns its density instead of -inf)", f.loc(c))
    if n == 0:
        raise AnalysisError("Delta.eager_subs: no reduced coordinate-wise comparison found")


# ---------------------------------------------------------------------- R04.17
def _fresh_of_original_node(prog: Program, col: Collector, refs: Refs, cat: Catalogue):
    """substitute() rebuilds an expression bottom-up; SubstituteInterpretation.interpret constructs each node from its (already
    substituted) children and applies the pairs whose key is a FRESH name of that node (a Tensor's own inputs, a Cat's name ...).
    If the construction is evaluated by the base interpretation (a lazy Reduce of a tensor becomes a Tensor) the fresh names of the
    result are all its inputs - including names that came in with the values just substituted into the children - so deciding by
    `result.fresh` applies pairs a second time (f(i=idx) with idx depending on i gives t[idx[idx]]).  The names must come from the
    node being rebuilt."""
    cls = prog.classes.get("funsor.terms.SubstituteInterpretation")
    drv = prog.funcs.get("funsor.terms::substitute")
    if cls is None or "interpret" not in cls.methods or drv is None:
        raise AnalysisError("anchors SubstituteInterpretation.interpret / substitute not found")
    im = cls.methods["interpret"]
    selfn, clsn = im.positional[0], im.positional[1]
    # the local that holds the constructed node
    built = {st.targets[0].id for st in walk_no_nested(im.node) if isinstance(st, ast.Assign) and len(st.targets) == 1 and isinstance(st.targets[0], ast.Name)
             and isinstance(st.value, ast.Call) and isinstance(st.value.func, ast.Name) and st.value.func.id == clsn}
    # membership tests `k in <F>` that select the pairs
    sel = [c for c in ast.walk(im.node) if isinstance(c, ast.Compare) and len(c.ops) == 1 and isinstance(c.ops[0], ast.In)
           and isinstance(f_ := c.comparators[0], (ast.Name, ast.Attribute)) and (norm(f_).endswith("fresh") or isinstance(f_, ast.Name))]
    if not sel or not built:
        col.unresolved(f"{im.fq}::selection of pairs", "cannot find the construction / the freshness test", im.loc())
        return
    defs = {}
    for st in walk_no_nested(im.node):
        if isinstance(st, ast.Assign):
            if len(st.targets) == 1 and isinstance(st.targets[0], ast.Name):
                defs.setdefault(st.targets[0].id, []).append(st.value)
            elif len(st.targets) == 1 and isinstance(st.targets[0], ast.Tuple) and isinstance(st.value, ast.Tuple) and len(st.targets[0].elts) == len(st.value.elts):
                for a, b in zip(st.targets[0].elts, st.value.elts):
                    if isinstance(a, ast.Name):
                        defs.setdefault(a.id, []).append(b)

    def sources(e, depth=0):
        """'result' if the names are those of the constructed object, ('self', attr) if they come from an attribute of the interpretation"""
        out = set()
        if depth > 4:
            return out
        if isinstance(e, ast.Attribute) and e.attr == "fresh" and isinstance(e.value, ast.Name):
            if e.value.id in built:
                out.add(("result",))
            elif e.value.id == selfn:
                out.add(("self", e.attr))
        elif isinstance(e, ast.Attribute) and isinstance(e.value, ast.Name) and e.value.id == selfn:
            out.add(("self", e.attr))
        elif isinstance(e, ast.Name):
            for d in defs.get(e.id, []):
                out |= sources(d, depth + 1)
        elif isinstance(e, ast.IfExp):
            out |= sources(e.body, depth + 1) | sources(e.orelse, depth + 1)
            t = e.test
            if not (isinstance(t, ast.Compare) and len(t.ops) == 1 and isinstance(t.ops[0], (ast.Is, ast.IsNot)) and isinstance(t.comparators[0], ast.Constant)
                    and t.comparators[0].value is None):
                out.add(("truthiness", norm(t)))
        elif isinstance(e, ast.BoolOp) and isinstance(e.op, ast.Or):
            for v_ in e.values:
                out |= sources(v_, depth + 1)
            out.add(("truthiness", norm(e)))
        return out

    for c in sel:
        src = sources(c.comparators[0])
        if not src:
            continue
        handed = [s_ for s_ in src if s_[0] == "self"]
        construct = f"{im.fq}::{norm(c)}"
        falsy = [s_ for s_ in src if s_[0] == "truthiness"]
        if falsy and handed and ("result",) in src:
            col.violation(construct + "::precedence", f"the fresh names handed over for the node give way to the result's whenever they are falsy (`{falsy[0][1]}`): a node without fresh "
                          "names (an empty frozenset - a lazy Binary / Contraction / Reduce) is then substituted at the fresh names of what it evaluated to, i.e. the pairs are "
                          "applied a second time; only `is None` may select the fallback", im.loc(c))
            continue
        if not handed:
            col.violation(construct, "the pairs applied to a rebuilt node are chosen by the fresh names of the constructed RESULT; when the base interpretation evaluates the node "
                          "those include inputs introduced by the values already substituted into its children, so a pair is applied twice "
                          "(lazy t.reduce(max, 'j')(i=idx) with idx depending on i indexes with idx[idx]); the names must be those of the node being rebuilt", im.loc(c))
            continue
        # the driver hands over the fresh names of the ORIGINAL node before every rebuild
        attr = handed[0][1]
        gives = [st for st in ast.walk(drv.node) if isinstance(st, ast.Assign) and any(isinstance(t, ast.Attribute) and t.attr == attr for t in st.targets)
                 and isinstance(st.value, ast.Attribute) and st.value.attr == "fresh"]
        col.check(bool(gives), construct, f"the fresh names of the node being rebuilt are handed over by substitute() (`.{attr} = <node>.fresh`) and take precedence over the result's",
                  f"interpret consults `{selfn}.{attr}` but substitute() never sets it from the fresh names of the node it rebuilds", im.loc(c))


# ---------------------------------------------------------------------- R04.18
def _slice_composition(prog: Program, col: Collector, refs: Refs, cat: Catalogue):
    """Slice(n, s0, e0, k0)(n=Slice(m, s1, e1, k1)) enumerates s0 + k0 * j for j in range(s1, e1, k1) (while j stays below the size of
    the outer slice).  The three integer expressions handed to the composed Slice are evaluated by the analyser's integer evaluator on
    a grid; the composed slice must enumerate exactly that sequence."""
    f = prog.funcs.get("funsor.terms::Slice.eager_subs")
    if f is None:
        raise AnalysisError("anchor Slice.eager_subs not found")
    selfn = f.positional[0]

    def is_slice_test(t):
        if isinstance(t, ast.Call) and isinstance(t.func, ast.Name) and t.func.id == "isinstance" and len(t.args) == 2 and isinstance(t.args[0], ast.Name) \
                and (refs.resolve(t.args[1]) if isinstance(t.args[1], (ast.Name, ast.Attribute)) else None) == "funsor.terms.Slice":
            return t.args[0].id
        return None

    n = 0
    for node, v, region in regions_where(f.module, f.node, is_slice_test):
        rets = [st for st in region if isinstance(st, ast.Return) and isinstance(st.value, ast.Call) and refs.resolve(st.value.func) == "funsor.terms.Slice" and len(st.value.args) >= 5]
        if not rets:
            continue
        ret = rets[0]
        prefix = [st for st in region if st is not ret and isinstance(st, (ast.Assign, ast.AugAssign, ast.If))]
        n += 1
        bad = None
        cases = 0
        try:
            for k0 in (1, 2, 3):
                for s0 in range(0, 4):
                    for e0 in range(s0 + 1, 10):
                        size0 = len(range(s0, e0, k0))
                        for k1 in (1, 2):
                            for s1 in range(0, size0):
                                for e1 in range(s1 + 1, size0 + 1):
                                    env = {f"{selfn}.slice.start": s0, f"{selfn}.slice.stop": e0, f"{selfn}.slice.step": k0, f"{selfn}.dtype": 12,
                                           f"{v}.slice.start": s1, f"{v}.slice.stop": e1, f"{v}.slice.step": k1, f"{v}.name": 0, f"{v}.dtype": size0}
                                    stmts = [st for st in prefix if not (isinstance(st, ast.Assign) and isinstance(st.value, ast.Attribute) and st.value.attr == "name")]
                                    _iexec(stmts, env)
                                    a = ret.value.args
                                    gs, ge, gk = _ieval(a[1], env), _ieval(a[2], env), _ieval(a[3], env)
                                    want = [s0 + k0 * j for j in range(s1, e1, k1)]
                                    got = list(range(gs, ge, gk)) if gk > 0 else None
                                    cases += 1
                                    if got != want and bad is None:
                                        bad = ((s0, e0, k0), (s1, e1, k1), (gs, ge, gk), want)
        except _NoEval as ex:
            col.unresolved(f"{f.fq}::slice of a slice", f"the composed bounds are not plain integer arithmetic ({ex})", f.loc(ret))
            continue
        col.cur.analysed["slice_composition_cases"] = cases
        col.check(bad is None, f"{f.fq}::slice of a slice", f"{cases} combinations of an outer and an inner slice on the grid: the composed slice enumerates outer[inner]",
                  (f"outer slice {bad[0]} indexed by inner slice {bad[1]} is composed to {bad[2]}, which enumerates {list(range(*bad[2])) if bad[2][2] > 0 else '?'} "
                   f"instead of {bad[3]}") if bad else "", f.loc(ret))
    if n == 0:
        raise AnalysisError("Slice.eager_subs: the branch composing two slices was not found")


# ---------------------------------------------------------------------- R04.19
def _self_referential_filter(prog: Program, col: Collector, refs: Refs, cat: Catalogue):
    """`S -= {k for k in S if <test that reads S>}`: removing an element can make the test true for another element, so one pass is
    not enough - the chain x(i=j, j=k) (k an input that keeps its name) needs two.  Such a statement must sit in a loop that repeats
    until nothing is removed."""
    n = 0
    for f in prog.funcs.values():
        if isinstance(f.node, ast.Lambda) or f.name != "eager_subs":
            continue
        for comp in walk_no_nested(f.node):
            if not isinstance(comp, (ast.SetComp, ast.GeneratorExp, ast.ListComp)) or len(comp.generators) != 1:
                continue
            g = comp.generators[0]
            if not isinstance(g.iter, ast.Name):
                continue
            S = g.iter.id
            # the filter asks whether something OTHER than the element itself is in S
            member = [c for cnd in g.ifs for c in ast.walk(cnd) if isinstance(c, ast.Compare) and len(c.ops) == 1 and isinstance(c.ops[0], (ast.In, ast.NotIn))
                      and isinstance(c.comparators[0], ast.Name) and c.comparators[0].id == S and not (isinstance(c.left, ast.Name) and isinstance(g.target, ast.Name)
                                                                                                       and c.left.id == g.target.id)]
            if not member:
                continue
            st = comp
            while not isinstance(st, ast.stmt):
                st = f.module.parent.get(st)
            n += 1
            in_loop = any(isinstance(a, ast.While) for a in f.module.ancestors(st) if f.module.enclosing_function(a) is f.node)
            tgt = norm(st.target) if isinstance(st, ast.AugAssign) else (norm(st.targets[0]) if isinstance(st, ast.Assign) else "?")
            col.check(in_loop, f"{f.fq}::{tgt} {'-' if isinstance(st, ast.AugAssign) else ''}= ...", f"`{S}` is filtered repeatedly until nothing more is removed",
                      f"the elements of `{S}` are filtered once by a test that asks what else is in `{S}` (`{norm(member[0])}`): removing one name changes the answer for another (a chain "
                      "of renamings x(i='j', j='k') onto an input k that keeps its name), so a single pass leaves a renaming that collapses two inputs; the filter has to be "
                      "repeated until nothing is removed", f.loc(st))
    col.cur.analysed["self_referential_filters"] = n


# ---------------------------------------------------------------------- R04.20
def _delta_integrate(prog: Program, col: Collector, refs: Refs, cat: Catalogue):
    """Integrate(Delta({name: point, ...}), integrand, reduced_vars) substitutes `point` for `name` in the integrand - for the names that
    are being integrated.  A Delta may bind more names than are reduced; substituting those as well removes inputs the result must keep."""
    n = 0
    for r in cat.registrations:
        f = r.target
        if f is None or len(r.pattern) < 2 or isinstance(f.node, ast.Lambda) or refs.resolve(r.pattern[0]) != "funsor.integrate.Integrate":
            continue
        if refs.resolve(r.pattern[1]) != "funsor.delta.Delta" or len(f.positional) < 3:
            continue
        deltan, rvn = f.positional[0], f.positional[2]
        for cp in [x for x in ast.walk(f.node) if isinstance(x, (ast.GeneratorExp, ast.ListComp))]:
            g = cp.generators[0]
            if not (isinstance(g.iter, ast.Attribute) and g.iter.attr == "terms" and isinstance(g.iter.value, ast.Name) and g.iter.value.id == deltan):
                continue
            if not (isinstance(cp.elt, ast.Tuple) and len(cp.elt.elts) == 2):
                continue
            n += 1
            key = g.target.elts[0].id if isinstance(g.target, ast.Tuple) and isinstance(g.target.elts[0], ast.Name) else None
            # the filter: key in <names derived from reduced_vars>
            derived = {rvn}
            for st in walk_no_nested(f.node):
                if isinstance(st, ast.Assign) and len(st.targets) == 1 and isinstance(st.targets[0], ast.Name) and any(isinstance(x, ast.Name) and x.id in derived for x in ast.walk(st.value)):
                    derived.add(st.targets[0].id)
            ok = any(isinstance(c, ast.Compare) and len(c.ops) == 1 and isinstance(c.ops[0], ast.In) and isinstance(c.left, ast.Name) and c.left.id == key
                     and any(isinstance(x, ast.Name) and x.id in derived for x in ast.walk(c.comparators[0])) for c in g.ifs)
            # ... and ALL of them: the same pairs are substituted into the Delta to eliminate it, so the set of names must not be
            # narrowed to what the integrand happens to mention
            integrandn = f.positional[1]
            narrowed = None
            for st in walk_no_nested(f.node):
                if isinstance(st, ast.Assign) and len(st.targets) == 1 and isinstance(st.targets[0], ast.Name) and st.targets[0].id in derived:
                    for x in ast.walk(st.value):
                        is_meet = (isinstance(x, ast.Call) and isinstance(x.func, ast.Attribute) and x.func.attr == "intersection") or (isinstance(x, ast.BinOp) and isinstance(x.op, ast.BitAnd))
                        if is_meet and any(isinstance(y, ast.Attribute) and y.attr in ("inputs", "input_vars") and norm(y.value) == integrandn for y in ast.walk(x)):
                            narrowed = st
            for c_ in g.ifs:
                if any(isinstance(y, ast.Attribute) and y.attr in ("inputs", "input_vars") and norm(y.value) == integrandn for y in ast.walk(c_)):
                    narrowed = narrowed or cp
            col.check(narrowed is None, f"{f.fq}::all integrated names", "every integrated name of the Delta is substituted, whether or not the integrand mentions it",
                      f"the names that are substituted are narrowed to the inputs of `{integrandn}`: the same pairs eliminate the Delta, so integrating over a name the integrand does not "
                      "mention leaves the Delta (and the name as a free input) in the result instead of returning the integrand", f.loc(narrowed) if narrowed is not None else f.loc(cp))
            col.check(ok, f"{f.fq}::points substituted", "only the points of names that are being integrated are substituted",
                      f"every (name, point) pair of the Delta is substituted into the integrand, not only those with `name` among `{rvn}`: a name the Delta binds but that is not "
                      "integrated disappears from the result's inputs", f.loc(cp))
    if n == 0:
        raise AnalysisError("no Integrate(Delta, ...) rule that builds substitution pairs from delta.terms found")


# ---------------------------------------------------------------------- R04.21
def _affine_rules_test_op(prog: Program, col: Collector, refs: Refs, cat: Catalogue):
    """Gaussian.eager_subs substitutes a value eagerly (as a change of variables) when affine_inputs says the value is affine.  Every
    rule of affine_inputs for a term class that carries an op must look at that op: neg / sum / add / sub / mul by a constant keep
    affinity, max / mul-reduction / exp do not.  A rule that answers from the operand alone declares max_i x[i] affine in x."""
    n = 0
    for r in cat.registrations:
        f = r.target
        if r.registry != "funsor.affine.affine_inputs" or f is None or not r.pattern or not f.positional:
            continue
        p0 = r.pattern[0]
        pinned = isinstance(p0, ast.Subscript)          # Finitary[ops.EinsumOp, tuple]: the pattern fixes the op
        head = refs.resolve(p0.value if pinned else p0) if isinstance(p0.value if pinned else p0, (ast.Name, ast.Attribute)) else None
        tc = cat.term_classes.get(head)
        if tc is None:
            continue
        op_fields = [x for x in tc.fields if x in ("op", "red_op", "bin_op", "sum_op", "prod_op")]
        if not op_fields:
            continue
        n += 1
        fn = f.positional[0]
        construct = f"{f.fq}::{tc.name}"
        if pinned:
            col.ok(construct, "the registration pattern fixes the op", f.loc(), nontrivial=False)
            continue
        tested = []
        for x in ast.walk(f.node):
            if isinstance(x, (ast.Compare, ast.Call)) and any(isinstance(y, ast.Attribute) and y.attr in op_fields and isinstance(y.value, ast.Name) and y.value.id == fn for y in ast.walk(x)):
                par = f.module.parent.get(x)
                if isinstance(x, ast.Compare) or (isinstance(x.func, ast.Name) and x.func.id == "isinstance"):
                    tested.append(x)
        # delegating to a flattened form built from the same ops (the Contraction rule) passes the question on
        delegates = any(isinstance(c, ast.Call) and isinstance(c.func, ast.Attribute) and c.func.attr == "reduce" and any(
            isinstance(y, ast.Attribute) and y.attr in op_fields for a in c.args for y in ast.walk(a)) for c in ast.walk(f.node))
        col.check(bool(tested) or delegates, construct, "the rule tests the op (or rebuilds the term from its ops and asks again)",
                  f"the affine_inputs rule for {tc.name} never looks at `{fn}.{op_fields[0]}`: it reports the operand's affine inputs for every op, so e.g. a max- or product-reduction of x "
                  "is taken to be affine in x and Gaussian substitution treats it as a linear change of variables (wrong density)", f.loc())


# ---------------------------------------------------------------------- R04.25 soundness of the affine-inputs calculus


class _Stop(Exception):
    pass


LINEAR_UNARY = {"neg", "sum", "ReshapeOp", "GetsliceOp", "reshape", "getslice", "transpose", "permute", "TransposeOp", "PermuteOp", "mean", "MeanOp", "SumOp", "NegOp"}
ADDITIVE = {"add", "sub"}
MULTIPLICATIVE = {"mul", "matmul"}


def _affine_calculus(prog: Program, col: Collector, refs: Refs, cat: Catalogue):
    """affine_inputs(f) promises a SOUND subset of the real inputs in which f is (jointly) affine.  The rules for Unary / Binary /
    Reduce compute that set from `affine_inputs(child)` and `_real_inputs(child)` with set algebra.  The analyser evaluates the set
    expressions of each op branch over an abstract universe: an input is classified per child as absent / affine / present but not
    affine, every non-empty population of classes is tried (255 for two children), `if not s:` follows the emptiness of the set.
    Oracle: a sum is affine in x iff x is affine-or-absent in BOTH operands; a product iff x is affine in one operand and absent
    from the other, and the inputs claimed must all come from the same side; a quotient iff affine in the numerator and absent from
    the denominator; a linear unary op / add-reduction keeps the operand's affine inputs."""
    import itertools
    n_branches = 0
    for r in cat.registrations:
        f = r.target
        if r.registry != "funsor.affine.affine_inputs" or f is None or not r.pattern or not f.positional or isinstance(r.pattern[0], ast.Subscript):
            continue
        head = refs.resolve(r.pattern[0]) if isinstance(r.pattern[0], (ast.Name, ast.Attribute)) else None
        tc = cat.term_classes.get(head)
        if tc is None or tc.name not in ("Unary", "Binary", "Reduce"):
            continue
        fn = f.positional[0]
        children = {"Unary": ["arg"], "Binary": ["lhs", "rhs"], "Reduce": ["arg"]}[tc.name]
        statuses = ["0", "A", "N"]
        kinds = [k for k in itertools.product(statuses, repeat=len(children)) if any(s != "0" for s in k)]

        def child_of(e):
            # fn.lhs -> 0, fn.rhs -> 1
            if isinstance(e, ast.Attribute) and isinstance(e.value, ast.Name) and e.value.id == fn and e.attr in children:
                return children.index(e.attr)
            return None

        def ev(e, pop, env):
            if isinstance(e, ast.Name):
                if e.id in env:
                    return env[e.id]
                raise _Stop(f"name {e.id}")
            if isinstance(e, ast.Call):
                tgt = refs.resolve(e.func) or norm(e.func)
                last = tgt.rsplit(".", 1)[-1]
                if last == "frozenset" and not e.args:
                    return frozenset()
                if last in ("affine_inputs", "_affine_inputs", "_real_inputs") and len(e.args) == 1:
                    ci = child_of(e.args[0])
                    if ci is None:
                        raise _Stop(f"argument {norm(e.args[0])}")
                    if last == "_real_inputs":
                        return frozenset(k for k in pop if k[ci] != "0")
                    return frozenset(k for k in pop if k[ci] == "A")
                if last == "frozenset" and len(e.args) == 1 and isinstance(e.args[0], ast.GeneratorExp):
                    return ("names", norm(e))  # a set of other names (reduced variables): only subtracted
                raise _Stop(f"call {norm(e)[:40]}")
            if isinstance(e, ast.BinOp) and isinstance(e.op, (ast.BitOr, ast.Sub, ast.BitAnd)):
                a, b = ev(e.left, pop, env), ev(e.right, pop, env)
                if isinstance(b, tuple) and isinstance(e.op, ast.Sub):
                    return a  # removing unrelated names can only shrink the claim
                if isinstance(a, tuple) or isinstance(b, tuple):
                    raise _Stop("set of names in a union / intersection")
                return a | b if isinstance(e.op, ast.BitOr) else a - b if isinstance(e.op, ast.Sub) else a & b
            raise _Stop(type(e).__name__)

        def run_block(stmts, pop, env):
            """returns the returned set, or None when the block falls through"""
            for st in stmts:
                if isinstance(st, ast.Return):
                    return ev(st.value, pop, env)
                if isinstance(st, ast.Assign) and len(st.targets) == 1 and isinstance(st.targets[0], ast.Name):
                    env[st.targets[0].id] = ev(st.value, pop, env)
                    continue
                if isinstance(st, ast.If):
                    t, neg = st.test, False
                    while isinstance(t, ast.UnaryOp) and isinstance(t.op, ast.Not):
                        t, neg = t.operand, not neg
                    v = ev(t, pop, env)
                    if isinstance(v, tuple):
                        raise _Stop("truth of a name set")
                    truth = bool(v) != neg
                    out = run_block(st.body if truth else st.orelse, pop, env)
                    if out is not None:
                        return out
                    continue
                if isinstance(st, ast.Expr) and isinstance(st.value, ast.Constant):
                    continue
                raise _Stop(type(st).__name__)
            return None

        def op_names(test):
            """the ops a branch test admits: (names, recognised?)"""
            names = set()
            t = test
            parts = t.values if isinstance(t, ast.BoolOp) and isinstance(t.op, ast.Or) else [t]
            for p in parts:
                if isinstance(p, ast.Compare) and len(p.ops) == 1 and isinstance(p.ops[0], (ast.Is, ast.Eq, ast.In)) and norm(p.left) == f"{fn}.op":
                    c = p.comparators[0]
                    for x in (c.elts if isinstance(c, (ast.Tuple, ast.List, ast.Set)) else [c]):
                        names.add(norm(x).rsplit(".", 1)[-1])
                elif isinstance(p, ast.Call) and isinstance(p.func, ast.Name) and p.func.id == "isinstance" and len(p.args) == 2 and norm(p.args[0]) == f"{fn}.op":
                    c = p.args[1]
                    for x in (c.elts if isinstance(c, ast.Tuple) else [c]):
                        names.add(norm(x).rsplit(".", 1)[-1])
                else:
                    return None
            return names

        # top-level statements: `if <test on fn.op>: <body>` ... final `return frozenset()`
        for st in f.node.body:
            if isinstance(st, ast.Expr) and isinstance(st.value, ast.Constant):
                continue
            if isinstance(st, ast.If):
                ops_ = op_names(st.test)
                construct = f"{f.fq}::{tc.name}::if {norm(st.test)[:50]}"
                if ops_ is None:
                    col.unresolved(construct, "branch test not recognised as a test on the op", f.loc(st))
                    continue
                if st.orelse:
                    col.unresolved(construct, "else-branch of an op test is not evaluated", f.loc(st))
                n_branches += 1
                if tc.name == "Binary":
                    if ops_ <= ADDITIVE:
                        def sound(res, pop):
                            return all(k[0] in "0A" and k[1] in "0A" for k in res)
                        law = "x is affine in l ± r only if it is affine in (or absent from) BOTH l and r"
                    elif ops_ <= MULTIPLICATIVE:
                        def sound(res, pop):
                            return all(k in (("A", "0"), ("0", "A")) for k in res) and len({k for k in res}) <= 1
                        law = "x is affine in l * r only if it is affine in one factor and absent from the other, and all claimed inputs come from the same factor"
                    elif ops_ <= {"truediv"}:
                        def sound(res, pop):
                            return all(k == ("A", "0") for k in res)
                        law = "x is affine in l / r only if it is affine in l and absent from r"
                    elif ops_ <= {"GetitemOp", "getitem"}:
                        def sound(res, pop):
                            return all(k[0] == "A" for k in res)
                        law = "indexing keeps the affine inputs of the indexed operand"
                    else:
                        col.unresolved(construct, f"no law for ops {sorted(ops_)} in the analyser's table", f.loc(st))
                        continue
                else:
                    if tc.name == "Reduce" and not ops_ <= {"add"}:
                        def sound(res, pop):
                            return not res
                        law = "only an add-reduction keeps affinity"
                    elif tc.name == "Unary" and not ops_ <= LINEAR_UNARY:
                        col.unresolved(construct, f"unary ops {sorted(ops_ - LINEAR_UNARY)} are not in the analyser's table of linear ops", f.loc(st))
                        continue
                    else:
                        def sound(res, pop):
                            return all(k[0] == "A" for k in res)
                        law = "a linear op keeps exactly the affine inputs of its operand"
                witness = None
                stopped = None
                tried = 0
                for m in range(1, len(kinds) + 1):
                    for pop in itertools.combinations(kinds, m):
                        try:
                            res = run_block(st.body, frozenset(pop), {})
                        except _Stop as ex:
                            stopped = str(ex)
                            break
                        tried += 1
                        if res is None:
                            continue
                        if isinstance(res, tuple) or not sound(res, pop):
                            witness = (pop, res)
                            break
                    if witness or stopped:
                        break
                if stopped:
                    col.unresolved(construct, f"set expression not evaluated ({stopped})", f.loc(st))
                    continue
                def show(k):
                    return "/".join({"0": "absent", "A": "affine", "N": "non-affine"}[s] + f" in {c}" for s, c in zip(k, children))
                col.check(witness is None, construct, f"{law} ({tried} populations of input classes evaluated)",
                          (f"an input that is {' and '.join(show(k) for k in sorted(witness[1]))[:160]} is reported affine (inputs present: "
                           f"{'; '.join(show(k) for k in witness[0])[:200]}): {law}.  is_affine() then holds for a term that is not affine and Gaussian substitution "
                           "treats it as a linear change of variables") if witness else "", f.loc(st))
    col.cur.analysed["affine_rule_branches"] = n_branches


# ---------------------------------------------------------------------- R04.26 "was this input substituted?" is asked of the keys


def _substituted_decided_on_keys(prog: Program, col: Collector, refs: Refs, cat: Catalogue):
    """Inside a substitution kernel the inputs of the term fall into substituted and kept ones.  That question has to be put to the
    KEYS of the substitution (the pairs, or a mapping built over the same keys).  A collection that also holds names that came in
    with the substituted VALUES (the inputs of the result, the variables of the affine coefficients) answers differently exactly when
    a value mentions a variable that is also a key - g(x=2*y, y=u+1) - and the simultaneous substitution turns into a partial one.
    Taint classes, flow-insensitive for collections and per binder for loop variables: `keys` (the pairs parameter, mappings /
    comprehensions over its keys), `own` (self.inputs and what is computed from it alone), `values` (anything that receives a name by
    iterating the inputs / coefficients of a value)."""
    n = 0
    for f in prog.funcs.values():
        if isinstance(f.node, ast.Lambda) or f.cls is None or not (f.name == "eager_subs" or f.name.startswith("_eager_subs")) or len(f.positional) < 2:
            continue
        selfn, subsP = f.positional[0], f.positional[1]
        keys_coll = {subsP}
        own_coll = set()
        val_derived = set()      # plain locals holding (parts of) substituted values
        has_values = set()       # collections that received a value-introduced name
        loopvar = {}             # (id(binder), name) -> 'key' | 'own' | 'vname' | 'vpart'

        def binder_of(name_node):
            for a in f.module.ancestors(name_node):
                if a is f.node:
                    return None
                gens = []
                if isinstance(a, ast.For):
                    gens = [a.target]
                elif isinstance(a, (ast.GeneratorExp, ast.ListComp, ast.SetComp, ast.DictComp)):
                    gens = [g.target for g in a.generators]
                for tg in gens:
                    if any(isinstance(y, ast.Name) and y.id == name_node.id for y in ast.walk(tg)):
                        return a
            return None

        def cls_of(name_node):
            b = binder_of(name_node)
            if b is not None:
                return loopvar.get((id(b), name_node.id))
            if name_node.id in val_derived:
                return "vpart"
            return None

        def names_in(e):
            return [x for x in ast.walk(e) if isinstance(x, ast.Name) and isinstance(x.ctx, ast.Load)]

        def mentions_cls(e, classes):
            return any(cls_of(x) in classes for x in names_in(e))

        def mentions_coll(e, colls):
            return any(x.id in colls and binder_of(x) is None for x in names_in(e))

        def is_own_expr(e):
            return any(isinstance(x, ast.Attribute) and x.attr in ("inputs", "input_vars") and isinstance(x.value, ast.Name) and x.value.id == selfn for x in ast.walk(e)) \
                or mentions_coll(e, own_coll - has_values)

        def bind_iter(binder, target, it):
            base, meth = it, None
            if isinstance(it, ast.Call) and isinstance(it.func, ast.Attribute) and it.func.attr in ("items", "keys", "values") and not it.args:
                base, meth = it.func.value, it.func.attr
            if isinstance(it, ast.Call) and isinstance(it.func, ast.Name) and it.func.id == "enumerate" and it.args and isinstance(target, ast.Tuple) and len(target.elts) == 2:
                return bind_iter(binder, target.elts[1], it.args[0])
            first = target.elts[0] if isinstance(target, ast.Tuple) and target.elts else target
            rest = target.elts[1:] if isinstance(target, ast.Tuple) else []
            nf = {x.id for x in ast.walk(first) if isinstance(x, ast.Name)}
            nr = {x.id for r in rest for x in ast.walk(r) if isinstance(x, ast.Name)}
            def put(names, c):
                for nm in names:
                    loopvar[(id(binder), nm)] = c
            if mentions_cls(base, {"vpart"}) or (mentions_coll(base, has_values) and not mentions_coll(base, keys_coll)):
                if meth == "values":
                    put(nf | nr, "vpart")
                else:
                    put(nf, "vname"); put(nr, "vpart")
            elif mentions_coll(base, keys_coll):
                if meth == "values":
                    put(nf | nr, "vpart")
                else:
                    put(nf, "key"); put(nr, "vpart")
            elif is_own_expr(base):
                put(nf, "own")

        for _ in range(6):
            before = (len(keys_coll), len(own_coll), len(val_derived), len(has_values), len(loopvar))
            loopvar.clear()  # re-classified from the current sets (a collection may have turned out to hold value names)
            for x in ast.walk(f.node):
                if isinstance(x, ast.For):
                    bind_iter(x, x.target, x.iter)
                elif isinstance(x, (ast.GeneratorExp, ast.ListComp, ast.SetComp, ast.DictComp)):
                    for g in x.generators:
                        bind_iter(x, g.target, g.iter)
            for x in ast.walk(f.node):
                if isinstance(x, ast.For):
                    bind_iter(x, x.target, x.iter)
                elif isinstance(x, (ast.GeneratorExp, ast.ListComp, ast.SetComp, ast.DictComp)):
                    for g in x.generators:
                        bind_iter(x, g.target, g.iter)
                elif isinstance(x, ast.Assign) and len(x.targets) == 1:
                    t, v = x.targets[0], x.value
                    comp = isinstance(v, (ast.GeneratorExp, ast.ListComp, ast.SetComp, ast.DictComp)) or (
                        isinstance(v, ast.Call) and v.args and isinstance(v.args[0], (ast.GeneratorExp, ast.ListComp, ast.SetComp, ast.DictComp)))
                    if isinstance(t, ast.Name) and binder_of(t) is None:
                        if not comp and mentions_cls(v, {"vpart"}):
                            val_derived.add(t.id)
                        # which names does the collection hold?  (the element / key expression of a comprehension)
                        elts = []
                        cv = v if isinstance(v, (ast.GeneratorExp, ast.ListComp, ast.SetComp, ast.DictComp)) else (v.args[0] if comp else None)
                        if cv is not None:
                            e0 = cv.key if isinstance(cv, ast.DictComp) else cv.elt
                            elts = [e0.elts[0] if isinstance(e0, ast.Tuple) and e0.elts else e0]
                        if any(mentions_cls(e, {"vname"}) for e in elts) or (not comp and mentions_coll(v, has_values)):
                            has_values.add(t.id)
                        if mentions_coll(v, keys_coll) or any(mentions_cls(e, {"key"}) for e in elts):
                            keys_coll.add(t.id)
                        elif is_own_expr(v) and not mentions_coll(v, has_values) and not any(mentions_cls(e, {"vname"}) for e in elts):
                            own_coll.add(t.id)
                    elif isinstance(t, ast.Tuple) and mentions_cls(v, {"vpart"}):
                        val_derived.update(y.id for y in ast.walk(t) if isinstance(y, ast.Name) and binder_of(y) is None)
                    elif isinstance(t, ast.Tuple) and mentions_coll(v, has_values):
                        has_values.update(y.id for y in ast.walk(t) if isinstance(y, ast.Name) and binder_of(y) is None)
                    elif isinstance(t, ast.Tuple) and is_own_expr(v) and not mentions_coll(v, has_values | keys_coll):
                        own_coll.update(y.id for y in ast.walk(t) if isinstance(y, ast.Name) and binder_of(y) is None)
                    elif isinstance(t, ast.Subscript) and isinstance(t.value, ast.Name):
                        if mentions_cls(t.slice, {"vname"}):
                            has_values.add(t.value.id)
                        if mentions_cls(t.slice, {"key"}):
                            keys_coll.add(t.value.id)
                elif isinstance(x, ast.Call) and isinstance(x.func, ast.Attribute) and x.func.attr in ("update", "add", "append", "extend") and isinstance(x.func.value, ast.Name):
                    if any(mentions_cls(a, {"vname"}) or mentions_coll(a, has_values)
                           or any(isinstance(y, ast.Attribute) and y.attr in ("inputs", "input_vars") and (mentions_cls(y.value, {"vpart"}) or mentions_coll(y.value, keys_coll))
                                  for y in ast.walk(a)) for a in x.args):
                        has_values.add(x.func.value.id)
            if before[:4] == (len(keys_coll), len(own_coll), len(val_derived), len(has_values)) and before[4] == len(loopvar):
                break
        for c in ast.walk(f.node):
            if not (isinstance(c, ast.Compare) and len(c.ops) == 1 and isinstance(c.ops[0], (ast.In, ast.NotIn)) and isinstance(c.left, ast.Name) and isinstance(c.comparators[0], ast.Name)):
                continue
            K, C = c.left.id, c.comparators[0].id
            if cls_of(c.left) != "own" or binder_of(c.comparators[0]) is not None:
                continue
            n += 1
            construct = f"{f.fq}::{norm(c)}"
            if C in has_values:
                col.violation(construct, f"`{K}` ranges over the term's own inputs, and `{C}` also holds names that came in with the substituted values: when a value mentions a variable "
                              f"that is also a key (g(x=2*y, y=u+1)) `{norm(c)}` takes the substituted input `{K}` for one that is kept (or the reverse), so the pair is not applied - the "
                              "question has to be put to the keys of the substitution", f.loc(c))
            else:
                col.ok(construct, f"`{C}` holds keys of the substitution / the term's own names only", f.loc(c), nontrivial=C in keys_coll)
    col.cur.analysed["membership_tests_of_own_inputs"] = n


# ---------------------------------------------------------------------- R04.27 duplicates among the values that are applied by renaming


def _renaming_duplicates_counted(prog: Program, col: Collector, refs: Refs, cat: Catalogue):
    """An eager_subs that applies some values by RENAMING an input (`k = v.name` for a Variable or a Slice) may rename two inputs onto
    the same name; that is a diagonal and cannot be done by renaming.  The function therefore counts how often each target NAME
    occurs among the renaming values - over all the classes it renames, and by name (two Slices over one name with different
    ranges are different objects)."""
    n = 0
    for f in prog.funcs.values():
        if isinstance(f.node, ast.Lambda) or f.name != "eager_subs" or f.cls is None:
            continue
        # classes renamed: isinstance tests guarding `k = v.name`
        renamed_classes = set()
        for node in walk_no_nested(f.node):
            if not isinstance(node, ast.If):
                continue
            t = node.test
            if not (isinstance(t, ast.Call) and isinstance(t.func, ast.Name) and t.func.id == "isinstance" and len(t.args) == 2 and isinstance(t.args[0], ast.Name)):
                continue
            v = t.args[0].id
            # only where several inputs are renamed in one go: the test sits in a loop over the term's inputs
            in_loop = any(isinstance(a, ast.For) and any(isinstance(y, ast.Attribute) and y.attr == "inputs" for y in ast.walk(a.iter)) for a in f.module.ancestors(node))
            if in_loop and any(isinstance(st, ast.Assign) and isinstance(st.value, ast.Attribute) and st.value.attr == "name" and isinstance(st.value.value, ast.Name) and st.value.value.id == v
                               for st in node.body):
                cl = t.args[1].elts if isinstance(t.args[1], ast.Tuple) else [t.args[1]]
                renamed_classes |= {refs.resolve(x) or norm(x) for x in cl}
        if not renamed_classes:
            continue
        n += 1
        counters = [c for c in walk_no_nested(f.node) if isinstance(c, ast.Call) and (refs.resolve(c.func) or norm(c.func)).rsplit(".", 1)[-1] == "Counter"
                    and c.args and isinstance(c.args[0], (ast.GeneratorExp, ast.ListComp))]
        construct = f"{f.fq}::duplicates among renaming values"
        if not counters:
            col.violation(construct, f"values of classes {sorted(x.rsplit('.', 1)[-1] for x in renamed_classes)} are applied by renaming inputs, but nothing counts how often a target name "
                          "occurs: two inputs renamed onto one name need a diagonal, renaming the second overwrites the first", f.loc())
            continue
        ok_any = False
        why = ""
        for c in counters:
            g = c.args[0]
            counted = set()
            for cnd in g.generators[0].ifs:
                for x in ast.walk(cnd):
                    if isinstance(x, ast.Call) and isinstance(x.func, ast.Name) and x.func.id == "isinstance" and len(x.args) == 2:
                        cl = x.args[1].elts if isinstance(x.args[1], ast.Tuple) else [x.args[1]]
                        counted |= {refs.resolve(y) or norm(y) for y in cl}
            by_name = isinstance(g.elt, ast.Attribute) and g.elt.attr == "name"
            missing = renamed_classes - counted
            if not missing and (by_name or len(renamed_classes) == 1):
                ok_any = True
            else:
                why = (f"the duplicate count `{norm(c)[:60]}` covers {sorted(x.rsplit('.', 1)[-1] for x in counted)}"
                       + (f" but not {sorted(x.rsplit('.', 1)[-1] for x in missing)}" if missing else "")
                       + ("" if by_name else " and counts the value objects, not their names")
                       + f", while values of classes {sorted(x.rsplit('.', 1)[-1] for x in renamed_classes)} are applied by renaming: t(a=Slice('k', ...), b=Slice('k', ...)) renames both "
                       "inputs to k, the second overwrites the first and a batch dim ends up in the output shape")
        col.check(ok_any, construct, "target names are counted over every class of value that is applied by renaming", why, f.loc(counters[0]))
        # the set consulted by the clash test (`x.name not in S`: "that input is renamed away") must hold exactly the keys that ARE applied by
        # renaming: a value that is materialised for another reason (a duplicated target) while its key stays in S makes a third
        # renaming onto that key look safe
        sets = {c_.comparators[0].id for c_ in ast.walk(f.node) if isinstance(c_, ast.Compare) and len(c_.ops) == 1 and isinstance(c_.ops[0], ast.NotIn)
                and isinstance(c_.comparators[0], ast.Name) and isinstance(c_.left, ast.Attribute) and c_.left.attr == "name"}
        for ie in [x for x in ast.walk(f.node) if isinstance(x, ast.IfExp) and isinstance(x.body, ast.Call) and isinstance(x.body.func, ast.Attribute) and x.body.func.attr == "materialize"]:
            for S in sorted(sets):
                ors = [b for b in ast.walk(ie.test) if isinstance(b, ast.BoolOp) and isinstance(b.op, ast.Or)]
                stray = [d for b in ors for d in b.values if not any(isinstance(y, ast.Name) and y.id == S for y in ast.walk(d))
                         and any(any(isinstance(y, ast.Name) and y.id == S for y in ast.walk(d2)) for d2 in b.values)]
                col.check(not stray, f"{f.fq}::materialise iff not in {S}", f"a renaming value is materialised exactly when its key is not in `{S}`",
                          f"a value is also materialised when `{norm(stray[0]) if stray else ''}` although its key stays in `{S}`, the set the clash test reads as 'renamed away': a "
                          f"third renaming onto that key (x(i='a', j='a', k='i')) is then applied by renaming while `i` keeps its name - two inputs collapse; the condition belongs "
                          f"into the definition of `{S}`", f.loc(ie))
    col.cur.analysed["renaming_eager_subs"] = n
