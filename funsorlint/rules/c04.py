"""C04 - substitution is simultaneous, capture-avoiding function application (three structural clauses only)."""
from __future__ import annotations

import ast
from typing import Dict, List, Optional, Set

from ..catalogue import Catalogue
from ..model import AnalysisError, Func, Program, norm
from ..report import Collector
from .common import Refs, require_func, walk_no_nested

EXPLANATION = (
    "C04 quantifies over the values of arbitrary terms and is NOT decided as a whole. Decided are three clauses whose truth is in the "
    "shape of the code. R04.1 simultaneity: no function of the package applies the pairs of a substitution one at a time to an evolving "
    "result (a loop over the pairs that rebuilds a loop-carried value by substituting only the current pair into the previous value) - "
    "later pairs would then rewrite what earlier pairs introduced, which is sequential, not simultaneous, substitution. R04.2 names that "
    "are not inputs of f are ignored: Funsor.__call__ builds the substitution from f's own inputs only and the Subs metaclass keeps only "
    "pairs whose key is an input of the argument. R04.3 the declared inputs of a lazily built substitution are exactly f's unsubstituted "
    "inputs plus the inputs of the substituted values: Subs.__init__ starts from a copy of arg.inputs, deletes every key, and only then "
    "adds the inputs of every value (so f(x=x+1) keeps x). Capture avoidance is decided under C05. NOT decided: the value of a substitution "
    "(renaming onto existing names, diagonals, slices, fusing of chained substitutions)."
)
ASSUMPTIONS = ["binder hygiene (C05)", "substitution collections are recognised by role: a parameter or local named by the Subs constructor field / iterated as (name, value) pairs"]
RULE_TEXT = "one obligation per loop over substitution pairs, per filter of foreign names, per step of the Subs typing rule"

SUBST_CALLS = {"funsor.terms.Subs", "funsor.terms.substitute"}


def _is_subst_expr(e: ast.AST, refs: Refs, pair_names: Set[str]) -> bool:
    """does `e` substitute using only the current pair: Subs(x, ((k, v),)), x(**{k: v}), substitute(x, {k: v}), x(k=v) is impossible"""
    for c in ast.walk(e):
        if not isinstance(c, ast.Call):
            continue
        r = refs.resolve(c.func) if isinstance(c.func, (ast.Name, ast.Attribute)) else None
        if r in SUBST_CALLS and len(c.args) >= 2:
            names = {x.id for x in ast.walk(c.args[1]) if isinstance(x, ast.Name)}
            if pair_names & names and not any(isinstance(x, (ast.GeneratorExp, ast.ListComp, ast.DictComp)) for x in ast.walk(c.args[1])):
                return True
        for k in c.keywords:
            if k.arg is None and isinstance(k.value, ast.Dict):  # f(**{k: v})
                names = {x.id for x in ast.walk(k.value) if isinstance(x, ast.Name)}
                if pair_names & names:
                    return True
    return False


def run(prog: Program, col: Collector, tier: str, refs: Optional[Refs] = None, cat: Optional[Catalogue] = None):
    refs = refs or Refs(prog)
    cat = cat or Catalogue(prog, refs)

    # ---------------------------------------------------------------- R04.1
    col.rule("R04.1", "substitution pairs are applied at once, never one at a time to an evolving result", floor=3)
    n_loops = 0
    # substitution collections by role: the parameter in the position of the `subs` field of Subs in rules registered for
    # Subs, the second parameter of every `eager_subs` method, of `substitute`, of the Subs constructor and metaclass; and
    # locals derived from them by copy constructors / comprehensions
    subs_params: Dict[str, Set[str]] = {}
    subs_tc = cat.term_classes.get("funsor.terms.Subs")
    subs_idx = subs_tc.fields.index("subs") if subs_tc and "subs" in subs_tc.fields else 1
    for r in cat.registrations:
        if r.target is not None and r.pattern and isinstance(r.pattern[0], (ast.Name, ast.Attribute)) and refs.resolve(r.pattern[0]) == "funsor.terms.Subs":
            pos = r.target.positional
            off = 1 if r.registry.startswith("funsor.") and len(pos) == len(subs_tc.fields) + 1 else 0
            if len(pos) > subs_idx + off:
                subs_params.setdefault(r.target.fq, set()).add(pos[subs_idx + off])
    for f in prog.funcs.values():
        if f.name == "eager_subs" and f.cls is not None and len(f.positional) >= 2:
            subs_params.setdefault(f.fq, set()).add(f.positional[1])
    for fq, idx in (("funsor.terms::substitute", 1), ("funsor.terms::Subs.__init__", 2), ("funsor.terms::SubsMeta.__call__", 2), ("funsor.terms::Funsor.eager_subs", 1)):
        f0 = prog.funcs.get(fq)
        if f0 is not None and len(f0.positional) > idx:
            subs_params.setdefault(fq, set()).add(f0.positional[idx])
    for f in prog.funcs.values():
        if isinstance(f.node, ast.Lambda) or f.fq not in subs_params:
            continue
        coll = set(subs_params[f.fq])
        for _ in range(3):
            for n in walk_no_nested(f.node):
                if isinstance(n, ast.Assign) and len(n.targets) == 1 and isinstance(n.targets[0], ast.Name):
                    v = n.value
                    src = None
                    if isinstance(v, ast.Call) and isinstance(v.func, ast.Name) and v.func.id in ("OrderedDict", "dict", "tuple", "list") and v.args:
                        src = v.args[0]
                    if isinstance(src, (ast.GeneratorExp, ast.ListComp)):
                        src = src.generators[0].iter
                    if isinstance(v, (ast.GeneratorExp, ast.ListComp, ast.DictComp)):
                        src = v.generators[0].iter
                    if isinstance(src, ast.Call) and isinstance(src.func, ast.Attribute) and src.func.attr == "items":
                        src = src.func.value
                    if isinstance(src, ast.Name) and src.id in coll:
                        coll.add(n.targets[0].id)
        for lp in [n for n in walk_no_nested(f.node) if isinstance(n, ast.For)]:
            # a loop over (name, value) pairs of a substitution: target is a 2-tuple, iterable is a name that looks like a
            # substitution collection by role (parameter called like the Subs field, or `.items()` of one)
            if not (isinstance(lp.target, ast.Tuple) and len(lp.target.elts) == 2 and all(isinstance(x, ast.Name) for x in lp.target.elts)):
                continue
            it = lp.iter
            base = it.func.value if isinstance(it, ast.Call) and isinstance(it.func, ast.Attribute) and it.func.attr == "items" else it
            if not (isinstance(base, ast.Name) and base.id in coll):
                continue
            n_loops += 1
            pair = {x.id for x in lp.target.elts}
            carried = []
            for st in ast.walk(lp):
                if isinstance(st, ast.Assign) and len(st.targets) == 1 and isinstance(st.targets[0], ast.Name):
                    x = st.targets[0].id
                    uses_prev = any(isinstance(y, ast.Name) and y.id == x and isinstance(y.ctx, ast.Load) for y in ast.walk(st.value))
                    if uses_prev and _is_subst_expr(st.value, refs, pair):
                        carried.append(st)
            construct = f"{f.fq}::for {norm(lp.target)} in {norm(lp.iter)}"
            if carried:
                col.violation(construct, f"`{norm(carried[0])[:90]}` substitutes the current pair into the value built by the previous iterations: a later pair rewrites what an earlier "
                              "pair introduced ((x*y)(x=y+1, y=x) becomes sequential), so the substitution is not simultaneous", f.loc(carried[0]))
            else:
                col.ok(construct, "the loop does not thread a value through one-pair substitutions", f.loc(lp), nontrivial=False)
    col.cur.analysed["loops_over_substitution_pairs"] = n_loops

    # ---------------------------------------------------------------- R04.2
    col.rule("R04.2", "names that are not inputs of f are ignored", floor=2)
    fc = require_func(prog, "funsor.terms::Funsor.__call__")
    selfn = fc.positional[0]
    kw = fc.node.args.kwarg.arg if fc.node.args.kwarg else None
    # every read of kwargs[...] is under iteration over / membership in self.inputs, and kwargs itself never reaches Subs
    ok = kw is not None
    why = "Funsor.__call__ takes no **kwargs"
    if kw is not None:
        reads = [n for n in walk_no_nested(fc.node) if isinstance(n, ast.Subscript) and isinstance(n.value, ast.Name) and n.value.id == kw]
        for rd in reads:
            loops = [a for a in fc.module.ancestors(rd) if isinstance(a, ast.For) and norm(a.iter) in (f"{selfn}.inputs", f"{selfn}.inputs.keys()")]
            if not loops or norm(rd.slice) != norm(loops[0].target):
                ok, why = False, f"`{norm(rd)}` is read outside a loop over {selfn}.inputs"
        leaks = [n for n in walk_no_nested(fc.node) if isinstance(n, ast.Call) and any(isinstance(a, ast.Name) and a.id == kw for a in ast.walk(n) if a is not n.func)
                 and refs.resolve(n.func) in SUBST_CALLS]
        items = [n for n in walk_no_nested(fc.node) if isinstance(n, ast.Call) and isinstance(n.func, ast.Attribute) and n.func.attr in ("items", "update")
                 and any(isinstance(a, ast.Name) and a.id == kw for a in ast.walk(n))]
        if leaks or items:
            ok, why = False, "the caller's keyword dict flows into the substitution unfiltered"
        if not reads:
            ok, why = False, "keyword arguments are not looked up per input"
    col.check(ok, f"{fc.fq}::keywords restricted to own inputs", "keyword substitutions are looked up input by input; other names are dropped",
              f"{why}: a keyword that is not an input of the funsor is not ignored", fc.loc())
    sm = require_func(prog, "funsor.terms::SubsMeta.__call__")
    argp, subsp = sm.positional[1], sm.positional[2]
    filt = False
    for n in walk_no_nested(sm.node):
        if isinstance(n, (ast.GeneratorExp, ast.ListComp)) and norm(n.generators[0].iter) in (subsp, f"{subsp}.items()"):
            for c in n.generators[0].ifs:
                if isinstance(c, ast.Compare) and len(c.ops) == 1 and isinstance(c.ops[0], ast.In) and norm(c.comparators[0]) == f"{argp}.inputs":
                    filt = True
    col.check(filt, f"{sm.fq}::pairs filtered by arg.inputs", "only pairs whose key is an input of the argument are kept",
              "the Subs metaclass no longer drops pairs whose key is not an input of the argument", sm.loc())

    # ---------------------------------------------------------------- R04.3
    col.rule("R04.3", "Subs declares f's unsubstituted inputs plus the inputs of the substituted values", floor=3)
    si = require_func(prog, "funsor.terms::Subs.__init__")
    argp, subsp = si.positional[1], si.positional[2]
    sup = [c for c in walk_no_nested(si.node) if isinstance(c, ast.Call) and isinstance(c.func, ast.Attribute) and c.func.attr == "__init__" and c.args]
    iname = sup[0].args[0].id if sup and isinstance(sup[0].args[0], ast.Name) else None
    if iname is None:
        col.unresolved(f"{si.fq}::inputs", "the inputs passed to the base constructor are not a local", si.loc())
        return col
    start = [n for n in walk_no_nested(si.node) if isinstance(n, ast.Assign) and any(isinstance(t, ast.Name) and t.id == iname for t in n.targets)]
    ok_start = len(start) == 1 and norm(start[0].value) in (f"{argp}.inputs.copy()", f"OrderedDict({argp}.inputs)")
    col.check(ok_start, f"{si.fq}::starts from a copy of arg.inputs", "inputs start as a copy of the argument's inputs",
              "the declared inputs do not start from (a copy of) the argument's inputs", si.loc(start[0]) if start else si.loc())
    dels, adds = [], []
    for lp in [n for n in walk_no_nested(si.node) if isinstance(n, ast.For) and norm(lp_iter := n.iter) == subsp]:
        key = lp.target.elts[0].id if isinstance(lp.target, ast.Tuple) and isinstance(lp.target.elts[0], ast.Name) else None
        val = lp.target.elts[1].id if isinstance(lp.target, ast.Tuple) and len(lp.target.elts) > 1 and isinstance(lp.target.elts[1], ast.Name) else None
        for st in lp.body:
            if isinstance(st, ast.Delete) and any(norm(t) == f"{iname}[{key}]" for t in st.targets):
                dels.append(lp)
            if isinstance(st, ast.Expr) and isinstance(st.value, ast.Call) and norm(st.value.func) == f"{iname}.pop" and st.value.args and norm(st.value.args[0]) == key:
                dels.append(lp)
            if isinstance(st, ast.Expr) and isinstance(st.value, ast.Call) and norm(st.value.func) == f"{iname}.update" and st.value.args and norm(st.value.args[0]) == f"{val}.inputs":
                adds.append(lp)
        if lp.orelse or any(isinstance(x, (ast.Break, ast.Continue)) for x in ast.walk(lp)) or any(isinstance(s_, ast.If) for s_ in lp.body if not isinstance(s_, ast.Assert)):
            if lp in dels or lp in adds:
                col.violation(f"{si.fq}::{norm(lp)[:60]}", "the loop that removes keys / adds value inputs is conditional: some pairs are skipped", si.loc(lp))
    col.check(bool(dels), f"{si.fq}::every key removed", "every substituted key is removed from the inputs", "substituted keys are not removed from the declared inputs", si.loc())
    col.check(bool(adds), f"{si.fq}::every value's inputs added", "the inputs of every substituted value are added",
              "the inputs of the substituted values are not added to the declared inputs", si.loc())
    if dels and adds:
        col.check(max(d.lineno for d in dels) < min(a.lineno for a in adds), f"{si.fq}::remove before add", "keys are removed before value inputs are added (f(x=x+1) keeps x)",
                  "value inputs are added before the keys are removed: an input of a value that has the name of a substituted key is deleted again (f(x=x+1) loses x)", si.loc(adds[0]))
    return col
