"""C05 - bound variables are invisible: the renaming machinery is applied on every construction path,
with fresh names, to every place a bound name occurs (and to no free name)."""
from __future__ import annotations

import ast
from typing import Dict, List, Optional, Set, Tuple

from ..catalogue import Catalogue, TermClass
from ..cfg import CFG
from ..dataflow import Walker
from ..model import local_names, AnalysisError, Func, Program, norm
from ..report import Collector
from .common import Refs, enclosing_stmt, func_label, is_super_call, require_func, walk_no_nested

EXPLANATION = (
    "Premises of capture-avoiding substitution by eager renaming (Barendregt convention), decided on the source: R05.1 for every term "
    "class the constructor fields that contribute names to `bound` are derived from __init__ by dataflow, and the class's "
    "_alpha_convert (own or inherited) must return at that position a value that depends on the renaming map (string-kind binders "
    "need explicit recomputation, funsor-kind binders may go through the base substitution); conversely a string field that is not a "
    "binder must come back unchanged. R05.2 reflect mangles every constructed term before caching/returning it, and _alpha_mangle "
    "renames all of expr.bound (only filter: already carries the marker) to gensym'd names and rebuilds through reflect with the "
    "converted fields; the only unchanged return is guarded by an empty renaming map. R05.3 substitute stops at terms whose inputs "
    "are disjoint from the substituted names and only fresh names are handed to eager_subs. R05.4 the gensym counter is written only "
    "inside gensym by += 1 before it is read. R05.5 the reserved marker literal is the same everywhere it is used."
    ' Added since: R05.1 also requires that a rebuilt renaming map is filtered at most by membership in the inputs of every funsor-valued field and that keys/values of a mapping of bound names are not sorted independently; R05.6 a rewrite moves the binders of an inner contraction over sibling operands only under a kind-consistent freshness test (or vacuously).'
    ' Round 4: R05.7 names removed from the inputs mapping handed to the base constructor are keys of its bound argument on every path; R05.8 after R = P(**relabel) with gensym names, P.inputs / P.input_vars are not read.'
)
ASSUMPTIONS = [
    "the value semantics of renamed terms is not decided (runtime)",
    "field kinds are taken from the isinstance assertions of the constructors",
]
RULE_TEXT = "one obligation per (term class, constructor field) for the renaming law, per return/guard of the mangling functions, per writer of the name supply, per marker literal"

FUNSOR_BASE = "funsor.terms.Funsor"


def _binder_fields(t: TermClass) -> Tuple[Set[str], Optional[str]]:
    """Constructor parameters whose values contribute *names* to `bound` (dataflow inside __init__)."""
    init = t.cls.methods.get("__init__")
    if init is None:
        return set(), "inherits __init__"
    params = set(init.positional[1:])
    # the expression passed as `bound` to the base constructor
    bound_names: Set[str] = set()
    sup_calls = [n for n in walk_no_nested(init.node) if isinstance(n, ast.Call) and isinstance(n.func, ast.Attribute) and n.func.attr == "__init__"
                 and (is_super_call(n, "__init__") or norm(n.func.value) == "Funsor")]
    if not sup_calls:
        return set(), "no base constructor call"
    bexpr = None
    for c in sup_calls:
        args = list(c.args)
        if norm(c.func.value) == "Funsor" and args:
            args = args[1:]
        if len(args) >= 4:
            bexpr = args[3]
        for k in c.keywords:
            if k.arg == "bound":
                bexpr = k.value
    if bexpr is None:
        return set(), None  # no bound variables
    key_exprs: List[Tuple[ast.AST, List[ast.comprehension]]] = []

    def collect(e):
        if isinstance(e, ast.Dict):
            for k in e.keys:
                if k is not None:
                    key_exprs.append((k, []))
        elif isinstance(e, ast.DictComp):
            key_exprs.append((e.key, e.generators))
        elif isinstance(e, ast.Name):
            for n in walk_no_nested(init.node):
                if isinstance(n, ast.Assign) and any(isinstance(tg, ast.Name) and tg.id == e.id for tg in n.targets):
                    collect(n.value)
                if isinstance(n, ast.Assign):
                    for tg in n.targets:
                        if isinstance(tg, ast.Subscript) and isinstance(tg.value, ast.Name) and tg.value.id == e.id:
                            key_exprs.append((tg.slice, []))

    collect(bexpr)
    binders: Set[str] = set()
    for k, gens in key_exprs:
        names = {n.id for n in ast.walk(k) if isinstance(n, ast.Name)}
        for g in gens:
            tnames = {n.id for n in ast.walk(g.target) if isinstance(n, ast.Name)}
            if names & tnames:
                names |= {n.id for n in ast.walk(g.iter) if isinstance(n, ast.Name)}
        binders |= names & params
    return binders, None


def _field_kinds(t: TermClass) -> Dict[str, str]:
    init = t.cls.methods.get("__init__")
    kinds: Dict[str, str] = {}
    if init is None:
        return kinds
    for n in walk_no_nested(init.node):
        if isinstance(n, ast.Assert):
            for c in ast.walk(n.test):
                if isinstance(c, ast.Call) and isinstance(c.func, ast.Name) and c.func.id == "isinstance" and len(c.args) == 2 and isinstance(c.args[0], ast.Name):
                    ty = norm(c.args[1])
                    name = c.args[0].id
                    if name in kinds:
                        continue
                    if ty == "str":
                        kinds[name] = "str"
                    elif ty in ("Variable", "Funsor"):
                        kinds[name] = "funsor"
                    elif ty in ("frozenset", "tuple", "(frozenset, set)"):
                        kinds[name] = "container"
    return kinds


def _flat(vals):
    out = set()
    for v in vals:
        if v[0] == "tuple":
            for sub in v[1]:
                out |= _flat(sub)
        else:
            out.add(v)
    return out


class _Conv:
    """Abstract evaluation of an _alpha_convert body: which returned positions depend on the renaming map."""

    def __init__(self, f: Func, refs: Refs, fields: List[str]):
        self.f, self.refs, self.fields = f, refs, fields
        self.selfname = f.positional[0]
        self.mapname = f.positional[1] if len(f.positional) > 1 else None

    def ev(self, e, env):
        if isinstance(e, ast.Name):
            return env.get(e.id, frozenset({("other", e.id)}))
        if isinstance(e, ast.Attribute) and isinstance(e.value, ast.Name) and e.value.id == self.selfname:
            if e.attr == "_ast_values":
                return frozenset({("astvalues",)})
            if e.attr in self.fields:
                return frozenset({("field", e.attr)})
            return frozenset({("other", norm(e))})
        if isinstance(e, ast.Call):
            f = e.func
            # base conversion: substitute in every field
            is_base = (isinstance(f, ast.Attribute) and f.attr == "_alpha_convert" and
                       (is_super_call(e, "_alpha_convert") or norm(f.value) == "Funsor"))
            if is_base:
                margs = [a for a in e.args if not (isinstance(a, ast.Name) and a.id == self.selfname)]
                mt = self.ev(margs[0], env) if margs else frozenset()
                if any(v[0] in ("map", "renamed") for v in mt):
                    return frozenset({("baseconv",)})
                return frozenset({("astvalues",)})
            callee = self.refs.resolve(f) if isinstance(f, (ast.Name, ast.Attribute)) else None
            sub = [self.ev(a, env) for a in e.args] + [self.ev(k.value, env) for k in e.keywords]
            if isinstance(f, ast.Attribute):
                sub.append(self.ev(f.value, env))
            flat = _flat(set().union(*sub)) if sub else set()
            if callee == "funsor.terms.substitute" and len(e.args) == 2:
                mt = self.ev(e.args[1], env)
                if any(v[0] in ("map", "renamed") for v in mt):
                    return frozenset({("renamed",)})
            if any(v[0] in ("map", "renamed") for v in flat):
                return frozenset({("renamed",)})
            if any(v[0] == "baseconv" for v in flat):
                return frozenset({("renamed",)})
            return frozenset(v for v in flat if v[0] in ("field", "sub")) or frozenset({("other", norm(e))})
        if isinstance(e, ast.Tuple):
            return frozenset({("tuple", tuple(self.ev(x, env) for x in e.elts))})
        if isinstance(e, (ast.DictComp, ast.ListComp, ast.SetComp, ast.GeneratorExp)):
            inner = dict(env)
            taints = set()
            for g in e.generators:
                it = self.ev(g.iter, inner)
                taints |= set(it)
                for n in ast.walk(g.target):
                    if isinstance(n, ast.Name):
                        inner[n.id] = it
                for c in g.ifs:
                    taints |= set(self.ev(c, inner))
            parts = [e.key, e.value] if isinstance(e, ast.DictComp) else [e.elt]
            for p in parts:
                taints |= set(self.ev(p, inner))
            taints = _flat(taints)
            if any(v[0] in ("map", "renamed", "baseconv") for v in taints):
                return frozenset({("renamed",)})
            return frozenset(v for v in taints if v[0] in ("field", "sub")) or frozenset({("other", "comprehension")})
        if isinstance(e, ast.Subscript):
            b = self.ev(e.value, env)
            if any(v[0] in ("map", "renamed") for v in b) or any(v[0] in ("map", "renamed") for v in self.ev(e.slice, env)):
                return frozenset({("renamed",)})
            return b
        if isinstance(e, (ast.BinOp,)):
            l, r = self.ev(e.left, env), self.ev(e.right, env)
            if any(v[0] in ("map", "renamed") for v in l | r):
                return frozenset({("renamed",)})
            return l | r
        if isinstance(e, ast.IfExp):
            return self.ev(e.body, env) | self.ev(e.orelse, env)
        if isinstance(e, ast.Constant):
            return frozenset({("const",)})
        sub = set()
        for c in ast.iter_child_nodes(e):
            if isinstance(c, ast.expr):
                sub |= set(self.ev(c, env))
        if any(v[0] in ("map", "renamed") for v in sub):
            return frozenset({("renamed",)})
        return frozenset(sub) or frozenset({("other", norm(e))})

    def unpack(self, values, index, elt, env, stmt):
        out = set()
        for v in values:
            if v[0] == "tuple" and index < len(v[1]):
                out |= set(v[1][index])
            elif v[0] == "baseconv":
                out.add(("sub", index))
            elif v[0] == "astvalues":
                out.add(("field", self.fields[index]) if index < len(self.fields) else ("other", "?"))
            elif v[0] in ("map", "renamed"):
                out.add(("renamed",))
            else:
                out.add(v)
        return frozenset(out)

    def run(self):
        env = {self.selfname: frozenset({("self",)})}
        if self.mapname:
            env[self.mapname] = frozenset({("map",)})
        w = Walker(self.f.node, self.ev, init_env=env)
        w.unpack = self.unpack
        w.elem_of = lambda vals: frozenset({("renamed",)}) if any(v[0] in ("map", "renamed") for v in vals) else vals
        w.run()
        results: List[List[frozenset]] = []
        for st, vals, _ in w.returns:
            for v in vals:
                if v[0] == "tuple":
                    results.append((st, list(v[1])))
                elif v[0] == "baseconv":
                    results.append((st, [frozenset({("sub", i)}) for i in range(len(self.fields))]))
                elif v[0] == "astvalues":
                    results.append((st, [frozenset({("field", n)}) for n in self.fields]))
                else:
                    results.append((st, None))
        return results


def run(prog: Program, col: Collector, tier: str, refs: Optional[Refs] = None, cat: Optional[Catalogue] = None):
    refs = refs or Refs(prog)
    cat = cat or Catalogue(prog, refs)
    base = cat.term_classes.get(FUNSOR_BASE)
    if base is None:
        raise AnalysisError("funsor.terms.Funsor not found")

    # ---------------------------------------------------------------- R05.1
    r = col.rule("R05.1", "binder fields are renamed by _alpha_convert; non-binder name fields are not", floor=14)
    n_binder_classes = 0
    for t in sorted(cat.term_classes.values(), key=lambda x: x.fq):
        if t.fq == FUNSOR_BASE or t.cls.methods.get("__init__") is None:
            continue
        binders, why = _binder_fields(t)
        kinds = _field_kinds(t)
        if not binders:
            continue
        n_binder_classes += 1
        conv = prog.find_method(t.fq, "_alpha_convert")
        own = conv is not None and conv.cls is not None and conv.cls.fq != FUNSOR_BASE
        if conv is None:
            col.violation(f"{t.fq}::_alpha_convert", "no _alpha_convert found in the MRO", t.cls.module.loc(t.cls.node))
            continue
        if not own:
            # inherited base conversion substitutes in every funsor-valued field; string binders are not touched
            for b in sorted(binders):
                k = kinds.get(b, "unknown")
                construct = f"{t.fq}::{b}"
                if k == "str":
                    col.violation(construct, f"binder field `{b}` is a string and {t.name} inherits the base _alpha_convert, which does not rename strings: "
                                  "the bound name is never made fresh (capture / leakage)", t.cls.module.loc(t.cls.node))
                elif k in ("funsor", "container"):
                    col.ok(construct, f"{k}-kind binder renamed by the inherited base substitution", t.cls.module.loc(t.cls.node))
                else:
                    col.unresolved(construct, f"kind of binder field `{b}` unknown (no isinstance assertion)", t.cls.module.loc(t.cls.node))
            continue
        # a container-kind binder field is rebuilt FROM the old field (each old binder mapped through the renaming, unrenamed ones kept),
        # or taken from the base conversion's result for that position - never from the renaming map alone, which may cover only some binders
        selfn_ = conv.positional[0]
        for b in sorted(binders):
            if kinds.get(b) != "container" or b not in t.fields:
                continue
            reads_old = any(isinstance(x, ast.Attribute) and x.attr == b and isinstance(x.value, ast.Name) and x.value.id == selfn_ for x in ast.walk(conv.node))
            idx = t.fields.index(b)
            from_base = False
            for st in walk_no_nested(conv.node):
                if isinstance(st, ast.Assign) and isinstance(st.targets[0], ast.Tuple) and len(st.targets[0].elts) == len(t.fields) and isinstance(st.value, ast.Call) \
                        and isinstance(st.value.func, ast.Attribute) and st.value.func.attr == "_alpha_convert":
                    e = st.targets[0].elts[idx]
                    if isinstance(e, ast.Name) and e.id != "_" and any(isinstance(r, ast.Return) and any(isinstance(y, ast.Name) and y.id == e.id for y in ast.walk(r))
                                                                       for r in walk_no_nested(conv.node)):
                        from_base = True
            col.check(reads_old or from_base, f"{conv.fq}::field {b} rebuilt from the old binders",
                      f"the new `{b}` is computed from `{selfn_}.{b}` (or taken from the base conversion)",
                      f"`{conv.name}` of {t.name} never reads `{selfn_}.{b}`: the binders are rebuilt from the renaming map alone, so a binder the map does not mention "
                      "(only some of the bound names need renaming when nested reductions are fused) is dropped - its name leaks into the inputs", conv.loc())
        results = _Conv(conv, refs, t.fields).run()
        if not results:
            col.violation(f"{conv.fq}::returns", "_alpha_convert never returns", conv.loc())
            continue
        for st, positions in results:
            if positions is None or len(positions) != len(t.fields):
                col.unresolved(f"{conv.fq}::{norm(st)}", f"returned value is not a {len(t.fields)}-tuple the analysis can follow", conv.loc(st))
                continue
            for i, fname in enumerate(t.fields):
                taint = positions[i]
                kind = kinds.get(fname, "unknown")
                renamed = any(v[0] == "renamed" for v in taint) or (any(v[0] == "sub" for v in taint) and kind != "str")
                unchanged = all(v[0] in ("field", "const", "other", "self") or (v[0] == "sub" and kind == "str") for v in taint)
                construct = f"{conv.fq}::field {fname}"
                if fname in binders:
                    if renamed and not (kind == "str" and not any(v[0] == "renamed" for v in taint)):
                        col.ok(construct, f"binder field `{fname}` ({kind}) is recomputed from the renaming map", conv.loc(st))
                    else:
                        col.violation(construct, f"binder field `{fname}` ({kind}) is returned unchanged by {t.name}._alpha_convert: the bound name keeps the user's "
                                      "spelling while the body is renamed (capture, leakage into inputs, or a dangling binder)", conv.loc(st))
                elif kind == "str":
                    if any(v[0] == "renamed" for v in taint):
                        col.violation(construct, f"`{fname}` is a free (fresh) name of {t.name}, not a binder, yet _alpha_convert passes it through the renaming map: "
                                      "when it coincides with a bound name the visible input is renamed away", conv.loc(st))
                    else:
                        col.ok(construct, f"non-binder name field `{fname}` is returned unchanged", conv.loc(st), nontrivial=False)
    r.analysed["classes_with_binders"] = n_binder_classes
    # the factory's generated classes: Bound-hinted parameters are Variables, renamed by the base conversion with a map derived from alpha_subs
    mf = prog.funcs.get("funsor.factory::make_funsor")
    if mf is not None:
        ac = [n for n in ast.walk(mf.node) if isinstance(n, ast.FunctionDef) and n.name == "_alpha_convert"]
        for n in ac:
            ff = prog.func_of(n)
            res = _Conv(ff, refs, []).run() if ff else []
            rets = [x for x in walk_no_nested(n) if isinstance(x, ast.Return)]
            ok = bool(rets) and all(isinstance(x.value, ast.Call) and isinstance(x.value.func, ast.Attribute) and x.value.func.attr == "_alpha_convert" for x in rets)
            col.check(ok, f"{ff.fq}::delegates to base conversion", "generated classes rename through Funsor._alpha_convert (Bound parameters are Variables)",
                      "the generated _alpha_convert does not delegate to the base conversion", ff.loc())

    # ---------------------------------------------------------------- R05.7
    col.rule("R05.7", "every name a constructor hides from its subterm's inputs is declared bound, on every path", floor=4)
    _hidden_names_bound(prog, col, refs, cat)

    # ---------------------------------------------------------------- R05.8
    col.rule("R05.8", "after a term is relabelled with fresh names, name sets are computed from the relabelled term, not the original", floor=1)
    _relabel_discipline(prog, col, refs, cat)

    # ---------------------------------------------------------------- R05.9 (shared with C04: R04.11)
    col.rule("R05.9", "fusing nested substitutions rewrites every inner value that mentions a key (so no substituted name survives inside a value)", floor=2)
    from . import c04
    c04._fusion(prog, col, refs, cat)

    # ---------------------------------------------------------------- R05.10
    col.rule("R05.10", "no constructor declares the same names both fresh (visible outputs) and bound (invisible)", floor=10)
    _fresh_and_bound_disjoint(prog, col, refs, cat)

    # ---------------------------------------------------------------- R05.11 (shared with C02: R02.21)
    from . import algebra as _alg
    _alg.r_nested_fusion_same_red_op(prog, col, refs, cat, "R05.11")

    # ---------------------------------------------------------------- R05.12 / R05.13 (shared with C04: R04.19, R04.17)
    from . import c04 as _c04
    col.rule("R05.12", "a renaming set that is filtered by a test on itself is filtered to a fixpoint", floor=0)
    _c04._self_referential_filter(prog, col, refs, cat)
    col.rule("R05.13", "a rebuilt node is substituted only at the names that are fresh in the node itself, not in what it evaluated to", floor=1)
    _c04._fresh_of_original_node(prog, col, refs, cat)

    col.rule("R05.14", "whether an input of the term is substituted is decided on the keys of the substitution, never on a collection that holds names of the values", floor=4)
    _c04._substituted_decided_on_keys(prog, col, refs, cat)

    col.rule("R05.15", "a variable bound in one rebuilt element of a tuple of terms is tested against the elements that are copied", floor=1)
    _binder_in_one_element(prog, col, refs, cat)

    # ---------------------------------------------------------------- R05.2
    col.rule("R05.2", "every constructed term is mangled: all bound names, fresh names, rebuilt through reflect", floor=6)
    _mangle(prog, col, refs)

    # ---------------------------------------------------------------- R05.3
    col.rule("R05.3", "substitution stops at closed terms and only touches fresh names", floor=3)
    _substitute(prog, col, refs)

    # ---------------------------------------------------------------- R05.4
    col.rule("R05.4", "the fresh-name supply never repeats", floor=3)
    _gensym(prog, col, refs)

    # ---------------------------------------------------------------- R05.5
    col.rule("R05.5", "the reserved marker literal is used consistently", floor=4)
    _marker(prog, col, refs)

    # the renaming map handed to the base substitution covers every bound name: an _alpha_convert override that rebuilds the map
    # (to give the new names their domains) must not filter it
    for tc in cat.term_classes.values():
        m = tc.cls.methods.get("_alpha_convert")
        if m is None or len(m.positional) < 2:
            continue
        ap = m.positional[1]
        for n in walk_no_nested(m.node):
            if isinstance(n, ast.Assign) and isinstance(n.value, ast.DictComp) and any(isinstance(t, ast.Name) and t.id == ap for t in n.targets):
                g = n.value.generators[0]
                src_ok = norm(g.iter) in (f"{ap}.items()", ap)
                if src_ok:
                    # a filter `k in self.<field>.inputs` is harmless when it names every funsor-valued subterm the map is applied to
                    funsor_fields = set()
                    init = tc.cls.methods.get("__init__")
                    if init is not None:
                        for a in walk_no_nested(init.node):
                            if isinstance(a, ast.Assert) and isinstance(a.test, ast.Call) and norm(a.test.func) == "isinstance" and len(a.test.args) == 2 \
                                    and isinstance(a.test.args[0], ast.Name) and norm(a.test.args[1]) == "Funsor":
                                funsor_fields.add(a.test.args[0].id)
                    tested = {x.value.attr for c_ in g.ifs for x in ast.walk(c_) if isinstance(x, ast.Attribute) and x.attr == "inputs" and isinstance(x.value, ast.Attribute)}
                    if g.ifs and funsor_fields and funsor_fields <= tested:
                        col.ok(f"{m.fq}::renaming map rebuilt", f"filtered by membership in the inputs of every subterm ({', '.join(sorted(funsor_fields))})", m.loc(n), rule="R05.1")
                        continue
                    col.check(not g.ifs, f"{m.fq}::renaming map rebuilt", "the rebuilt renaming map keeps every bound name",
                              f"the renaming map is filtered by `{' and '.join(norm(c) for c in g.ifs)}` before it is applied: bound names that fail the test keep the user's spelling "
                              "in the subterms while the binder field is renamed - the variable leaks into .inputs", m.loc(n), rule="R05.1")
    # pairing of prev/curr step names: keys and values of one mapping must not be sorted independently
    for f in prog.funcs.values():
        if isinstance(f.node, ast.Lambda) or f.module.name not in ("funsor.sum_product", "funsor.terms"):
            continue
        sorted_parts = {}
        for n in walk_no_nested(f.node):
            if isinstance(n, ast.Call) and isinstance(n.func, ast.Name) and n.func.id == "sorted" and len(n.args) == 1 and isinstance(n.args[0], ast.Call) \
                    and isinstance(n.args[0].func, ast.Attribute) and n.args[0].func.attr in ("keys", "values") and isinstance(n.args[0].func.value, ast.Name):
                sorted_parts.setdefault(n.args[0].func.value.id, set()).add(n.args[0].func.attr)
        for name, parts in sorted_parts.items():
            if parts == {"keys", "values"}:
                col.violation(f"{f.fq}::sorted({name}.keys()) / sorted({name}.values())", f"the keys and the values of `{name}` are sorted independently: the pairing between a bound "
                              "name and its partner (prev -> curr step names) then depends on how the user spelled them", f.loc(), rule="R05.1")

    # ---------------------------------------------------------------- R05.6
    from . import algebra
    algebra.r_scope_extrusion(prog, col, refs, cat, "R05.6")
    return col


def _mangle(prog: Program, col: Collector, refs: Refs):
    rf = require_func(prog, "funsor.terms::reflect")
    am = require_func(prog, "funsor.terms::_alpha_mangle")
    cfg = CFG(rf.node)
    calls = [n for n in walk_no_nested(rf.node) if isinstance(n, ast.Assign) and isinstance(n.value, ast.Call) and refs.resolve(n.value.func) == "funsor.terms._alpha_mangle"]
    ctor = [n for n in walk_no_nested(rf.node) if isinstance(n, ast.Assign) and isinstance(n.value, ast.Call) and is_super_call(n.value, "__call__")]
    rets = [n for n in walk_no_nested(rf.node) if isinstance(n, ast.Return)]
    if not ctor:
        raise AnalysisError("reflect: construction site not found")
    built = ctor[0].targets[0].id if isinstance(ctor[0].targets[0], ast.Name) else None
    # every return reachable from the construction is dominated by a mangle call applied to the constructed object
    for r in rets:
        rn = cfg.nodes_for(r)
        cn = cfg.nodes_for(ctor[0])
        import networkx as nx
        after_ctor = any(nx.has_path(cfg.g, c.idx, x.idx) for c in cn for x in rn)
        if not after_ctor:
            continue
        dominated = any(cfg.dominates(a, x) for m in calls for a in cfg.nodes_for(m) for x in rn)
        arg_ok = all(m.value.args and isinstance(m.value.args[0], ast.Name) and m.value.args[0].id == built for m in calls)
        ret_ok = isinstance(r.value, ast.Name) and any(isinstance(t, ast.Name) and t.id == r.value.id for m in calls for t in m.targets)
        col.check(dominated and arg_ok and ret_ok, f"{rf.fq}::{norm(r)}", "the constructed term passes through _alpha_mangle before it is returned",
                  "a construction path returns the term without alpha-mangling it: user-chosen bound names stay in the term (capture / interference between binders)", rf.loc(r))
    # _alpha_mangle
    p = am.positional[0]
    mb = _map_builder(am)
    if mb is None:
        col.unresolved(f"{am.fq}::renaming map", "renaming map is neither a dict comprehension nor a `m = {}; for ...: m[k] = v` loop", am.loc())
        return
    m, mname, it, tname, key, value, filters = mb
    over_bound = isinstance(it, ast.Attribute) and it.attr == "bound" and isinstance(it.value, ast.Name) and it.value.id == p
    col.check(over_bound, f"{am.fq}::map domain", "the renaming map ranges over expr.bound", f"the renaming map ranges over `{norm(it)}`, not over all of expr.bound", am.loc(m))
    marker = None
    gens = [c for c in ast.walk(value) if isinstance(c, ast.Call) and refs.resolve(c.func) == "funsor.interpreter.gensym"]
    for c in gens:
        for s in ast.walk(c):
            if isinstance(s, ast.Constant) and isinstance(s.value, str):
                marker = s.value
    fresh_ok = bool(gens) and isinstance(key, ast.Name) and key.id == tname and marker is not None and any(
        isinstance(s, ast.Name) and s.id == tname for c in gens for s in ast.walk(c))
    col.check(fresh_ok, f"{am.fq}::fresh names", f"each bound name maps to gensym(name + {marker!r})",
              "new names are not produced by gensym(<old name> + marker): they may collide with existing names", am.loc(m))
    # filters: only "marker not in name" (as a comprehension condition, an enclosing `if`, or a `continue` guard on the negation)
    filt_ok = True
    for t, keep_when in filters:
        ok = isinstance(t, ast.Compare) and len(t.ops) == 1 and isinstance(t.left, ast.Constant) and t.left.value == marker \
            and isinstance(t.comparators[0], ast.Name) and t.comparators[0].id == tname \
            and ((isinstance(t.ops[0], ast.NotIn) and keep_when) or (isinstance(t.ops[0], ast.In) and not keep_when))
        filt_ok = filt_ok and ok
    col.check(filt_ok, f"{am.fq}::filter", "the only names skipped are those that already carry the marker",
              f"bound names are skipped by `{' and '.join(('' if kw else 'not ') + norm(c) for c, kw in filters)}`: some user-chosen binders are never renamed", am.loc(m))
    # returns
    for r in [n for n in walk_no_nested(am.node) if isinstance(n, ast.Return)]:
        v = r.value
        construct = f"{am.fq}::{norm(r)}"
        if isinstance(v, ast.Name) and v.id == p:
            # unchanged return: must be guarded by `not <map>`
            par = am.module.parent.get(r)
            guard = isinstance(par, ast.If) and r in par.body and isinstance(par.test, ast.UnaryOp) and isinstance(par.test.op, ast.Not) \
                and isinstance(par.test.operand, ast.Name) and par.test.operand.id == mname
            # and the map must have been computed before
            col.check(guard and par.lineno > m.lineno, construct, "the term is returned unchanged only when there is nothing to rename",
                      "the term is returned un-renamed under a condition other than `the renaming map is empty`: terms whose bound set mixes renamed and user names keep user-chosen binders", am.loc(r))
        elif isinstance(v, ast.Call) and isinstance(v.func, ast.Attribute) and v.func.attr == "interpret" and refs.resolve(v.func.value) == "funsor.interpretations.reflect":
            a0 = v.args[0] if v.args else None
            ty_ok = isinstance(a0, ast.Call) and isinstance(a0.func, ast.Name) and a0.func.id == "type" and norm(a0.args[0]) == p
            star = v.args[1] if len(v.args) > 1 else None
            conv_ok = False
            if isinstance(star, ast.Starred) and isinstance(star.value, ast.Name):
                for n in walk_no_nested(am.node):
                    if isinstance(n, ast.Assign) and any(isinstance(t, ast.Name) and t.id == star.value.id for t in n.targets):
                        cc = [c for c in ast.walk(n.value) if isinstance(c, ast.Attribute) and c.attr == "_alpha_convert"]
                        uses_map = any(isinstance(x, ast.Name) and x.id == mname for x in ast.walk(n.value))
                        conv_ok = bool(cc) and uses_map
            col.check(ty_ok and conv_ok, construct, "rebuilt through reflect with the same class and the converted fields",
                      "the renamed term is not rebuilt as reflect.interpret(type(expr), *expr._alpha_convert(map))", am.loc(r))
        else:
            col.unresolved(construct, "unrecognised return form", am.loc(r))


def _map_builder(am: Func):
    """The statement that builds the renaming map, normalised to (stmt, map name, iterable, loop variable, key, value,
    [(filter expression, keep-when-true)]).  Forms: a dict comprehension; `m = {}` + a for-loop storing m[k] = v under `if`s /
    `if c: continue` guards."""
    for n in walk_no_nested(am.node):
        if isinstance(n, ast.Assign) and isinstance(n.value, ast.DictComp) and isinstance(n.targets[0], ast.Name):
            dc = n.value
            if len(dc.generators) != 1 or not isinstance(dc.generators[0].target, ast.Name):
                return None
            g = dc.generators[0]
            return n, n.targets[0].id, g.iter, g.target.id, dc.key, dc.value, [(c, True) for c in g.ifs]
    empties = {}
    for n in walk_no_nested(am.node):
        if isinstance(n, ast.Assign) and len(n.targets) == 1 and isinstance(n.targets[0], ast.Name):
            v = n.value
            if (isinstance(v, ast.Dict) and not v.keys) or (isinstance(v, ast.Call) and isinstance(v.func, ast.Name) and v.func.id in ("dict", "OrderedDict") and not v.args and not v.keywords):
                empties[n.targets[0].id] = n
    for lp in walk_no_nested(am.node):
        if not (isinstance(lp, ast.For) and isinstance(lp.target, ast.Name) and not lp.orelse):
            continue

        def scan(stmts, filters):
            found = None
            filters = list(filters)
            for st in stmts:
                if isinstance(st, ast.If) and not st.orelse and len(st.body) == 1 and isinstance(st.body[0], ast.Continue):
                    filters.append((st.test, False))
                    continue
                if isinstance(st, ast.If) and not st.orelse:
                    r = scan(st.body, filters + [(st.test, True)])
                    if r is not None:
                        found = r
                    continue
                if isinstance(st, ast.Assign) and len(st.targets) == 1 and isinstance(st.targets[0], ast.Subscript) \
                        and isinstance(st.targets[0].value, ast.Name) and st.targets[0].value.id in empties:
                    found = (st.targets[0].value.id, st.targets[0].slice, st.value, filters)
            return found

        r = scan(lp.body, [])
        if r is not None:
            mname, key, value, filters = r
            return lp, mname, lp.iter, lp.target.id, key, value, filters
    return None


def _substitute(prog: Program, col: Collector, refs: Refs):
    sub = require_func(prog, "funsor.terms::substitute")
    stop = prog.funcs.get("funsor.terms::substitute.stop")
    if stop is None:
        col.unresolved(f"{sub.fq}::stop", "stop predicate not found as a nested function", sub.loc())
    else:
        txt = [norm(n.test) for n in walk_no_nested(stop.node) if isinstance(n, ast.If)]
        good = any(".isdisjoint(" in t and ".inputs" in t and "isinstance" in t for t in txt)
        col.check(good, f"{stop.fq}::closed terms", "substitution does not descend into terms whose inputs are disjoint from the substituted names",
                  "the stop predicate no longer tests `support.isdisjoint(x.inputs)`: substitution descends into binders whose bound name was already renamed away", stop.loc())
        # support = all substituted names: the set tested with .isdisjoint(...) inside stop is built from every pair of subs, unfiltered
        sup_names = {n.func.value.id for n in ast.walk(stop.node) if isinstance(n, ast.Call) and isinstance(n.func, ast.Attribute) and n.func.attr == "isdisjoint"
                     and isinstance(n.func.value, ast.Name)}
        sup = [n for n in walk_no_nested(sub.node) if isinstance(n, ast.Assign) and any(isinstance(t, ast.Name) and t.id in sup_names for t in n.targets)]
        ok = bool(sup) and isinstance(sup[0].value, ast.Call) and norm(sup[0].value.func) in ("frozenset", "set") and sup[0].value.args \
            and isinstance(sup[0].value.args[0], (ast.GeneratorExp, ast.SetComp, ast.ListComp)) \
            and not sup[0].value.args[0].generators[0].ifs and norm(sup[0].value.args[0].generators[0].iter) in (sub.positional[1], f"{sub.positional[1]}.items()")
        col.check(ok, f"{sub.fq}::support", "support is the set of all substituted names", "support is not the full set of substituted names", sub.loc())
    si = require_func(prog, "funsor.terms::SubstituteInterpretation.interpret")
    gens = [n for n in walk_no_nested(si.node) if isinstance(n, ast.GeneratorExp)]
    ok = any(any("fresh" in norm(c) and isinstance(c, ast.Compare) and isinstance(c.ops[0], ast.In) for c in g.generators[0].ifs) for g in gens)
    col.check(ok, f"{si.fq}::fresh filter", "only pairs whose key is in expr.fresh reach eager_subs",
              "SubstituteInterpretation passes names to eager_subs that are not fresh variables of the term", si.loc())


def _gensym(prog: Program, col: Collector, refs: Refs):
    name = "funsor.interpreter._GENSYM_COUNTER"
    mod = prog.modules["funsor.interpreter"]
    if "_GENSYM_COUNTER" not in mod.bindings:
        raise AnalysisError("anchor _GENSYM_COUNTER not found")
    gs = require_func(prog, "funsor.interpreter::gensym")
    writers = []
    for m, node in refs.to(name):
        if isinstance(getattr(node, "ctx", None), (ast.Store, ast.Del)):
            st = enclosing_stmt(m, node)
            where = func_label(prog, m, node)
            if where == "funsor.interpreter::<module>":
                ok = isinstance(st, ast.Assign) and isinstance(st.value, ast.Constant) and isinstance(st.value.value, int)
                col.check(ok, f"{where}::{norm(st)}", "initialised once to a constant", "counter initialised to a non-constant", m.loc(st))
                continue
            writers.append((m, st, where))
    for m, st, where in writers:
        good = where == gs.fq and isinstance(st, ast.AugAssign) and isinstance(st.op, ast.Add) and isinstance(st.value, ast.Constant) \
            and isinstance(st.value.value, int) and st.value.value > 0
        col.check(good, f"{where}::{norm(st)}", "the counter only grows, inside gensym",
                  f"the fresh-name counter is written by `{norm(st)}` in {where}: names may repeat (a 'fresh' name can equal an existing one)", m.loc(st))
    incs = [st for m, st, where in writers if where == gs.fq]
    col.check(len(incs) == 1, f"{gs.fq}::increment", "exactly one increment per call", f"{len(incs)} writes to the counter in gensym", gs.loc())
    # increment precedes the read; every returned string contains the counter value
    if incs:
        reads = [n for n in walk_no_nested(gs.node) if isinstance(n, ast.Name) and n.id == "_GENSYM_COUNTER" and isinstance(n.ctx, ast.Load)]
        ok = all(r.lineno > incs[0].lineno for r in reads) and bool(reads)
        col.check(ok, f"{gs.fq}::increment before read", "the counter is incremented before its value is used", "the counter is read before it is incremented: two calls can see the same value", gs.loc())
        symnames = {t.id for n in walk_no_nested(gs.node) if isinstance(n, ast.Assign) and any(r in list(ast.walk(n.value)) for r in reads) for t in n.targets if isinstance(t, ast.Name)}
        for r in [n for n in walk_no_nested(gs.node) if isinstance(n, ast.Return) and n.value is not None]:
            names = {x.id for x in ast.walk(r.value) if isinstance(x, ast.Name)}
            is_str = any(isinstance(x, ast.Constant) and isinstance(x.value, str) for x in ast.walk(r.value)) or any(
                isinstance(x, ast.Call) and norm(x.func) == "str" for x in ast.walk(r.value))
            if not is_str:
                col.note(f"{gs.fq}::{norm(r)}", "non-string symbol (id of an object)", gs.loc(r))
                continue
            col.check(bool(names & (symnames | {"_GENSYM_COUNTER"})), f"{gs.fq}::{norm(r)}", "the returned name embeds the counter value",
                      "a returned name does not contain the counter: successive calls return the same name", gs.loc(r))


def _marker(prog: Program, col: Collector, refs: Refs):
    am = require_func(prog, "funsor.terms::_alpha_mangle")
    markers = [s.value for c in ast.walk(am.node) if isinstance(c, ast.Call) and refs.resolve(c.func) == "funsor.interpreter.gensym"
               for s in ast.walk(c) if isinstance(s, ast.Constant) and isinstance(s.value, str)]
    if not markers:
        col.unresolved(f"{am.fq}::marker", "marker literal not found", am.loc())
        return
    marker = markers[0]
    stem = marker.strip("_").upper()
    for mod in prog.modules.values():
        for n in ast.walk(mod.tree):
            if isinstance(n, ast.Constant) and isinstance(n.value, str) and stem in n.value.upper() and len(n.value) <= len(marker) + 4:
                p = mod.parent.get(n)
                if isinstance(p, ast.Expr):
                    continue  # docstring
                col.check(n.value == marker, f"{func_label(prog, mod, n)}::{norm(enclosing_stmt(mod, n))}", f"uses the marker {marker!r}",
                          f"marker literal {n.value!r} differs from the one _alpha_mangle writes ({marker!r}): renamed binders are not recognised / not un-mangled", mod.loc(n))
    # sibling check: inside a function that uses the marker, every literal in the same syntactic role (argument of
    # `.split(...)`, left operand of `in` / `not in` against a name) must be the marker itself
    for f in prog.funcs.values():
        lits = [n for n in walk_no_nested(f.node) if isinstance(n, ast.Constant) and n.value == marker]
        if not lits:
            continue
        for n in walk_no_nested(f.node):
            cand = None
            if isinstance(n, ast.Call) and isinstance(n.func, ast.Attribute) and n.func.attr in ("split", "rsplit", "partition", "endswith", "startswith", "replace") \
                    and n.args and isinstance(n.args[0], ast.Constant) and isinstance(n.args[0].value, str):
                cand = n.args[0]
            elif isinstance(n, ast.Compare) and len(n.ops) == 1 and isinstance(n.ops[0], (ast.In, ast.NotIn)) and isinstance(n.left, ast.Constant) \
                    and isinstance(n.left.value, str) and isinstance(n.comparators[0], ast.Name):
                cand = n.left
            if cand is not None and cand.value != marker and cand.value.startswith("_"):
                col.violation(f"{f.fq}::{norm(enclosing_stmt(f.module, cand))}",
                              f"literal {cand.value!r} is used where the sibling sites of this function use the marker {marker!r}: renamed binders are not recognised / not un-mangled",
                              f.loc(cand))



# ---------------------------------------------------------------------- R05.7
def _hidden_names_bound(prog: Program, col: Collector, refs: Refs, cat: Catalogue):
    """A term constructor that removes a name from (a copy of) a subterm's inputs hides that name: it must be handed to the base
    constructor as a bound name - unconditionally - or alpha-conversion never renames it and a value substituted into the term
    that mentions the same name is captured."""
    n = 0
    for t in sorted(cat.term_classes.values(), key=lambda x: x.fq):
        init = t.cls.methods.get("__init__")
        if init is None or t.fq == FUNSOR_BASE:
            continue
        sup = [c for c in walk_no_nested(init.node) if isinstance(c, ast.Call) and isinstance(c.func, ast.Attribute) and c.func.attr == "__init__"
               and (is_super_call(c, "__init__") or norm(c.func.value) == "Funsor")]
        if not sup:
            continue
        call = sup[0]
        args = [a for a in call.args if not (isinstance(a, ast.Name) and a.id == init.positional[0])]
        kw = {k.arg: k.value for k in call.keywords}
        inputs_e = args[0] if args else kw.get("inputs")
        bound_e = args[3] if len(args) > 3 else kw.get("bound")
        if not isinstance(inputs_e, ast.Name):
            continue
        M = inputs_e.id
        params = set(init.positional[1:])

        def key_text(k):
            if isinstance(k, ast.Name) and k.id in params:
                return k.id
            if isinstance(k, ast.Attribute) and k.attr == "name" and isinstance(k.value, ast.Name) and k.value.id in params:
                return norm(k)
            return None

        hidden = []
        for x in walk_no_nested(init.node):
            if isinstance(x, ast.Call) and isinstance(x.func, ast.Attribute) and x.func.attr == "pop" and isinstance(x.func.value, ast.Name) and x.func.value.id == M and x.args:
                kt = key_text(x.args[0])
                if kt:
                    hidden.append((kt, x))
            if isinstance(x, ast.Delete):
                for tg in x.targets:
                    if isinstance(tg, ast.Subscript) and isinstance(tg.value, ast.Name) and tg.value.id == M:
                        kt = key_text(tg.slice)
                        if kt:
                            hidden.append((kt, x))
        if not hidden:
            continue
        # keys of `bound` that are there on every path: the dict display / top-level keyed stores of the local handed to the base constructor
        always: Set[str] = set()
        sometimes: Set[str] = set()
        top = set(map(id, init.body))

        def collect(e, uncond=True):
            if isinstance(e, ast.Dict):
                for k in e.keys:
                    if k is not None:
                        (always if uncond else sometimes).add(norm(k))
            elif isinstance(e, ast.Name):
                for st in walk_no_nested(init.node):
                    if not isinstance(st, ast.Assign):
                        continue
                    at_top = id(st) in top
                    for tg in st.targets:
                        if isinstance(tg, ast.Name) and tg.id == e.id:
                            collect(st.value, uncond and at_top)
                        if isinstance(tg, ast.Subscript) and isinstance(tg.value, ast.Name) and tg.value.id == e.id:
                            (always if (uncond and at_top) else sometimes).add(norm(tg.slice))

        if bound_e is not None:
            collect(bound_e)
        for kt, site in hidden:
            n += 1
            construct = f"{init.fq}::hidden name `{kt}`"
            if kt in always:
                col.ok(construct, f"`{kt}` is removed from the inputs and declared bound on every path", init.loc(site))
            elif kt in sometimes:
                col.violation(construct, f"`{kt}` is removed from the inputs on every path but declared bound only under a condition: when the condition fails the name is "
                              "hidden without being a binder, so it is never alpha-renamed and captures a free variable of that name in a substituted value", init.loc(site))
            else:
                col.violation(construct, f"`{kt}` is removed from the subterm's inputs but is not among the bound names handed to the base constructor: it is never "
                              "alpha-renamed (capture of substituted values / interference between equal names)", init.loc(site))
    col.cur.analysed["hidden_names"] = n


# ---------------------------------------------------------------------- R05.8
def _relabel_discipline(prog: Program, col: Collector, refs: Refs, cat: Catalogue):
    """`relabel = {k: gensym(k) ...}; R = P(**relabel)` moves the keys of P out of the way of the variables of other terms.  From there
    on P's own input names are the wrong ones to compare against: a read of P.inputs / P.input_vars after the relabelling confuses
    a key with a free variable of the same name in a substituted value."""
    n = 0
    for f in prog.funcs.values():
        if isinstance(f.node, ast.Lambda):
            continue
        fresh_maps = set()
        for st in walk_no_nested(f.node):
            if isinstance(st, ast.Assign) and len(st.targets) == 1 and isinstance(st.targets[0], ast.Name) and isinstance(st.value, (ast.DictComp, ast.Dict)):
                vals = [st.value.value] if isinstance(st.value, ast.DictComp) else st.value.values
                if vals and all(isinstance(v, ast.Call) and (refs.resolve(v.func) if isinstance(v.func, (ast.Name, ast.Attribute)) else None) == "funsor.interpreter.gensym"
                                for v in vals):
                    fresh_maps.add(st.targets[0].id)
        if not fresh_maps:
            continue
        for st in walk_no_nested(f.node):
            if not (isinstance(st, ast.Assign) and len(st.targets) == 1 and isinstance(st.targets[0], ast.Name) and isinstance(st.value, ast.Call)):
                continue
            c = st.value
            if not (isinstance(c.func, ast.Name) and not c.args and len(c.keywords) == 1 and c.keywords[0].arg is None
                    and isinstance(c.keywords[0].value, ast.Name) and c.keywords[0].value.id in fresh_maps):
                continue
            P, R = c.func.id, st.targets[0].id
            if P not in f.params and P not in local_names(f.node):
                continue
            n += 1
            stale = [x for x in walk_no_nested(f.node) if isinstance(x, ast.Attribute) and x.attr in ("inputs", "input_vars") and isinstance(x.value, ast.Name)
                     and x.value.id == P and getattr(x, "lineno", 0) > st.lineno]
            construct = f"{f.fq}::{R} = {P}(**{c.keywords[0].value.id})"
            if stale:
                col.violation(construct, f"`{norm(stale[0])}` is read after `{P}` has been relabelled to `{R}` with fresh names: the substituted keys of `{P}` are compared with the "
                              "variables of other terms under their original spelling, so a free variable that happens to have a key's name is taken for the key", f.loc(stale[0]))
            else:
                col.ok(construct, f"after the relabelling only `{R}` is consulted for input names", f.loc(st))
    if n == 0:
        raise AnalysisError("no fresh relabelling site found (anchor: adjoint_subs)")


# ---------------------------------------------------------------------- R05.10
def _fresh_and_bound_disjoint(prog: Program, col: Collector, refs: Refs, cat: Catalogue):
    """`fresh` names are inputs the term itself introduces; `bound` names are hidden and alpha-renamed at construction.  A constructor
    that derives BOTH sets from the same parameter declares the names visible and invisible at once: the lazily built term then
    lists the mangled name (`x__BOUND_1`) among its inputs and no longer has the input the user named."""
    n = 0
    for t in sorted(cat.term_classes.values(), key=lambda x: x.fq):
        init = t.cls.methods.get("__init__")
        if init is None or t.fq == FUNSOR_BASE:
            continue
        sup = [c for c in walk_no_nested(init.node) if isinstance(c, ast.Call) and isinstance(c.func, ast.Attribute) and c.func.attr == "__init__"
               and (is_super_call(c, "__init__") or norm(c.func.value) == "Funsor")]
        if not sup:
            continue
        call = sup[0]
        args = [a for a in call.args if not (isinstance(a, ast.Name) and a.id == init.positional[0])]
        kw = {k.arg: k.value for k in call.keywords}
        fresh_e = args[2] if len(args) > 2 else kw.get("fresh")
        bound_e = args[3] if len(args) > 3 else kw.get("bound")
        if fresh_e is None or bound_e is None:
            continue
        params = set(init.positional[1:])

        def sources(e, depth=0):
            """constructor parameters the NAMES in the collection are drawn from"""
            out = set()
            if depth > 3:
                return out
            if isinstance(e, ast.Name):
                if e.id in params:
                    out.add(e.id)
                for st in walk_no_nested(init.node):
                    if isinstance(st, ast.Assign) and any(isinstance(tg, ast.Name) and tg.id == e.id for tg in st.targets):
                        out |= sources(st.value, depth + 1)
                return out
            if isinstance(e, (ast.DictComp, ast.SetComp, ast.GeneratorExp, ast.ListComp)):
                key = e.key if isinstance(e, ast.DictComp) else e.elt
                tnames = {x.id for g in e.generators for x in ast.walk(g.target) if isinstance(x, ast.Name)}
                if any(isinstance(x, ast.Name) and x.id in tnames for x in ast.walk(key)):
                    for g in e.generators:
                        out |= {x.id for x in ast.walk(g.iter) if isinstance(x, ast.Name) and x.id in params}
                return out
            if isinstance(e, ast.Call) and e.args:
                for a in e.args:
                    out |= sources(a, depth + 1)
                return out
            if isinstance(e, ast.Dict):
                for k in e.keys:
                    if k is not None:
                        out |= {x.id for x in ast.walk(k) if isinstance(x, ast.Name) and x.id in params}
                return out
            if isinstance(e, (ast.Set, ast.Tuple, ast.List)):
                for k in e.elts:
                    out |= {x.id for x in ast.walk(k) if isinstance(x, ast.Name) and x.id in params}
            return out

        fs, bs = sources(fresh_e), sources(bound_e)
        n += 1
        both = sorted(fs & bs)
        col.check(not both, f"{init.fq}::fresh / bound", "the fresh names and the bound names come from different constructor parameters",
                  f"both the fresh names and the bound names are drawn from `{both[0] if both else ''}`: the names are declared as inputs of the term and as hidden binders at once, so "
                  "alpha-renaming renames an INPUT - the lazily built term has input `<name>__BOUND_n` and has lost the input the user named", init.loc(call))
    col.cur.analysed["constructors_with_fresh_and_bound"] = n


# ---------------------------------------------------------------------- R05.15 binding a variable in one element of a tuple of terms


def _binder_in_one_element(prog: Program, col: Collector, refs: Refs, cat: Catalogue):
    """A rule that rebuilds a tuple of terms as `T[:i] + (new,) + T[i+1:]` where `new` binds a variable (Lambda(v, ...), .reduce(op, v))
    that the old element had free removes that variable from ONE element.  The others are copied as they are; if one of them
    mentions the variable it stays free in the result although the term being rewritten bound it (its declared inputs do not have
    it).  The rule has to test the copied elements for the variable and decline."""
    n = 0
    seen = set()
    for r in cat.registrations:
        f = r.target
        if f is None or isinstance(f.node, ast.Lambda) or f.fq in seen or not r.registry.startswith("funsor.interpretations."):
            continue
        seen.add(f.fq)
        defs = {}
        for st in walk_no_nested(f.node):
            if isinstance(st, ast.Assign) and len(st.targets) == 1 and isinstance(st.targets[0], ast.Name):
                defs.setdefault(st.targets[0].id, []).append(st.value)

        def expand(e, depth=0):
            out = [e]
            if depth > 4:
                return out
            for x in ast.walk(e):
                if isinstance(x, ast.Name) and x.id in defs:
                    for d in defs[x.id]:
                        out += expand(d, depth + 1)
            return out

        for node in walk_no_nested(f.node):
            if not (isinstance(node, ast.BinOp) and isinstance(node.op, ast.Add)) or isinstance(f.module.parent.get(node), ast.BinOp):
                continue
            terms = []
            def flat(e):
                if isinstance(e, ast.BinOp) and isinstance(e.op, ast.Add):
                    flat(e.left); flat(e.right)
                else:
                    terms.append(e)
            flat(node)
            heads = [t for t in terms if isinstance(t, ast.Subscript) and isinstance(t.slice, ast.Slice) and t.slice.lower is None and t.slice.upper is not None]
            tails = [t for t in terms if isinstance(t, ast.Subscript) and isinstance(t.slice, ast.Slice) and t.slice.lower is not None and t.slice.upper is None]
            mids = [t for t in terms if isinstance(t, ast.Tuple)]
            if not (heads and tails and mids) or norm(heads[0].value) != norm(tails[0].value):
                continue
            coll = norm(heads[0].value)
            # variables bound in the new element
            bound = set()
            for m in mids:
                for e in expand(m):
                    for c in ast.walk(e):
                        if isinstance(c, ast.Call) and (refs.resolve(c.func) or "") == "funsor.terms.Lambda" and c.args:
                            for e2 in expand(c.args[0]):
                                for v in ast.walk(e2):
                                    if isinstance(v, ast.Call) and (refs.resolve(v.func) or "") == "funsor.terms.Variable" and v.args and isinstance(v.args[0], ast.Name):
                                        bound.add(v.args[0].id)
                        if isinstance(c, ast.Call) and isinstance(c.func, ast.Attribute) and c.func.attr == "reduce" and len(c.args) >= 2 and isinstance(c.args[1], ast.Name):
                            bound.add(c.args[1].id)
            bound &= set(f.params)
            if not bound:
                continue
            n += 1
            for v in sorted(bound):
                # a declining guard: an `if` that exits (return None / continue / raise) and whose test reads v against the .inputs of the copied elements
                guard = None
                for g in walk_no_nested(f.node):
                    if not isinstance(g, ast.If):
                        continue
                    exits = any(isinstance(st, (ast.Continue, ast.Raise)) or (isinstance(st, ast.Return) and (st.value is None or (isinstance(st.value, ast.Constant) and st.value.value is None)))
                                for st in g.body)
                    if not exits:
                        continue
                    texts = [x for e in expand(g.test) for x in ast.walk(e)]
                    reads_v = any(isinstance(x, ast.Name) and x.id == v for x in texts)
                    reads_inputs = any(isinstance(x, ast.Attribute) and x.attr in ("inputs", "input_vars") for x in texts)
                    reads_coll = any(isinstance(x, (ast.Attribute, ast.Name)) and norm(x) == coll for x in texts)
                    if reads_v and reads_inputs and reads_coll:
                        guard = g
                col.check(guard is not None, f"{f.fq}::{coll}[:i] + (...) + {coll}[i+1:]::{v}",
                          f"the rule declines when a copied element of `{coll}` mentions `{v}`",
                          f"`{v}` is bound in the rebuilt element only (Lambda / reduce), the other elements of `{coll}` are copied unchanged and nothing tests them for `{v}`: if one of them "
                          f"depends on it the result has `{v}` as a free input that the term being rewritten does not declare", f.loc(node))
    col.cur.analysed["tuple_splices_with_a_binder"] = n
