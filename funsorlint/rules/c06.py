"""C06 - declared types match actual values (writer/reader agreement of op parameters, sound bounded-integer sizes,
eager/lazy agreement on where the type comes from, Tensor's declared event shape)."""
from __future__ import annotations

import ast
import itertools
from typing import Dict, List, Optional, Set, Tuple

from .. import axioms
from ..catalogue import Catalogue, OpInfo, Registration
from ..dataflow import Walker
from ..model import AnalysisError, Func, Program, norm
from ..report import Collector
from .common import Refs, func_label, require_func, walk_no_nested

EXPLANATION = (
    "R06.1 writer/reader agreement: every op.defaults['k'] / .get('k') in a rule is matched against the parameters the op classes "
    "covered by the rule's registration pattern actually declare (from the op catalogue): a subscript needs k on every such op, a "
    ".get needs it on at least one (otherwise the default always wins and the parameter is silently ignored). R06.2: the bounded-integer "
    "result sizes computed by find_domain rules are extracted symbolically over L = lhs.size, R = rhs.size and compared with the "
    "interval-arithmetic supremum of the abstract operation on [0,L-1]x[0,R-1] for all L,R in 1..8 (the analyser evaluates its own "
    "extracted formula, never repository code). R06.3: eager rules that compute a dtype take it from find_domain(op, <operand outputs "
    "in parameter order>) with the rule's own op - the same call shape as the lazy constructors. R06.4: Tensor declares as event shape "
    "the trailing shape of its array after len(inputs) batch dimensions. R06.5: a dimension parameter read from an op (axis/dim) is "
    "normalised modulo the rank before it is compared with dimension indices, in every branch of its canonicalisation."
    " Added since: R06.3 follows the dtype of every Tensor/Number built by a ground eager rule for a class of ops back to find_domain; R06.6 a Slice's stop reaches construction clamped to dtype."
    ' Round 4: R06.7 (= R01.11) rules for parametrised ops mention their op instance; R06.8 constant sizes in the find_domain rule of the cast op only for dtypes with that many values; R06.9 (= R04.4) a distributed substitution reaches every operand that mentions a key.'
    " Round 6: R06.10 batch/event boundary computed from the array's own tensor; R06.11 axis labels in the order of the tensor's own inputs; R06.12 slice-length expressions equal len(range(start, stop, step)) on a grid; R06.13 Number/Tensor branches of an eager_subs agree in data and dtype."
    ' R06.20 (exhaustiveness): every unary op that find_domain types by the generic UnaryOp rule (same shape, same dtype) is elementwise - its array implementations call no numpy function of a frozen table of shape-changing / dtype-changing calls (expand_dims, transpose, swapaxes, broadcast_to, diagonal, argmax, argmin, arange, zeros, full, eye, randn, squeeze, isnan ...; `return x.reshape(..)` style methods); implementations outside both tables are unresolved. R06.3 also covers Number.eager_unary / Tensor.eager_unary.'
    ' R06.21: every binary op typed by the generic BinaryOp rule (operands of one dtype -> that dtype) whose default implementation is a Python operator maps [0, n) x [0, n) into [0, n) for n = 1..4, by the semantics of that Python operator.'
)
ASSUMPTIONS = [
    "values/shapes actually returned by op implementations on arrays are not decided (runtime)",
    "Bint[2] results of comparisons and of and_/or_/xor follow funsor's documented 'booleans with bitwise interpretation' convention and are out of R06.2's scope",
]
RULE_TEXT = "one obligation per op-parameter read, per (op, size rule) pair, per find_domain call in an eager rule, per canonicalisation branch"


def _op_types_of_param(cat: Catalogue, refs: Refs, f: Func, pname: str) -> List[str]:
    """op class references ('op:<fq>' / 'abs:<fq>') that the registrations installing ``f`` give to parameter ``pname``."""
    out = []
    for r in cat.registrations:
        if r.target is not f or r.method not in ("register",):
            continue
        pats = list(r.pattern)
        head = refs.resolve(pats[0]) if pats and isinstance(pats[0], (ast.Name, ast.Attribute)) else None
        if head in cat.term_classes:
            pats = pats[1:]
        params = f.positional
        lk = refs.prog.lookup(r.registry)
        single = lk is not None and lk[0] == "func" and any(norm(d).endswith("singledispatch") for d in lk[1].decorators)
        if single:
            params, pats = params[:1], pats[:1]  # functools.singledispatch types the first parameter only
        elif len(params) == len(pats) + 1:
            params = params[1:]
        for p, pe in zip(params, pats):
            if p != pname:
                continue
            elts = pe.elts if isinstance(pe, ast.Tuple) else [pe]
            for e in elts:
                ref = cat.op_class_ref(refs.resolve(e) if isinstance(e, (ast.Name, ast.Attribute)) else None)
                if ref:
                    out.append(ref)
    # @methodof(SomeOpClass) def inv(self): ...
    for d in f.decorators:
        if isinstance(d, ast.Call) and norm(d.func).endswith("methodof") and d.args and f.positional and f.positional[0] == pname:
            r0 = refs.resolve(d.args[0])
            lk = refs.prog.lookup(r0) if r0 else None
            if lk and lk[0] == "value" and isinstance(lk[2], ast.Call) and norm(lk[2].func) == "type" and lk[2].args:
                opref = refs.resolve(lk[2].args[0])
                if opref in cat.ops:
                    out.append("op:" + opref)
    return out


def run(prog: Program, col: Collector, tier: str, refs: Optional[Refs] = None, cat: Optional[Catalogue] = None):
    refs = refs or Refs(prog)
    cat = cat or Catalogue(prog, refs)

    # ---------------------------------------------------------------- R06.1
    col.rule("R06.1", "op parameters are read under the names the ops declare", floor=25)
    for mod in prog.modules.values():
        for n in ast.walk(mod.tree):
            key = None
            form = None
            base = None
            if isinstance(n, ast.Subscript) and isinstance(n.value, ast.Attribute) and n.value.attr == "defaults" and isinstance(n.ctx, ast.Load):
                key, form, base = n.slice, "subscript", n.value.value
            elif isinstance(n, ast.Call) and isinstance(n.func, ast.Attribute) and n.func.attr == "get" and isinstance(n.func.value, ast.Attribute) \
                    and n.func.value.attr == "defaults" and n.args:
                key, form, base = n.args[0], "get", n.func.value.value
            if key is None:
                continue
            if mod.name == "funsor.ops.op" and isinstance(base, ast.Name) and base.id == "self" and not isinstance(key, ast.Constant):
                continue
            fnode = mod.enclosing_function(n)
            f = prog.func_of(fnode) if fnode is not None else None
            construct = f"{func_label(prog, mod, n)}::{norm(n)}"
            if not (isinstance(key, ast.Constant) and isinstance(key.value, str)) or f is None or not isinstance(base, ast.Name):
                col.unresolved(construct, "parameter name or op expression is not a literal / simple name", mod.loc(n))
                continue
            k = key.value
            refs_ = _op_types_of_param(cat, refs, f, base.id)
            if not refs_:
                col.unresolved(construct, f"the op type of `{base.id}` cannot be derived from a registration pattern", mod.loc(n))
                continue
            ops_: List[OpInfo] = []
            for r in refs_:
                ops_ += cat.ops_under(r)
            if not ops_:
                col.unresolved(construct, f"no concrete op under {refs_}", mod.loc(n))
                continue
            have = [o for o in ops_ if k in o.params]
            names = sorted({o.var for o in ops_})
            if form == "subscript":
                missing = sorted({o.var for o in ops_ if k not in o.params})
                col.check(not missing, construct, f"`{k}` is declared by every op under the pattern ({', '.join(names[:6])}{'...' if len(names) > 6 else ''})",
                          f"op.defaults[{k!r}] raises KeyError for {missing}: these ops declare {sorted({p for o in ops_ for p in o.params})}", mod.loc(n))
            else:
                declared = sorted({p for o in ops_ for p in o.params})
                col.check(bool(have), construct, f"`{k}` is declared by {len(have)}/{len(ops_)} op(s) under the pattern",
                          f"no op matched by this rule declares a parameter `{k}` (they declare {declared}): .get({k!r}) always returns its default and the parameter the user passed is ignored", mod.loc(n))

    # ---------------------------------------------------------------- R06.2
    col.rule("R06.2", "computed bounded-integer result sizes are sound upper bounds", floor=6)
    _sizes(prog, col, refs, cat)

    # ---------------------------------------------------------------- R06.3
    col.rule("R06.3", "eager rules take the dtype from find_domain(op, operand outputs in order) with their own op", floor=9)
    _find_domain_calls(prog, col, refs, cat)
    _ground_rule_dtypes(prog, col, refs, cat)

    # ---------------------------------------------------------------- R06.4
    col.rule("R06.4", "Tensor declares the trailing shape of its array as event shape", floor=1)
    ti = require_func(prog, "funsor.tensor::Tensor.__init__")
    # the output domain by role: the second argument of the base constructor call (Funsor.__init__(inputs, output, ...))
    sup_calls = [c for c in walk_no_nested(ti.node) if isinstance(c, ast.Call) and isinstance(c.func, ast.Attribute) and c.func.attr == "__init__" and len(c.args) >= 2]
    out_name = sup_calls[0].args[1].id if sup_calls and isinstance(sup_calls[0].args[1], ast.Name) else "output"
    outs = [n for n in walk_no_nested(ti.node) if isinstance(n, ast.Assign) and any(isinstance(t, ast.Name) and t.id == out_name for t in n.targets)]
    ok = False
    why = "no `output = Array[dtype, data.shape[len(inputs):]]` found"
    if outs:
        v = outs[0].value
        if isinstance(v, ast.Subscript) and norm(v.value) == "Array" and isinstance(v.slice, ast.Tuple) and len(v.slice.elts) == 2:
            dt, sh = v.slice.elts
            data_p, inputs_p, dtype_p = ti.positional[1], ti.positional[2], ti.positional[3]
            ok = (isinstance(dt, ast.Name) and dt.id == dtype_p and isinstance(sh, ast.Subscript) and norm(sh.value) == f"{data_p}.shape"
                  and isinstance(sh.slice, ast.Slice) and sh.slice.upper is None and sh.slice.step is None and sh.slice.lower is not None
                  and norm(sh.slice.lower) == f"len({inputs_p})")
            why = f"output is `{norm(v)}`"
            # the inputs counted are the inputs stored
            sup = [c for c in walk_no_nested(ti.node) if isinstance(c, ast.Call) and isinstance(c.func, ast.Attribute) and c.func.attr == "__init__" and c.args]
            stored = sup[0].args[0].id if sup and isinstance(sup[0].args[0], ast.Name) else None
            # the stored inputs may be the parameter itself or a local bound to OrderedDict(<parameter>) that is also what is counted
            counted = norm(sh.slice.lower)[4:-1] if isinstance(sh, ast.Subscript) and isinstance(sh.slice, ast.Slice) and sh.slice.lower is not None and norm(sh.slice.lower).startswith("len(") else None
            ok = ok and stored is not None and (stored == inputs_p or stored == counted)
    col.check(ok, f"{ti.fq}::output", "output = Array[dtype, data.shape[len(inputs):]] with the inputs that are stored",
              f"{why}: the declared event shape is not the array's shape after the batch dimensions of the stored inputs", ti.loc(outs[0]) if outs else ti.loc())

    # ---------------------------------------------------------------- R06.6
    col.rule("R06.6", "a Slice's values lie in its declared output Bint[dtype]: stop is clamped to dtype before construction", floor=1)
    _slice_bound(prog, col, refs)

    # ---------------------------------------------------------------- R06.7 (shared with C01: R01.11)
    from . import algebra
    algebra.r_op_params_used(prog, col, refs, cat, "R06.7")

    # ---------------------------------------------------------------- R06.8
    col.rule("R06.8", "a cast to an integer type keeps the operand's size; a constant size is declared only for types with that many values", floor=1)
    _cast_sizes(prog, col, refs, cat)

    # ---------------------------------------------------------------- R06.9 (shared with C04: R04.4)
    col.rule("R06.9", "a substitution pushed into the operands of a term reaches every operand that mentions a key (no input is left free)", floor=2)
    from . import c04
    c04._quantified_guards(prog, col, refs, cat, c04._subs_collections(prog, refs, cat))

    # ---------------------------------------------------------------- R06.10
    col.rule("R06.10", "the batch / event boundary of a tensor's array is computed from that tensor's own event rank", floor=2)
    _boundary_of_own_tensor(prog, col, refs, cat)

    # a kernel for Lambda adds ONE axis for the bound variable, in front of the body's event dims: its position depends on the body's
    # event rank, so a constant axis (unsqueeze(data, -1), data[..., None]) is only right for scalar bodies
    for r in cat.registrations:
        f = r.target
        if f is None or not r.pattern or isinstance(f.node, ast.Lambda) or refs.resolve(r.pattern[0]) != "funsor.terms.Lambda" or not r.registry.startswith("funsor.interpretations."):
            continue
        if len(f.positional) < 2:
            continue
        body_p = f.positional[1]
        for c in walk_no_nested(f.node):
            if isinstance(c, ast.Call):
                fn = c.func.attr if isinstance(c.func, ast.Attribute) else (c.func.id if isinstance(c.func, ast.Name) else "")
                if fn in ("unsqueeze", "expand_dims") and len(c.args) >= 2:
                    ax = c.args[1]
                    const = isinstance(ax, ast.Constant) or (isinstance(ax, ast.UnaryOp) and isinstance(ax.operand, ast.Constant))
                    if const:
                        col.violation(f"{f.fq}::{norm(c)[:50]}", f"the axis for the bound variable is inserted at the constant position `{norm(ax)}`: it belongs in front of the event dims of "
                                      f"`{body_p}`, whose number varies (a vector-valued body gets the new axis on the wrong side of its event shape)", f.loc(c), rule="R06.10")

    # ---------------------------------------------------------------- R06.11
    col.rule("R06.11", "axis labels for a tensor's array are generated in the order of that tensor's own inputs", floor=2)
    _axis_labels_in_layout_order(prog, col, refs, cat)

    # ---------------------------------------------------------------- R06.12
    col.rule("R06.12", "a slice's length is computed as len(range(start, stop, step)) wherever a shape or size is derived from it", floor=3)
    _slice_lengths(prog, col, refs, cat)

    # ---------------------------------------------------------------- R06.13 (shared with C04: R04.5)
    col.rule("R06.13", "the Number and the Tensor branch of an eager_subs compute the same data and declare the same dtype", floor=2)
    c04._ground_index_siblings(prog, col, refs, cat)

    # ---------------------------------------------------------------- R06.14
    col.rule("R06.14", "a term's declared inputs draw on the inputs of every funsor-valued constructor argument", floor=30)
    _inputs_cover_arguments(prog, col, refs, cat)

    # ---------------------------------------------------------------- R06.5
    col.rule("R06.5", "dimension parameters are normalised modulo the rank in every branch before use as indices", floor=2)
    _axis_normalisation(prog, col, refs, cat)
    from . import algebra as _algebra
    _algebra.r_split_reduced_vars_accounted(prog, col, refs, cat, "R06.15")
    from . import shapes
    shapes.r_two_operand_shapes_broadcast(prog, col, refs, cat, "R06.16")
    shapes.r_ellipsis_fill(prog, col, refs, cat, "R06.17")
    shapes.r_shape_only_ops_keep_dtype(prog, col, refs, cat, "R06.19")
    col.rule("R06.20", "a unary op whose array implementation changes the shape or the dtype is not typed by the generic (same shape, same dtype) rule", floor=30)
    _typing_rules_exhaustive(prog, col, refs, cat)
    col.rule("R06.21", "a binary op that the generic rule types Bint[n] x Bint[n] -> Bint[n] is closed on [0, n)", floor=4)
    _generic_binary_closed(prog, col, refs, cat)
    col.rule("R06.18", "a variable bound in one rebuilt element of a tuple of terms is tested against the elements that are copied (else it stays an undeclared input)", floor=1)
    from . import c05 as _c05
    _c05._binder_in_one_element(prog, col, refs, cat)
    return col


# ---------------------------------------------------------------------- R06.2


class _Sym:
    """Tiny expression language over L (lhs size) and R (rhs size): the analyser's own representation of a size formula."""

    def __init__(self, kind, *args):
        self.kind, self.args = kind, args

    def eval(self, L, R, opfn):
        k, a = self.kind, self.args
        if k == "L":
            return L
        if k == "R":
            return R
        if k == "const":
            return a[0]
        if k == "bin":
            x, y = a[1].eval(L, R, opfn), a[2].eval(L, R, opfn)
            return {"+": lambda: x + y, "-": lambda: x - y, "*": lambda: x * y, "//": lambda: x // y, "%": lambda: x % y, "**": lambda: x ** y}[a[0]]()
        if k == "max":
            return max(x.eval(L, R, opfn) for x in a)
        if k == "min":
            return min(x.eval(L, R, opfn) for x in a)
        if k == "op":
            return opfn(a[0].eval(L, R, opfn), a[1].eval(L, R, opfn))
        raise ValueError(k)

    def __repr__(self):
        k, a = self.kind, self.args
        if k in ("L", "R"):
            return k
        if k == "const":
            return repr(a[0])
        if k == "bin":
            return f"({a[1]!r} {a[0]} {a[2]!r})"
        return f"{k}({', '.join(map(repr, a))})"


_BINOPS = {ast.Add: "+", ast.Sub: "-", ast.Mult: "*", ast.FloorDiv: "//", ast.Mod: "%", ast.Pow: "**"}


def _to_sym(e: ast.AST, lhs: str, rhs: str, opname: Optional[str], env: Dict[str, ast.AST], depth=0) -> Optional[_Sym]:
    if depth > 8:
        return None
    if isinstance(e, ast.Constant) and isinstance(e.value, int) and not isinstance(e.value, bool):
        return _Sym("const", e.value)
    if isinstance(e, ast.Attribute) and e.attr in ("size", "dtype") and isinstance(e.value, ast.Name):
        if e.value.id == lhs:
            return _Sym("L")
        if e.value.id == rhs:
            return _Sym("R")
        return None
    if isinstance(e, ast.Name) and e.id in env:
        return _to_sym(env[e.id], lhs, rhs, opname, env, depth + 1)
    if isinstance(e, ast.BinOp) and type(e.op) in _BINOPS:
        a, b = _to_sym(e.left, lhs, rhs, opname, env, depth + 1), _to_sym(e.right, lhs, rhs, opname, env, depth + 1)
        return _Sym("bin", _BINOPS[type(e.op)], a, b) if a and b else None
    if isinstance(e, ast.Call) and isinstance(e.func, ast.Name):
        args = [_to_sym(a, lhs, rhs, opname, env, depth + 1) for a in e.args]
        if any(a is None for a in args):
            return None
        if e.func.id in ("max", "min") and e.func.id != opname:
            return _Sym(e.func.id, *args)
        if e.func.id == opname and len(args) == 2:
            return _Sym("op", *args)
    return None


_ABS_FN = {
    "ADD": lambda a, b: a + b, "MUL": lambda a, b: a * b, "MAX": max, "MIN": min, "POW": lambda a, b: a ** b,
    "FLOORDIV": lambda a, b: a // b, "MOD": lambda a, b: a % b, "SUB": lambda a, b: a - b,
}
_NEEDS_NONZERO_RHS = {"FLOORDIV", "MOD"}


def _true_size(ab: str, L: int, R: int) -> Optional[int]:
    fn = _ABS_FN[ab]
    vals = [fn(a, b) for a in range(L) for b in range(R) if not (ab in _NEEDS_NONZERO_RHS and b == 0)]
    if not vals:
        return None
    return max(vals) + 1


def _sizes(prog: Program, col: Collector, refs: Refs, cat: Catalogue):
    n_pairs = 0
    for r in cat.registrations_for("funsor.domains.find_domain"):
        f = r.target
        if f is None or isinstance(f.node, ast.Lambda) or not r.pattern:
            continue
        ref = cat.op_class_ref(refs.resolve(r.pattern[0]) if isinstance(r.pattern[0], (ast.Name, ast.Attribute)) else None)
        if ref is None:
            continue
        params = f.positional
        opname = params[0]
        # operand names: explicit (op, lhs, rhs) or `lhs, rhs = domains`
        lhs = rhs = None
        if len(params) == 3:
            lhs, rhs = params[1], params[2]
        else:
            for n in walk_no_nested(f.node):
                if isinstance(n, ast.Assign) and isinstance(n.targets[0], ast.Tuple) and len(n.targets[0].elts) == 2 and isinstance(n.value, ast.Name) \
                        and f.node.args.vararg is not None and n.value.id == f.node.args.vararg.arg:
                    lhs, rhs = n.targets[0].elts[0].id, n.targets[0].elts[1].id
        if lhs is None:
            continue
        # locals bound exactly once (plain or same-length tuple assignment): looked through when extracting a formula
        env: Dict[str, ast.AST] = {}
        defs: Dict[str, List[Tuple[ast.AST, ast.AST]]] = {}
        for n in walk_no_nested(f.node):
            if isinstance(n, ast.Assign) and len(n.targets) == 1:
                t, v = n.targets[0], n.value
                if isinstance(t, ast.Name):
                    defs.setdefault(t.id, []).append((n, v))
                elif isinstance(t, ast.Tuple) and isinstance(v, ast.Tuple) and len(t.elts) == len(v.elts):
                    for te, ve in zip(t.elts, v.elts):
                        if isinstance(te, ast.Name):
                            defs.setdefault(te.id, []).append((n, ve))
        for k, ds in defs.items():
            if len(ds) == 1 and k not in (lhs, rhs, opname):
                env[k] = ds[0][1]
        specific = ref.startswith("op:")
        candidates: List[Tuple[ast.AST, ast.AST, Optional[Set[str]]]] = []  # (stmt, expr, op-guard)
        seen_c = set()
        # what flows into the dtype position of a returned Array[<dtype>, <shape>]
        for r_ in [n for n in walk_no_nested(f.node) if isinstance(n, ast.Return) and isinstance(n.value, ast.Subscript)]:
            sub = r_.value
            if not (isinstance(sub.value, ast.Name) and sub.value.id == "Array" and isinstance(sub.slice, ast.Tuple) and len(sub.slice.elts) == 2):
                continue
            e0 = sub.slice.elts[0]
            srcs: List[Tuple[ast.AST, ast.AST]] = []
            if isinstance(e0, ast.Name) and e0.id in defs:
                srcs = list(defs[e0.id])
            else:
                srcs = [(r_, e0)]
            for st_, v in srcs:
                if id(st_) in seen_c:
                    continue
                vv = v
                hops = 0
                while isinstance(vv, ast.Name) and vv.id in env and hops < 6:
                    vv = env[vv.id]
                    hops += 1
                if isinstance(vv, ast.Constant):
                    continue  # "real" / the documented constant 2 of boolean results: no computed bound
                expanded = [vv] + [env[x.id] for x in ast.walk(vv) if isinstance(x, ast.Name) and x.id in env]
                mentions = {x.value.id for e_ in expanded for x in ast.walk(e_) if isinstance(x, ast.Attribute) and x.attr in ("size", "dtype") and isinstance(x.value, ast.Name)}
                arith = any(isinstance(x, (ast.BinOp, ast.Call)) for e_ in expanded for x in ast.walk(e_))
                if mentions and mentions <= {lhs, rhs} and (arith or specific):
                    seen_c.add(id(st_))
                    candidates.append((st_, v, _op_guard(f, st_, opname, refs, cat)))
        for st, expr, guard in candidates:
            sym = _to_sym(expr, lhs, rhs, opname, env)
            if sym is None:
                col.unresolved(f"{f.fq}::{norm(st)}", "size expression not in the arithmetic fragment the analyser can extract", f.loc(st))
                continue
            uses_op = "op(" in repr(sym)
            concrete = cat.ops_under(ref)
            if guard is not None:
                in_guard = [o for o in cat.ops.values() if o.fq in guard]
                reachable = [o for o in in_guard if o in concrete]
                for o in in_guard:
                    if o not in concrete:
                        col.note(f"{f.fq}::{o.var}", f"`{o.var}` is listed in the guard but is not an instance of the registered class: that arm is unreachable", f.loc(st))
                concrete = reachable
            elif uses_op:
                col.unresolved(f"{f.fq}::{norm(st)}", "formula applies `op` but the set of ops reaching it is not delimited by a guard", f.loc(st))
                continue
            for o in sorted(concrete, key=lambda x: x.var):
                ab = axioms.identify(cat, o)
                if ab not in _ABS_FN and sym.kind in ("L", "R"):
                    col.note(f"{f.fq}::{o.var}", f"dtype of one operand passed through by `{o.var}` (no computed bound; outside R06.2)", f.loc(st))
                    continue
                if ab not in _ABS_FN:
                    col.unresolved(f"{f.fq}::{o.var}", f"no integer semantics for {ab}", f.loc(st))
                    continue
                n_pairs += 1
                bad = None
                for L, R in itertools.product(range(1, 9), repeat=2):
                    true = _true_size(ab, L, R)
                    if true is None:
                        continue
                    try:
                        claimed = sym.eval(L, R, _ABS_FN[ab])
                    except ZeroDivisionError:
                        continue  # the rule raises instead of typing: declining is allowed
                    if claimed < true:
                        bad = (L, R, claimed, true)
                        break
                construct = f"{f.fq}::{o.var} int-int size"
                if bad:
                    L, R, claimed, true = bad
                    wit = max(((a, b) for a in range(L) for b in range(R) if not (ab in _NEEDS_NONZERO_RHS and b == 0)), key=lambda t: _ABS_FN[ab](*t))
                    col.violation(construct, f"size formula {sym!r} gives Bint[{claimed}] for Bint[{L}] {o.var} Bint[{R}] but {wit[0]} {o.var} {wit[1]} = {_ABS_FN[ab](*wit)} "
                                  f"needs Bint[{true}]: the declared bounded-integer output does not contain the value", f.loc(st))
                else:
                    col.ok(construct, f"{sym!r} >= sup of {ab} on [0,L-1]x[0,R-1] for all L,R in 1..8", f.loc(st))
    col.cur.analysed["op_rule_pairs"] = n_pairs


def _op_guard(f: Func, st: ast.AST, opname: str, refs: Refs, cat: Catalogue) -> Optional[Set[str]]:
    """ops named in an enclosing `if/elif op in (ops.a, ops.b, ...)` test."""
    for anc in f.module.ancestors(st):
        if anc is f.node:
            break
        if isinstance(anc, ast.If) and any(st is x or any(st is y for y in ast.walk(x)) for x in anc.body):
            t = anc.test
            if isinstance(t, ast.Compare) and isinstance(t.left, ast.Name) and t.left.id == opname and len(t.ops) == 1 and isinstance(t.ops[0], ast.In) \
                    and isinstance(t.comparators[0], (ast.Tuple, ast.List, ast.Set)):
                out = set()
                for e in t.comparators[0].elts:
                    r = refs.resolve(e)
                    if r in cat.ops:
                        out.add(r)
                return out
            if isinstance(t, ast.Compare) and isinstance(t.left, ast.Name) and t.left.id == opname and len(t.ops) == 1 and isinstance(t.ops[0], ast.Is):
                r = refs.resolve(t.comparators[0])
                if r in cat.ops:
                    return {r}
    return None


# ---------------------------------------------------------------------- R06.3


def _find_domain_calls(prog: Program, col: Collector, refs: Refs, cat: Catalogue):
    for mod, call in refs.calls_to("funsor.domains.find_domain"):
        fnode = mod.enclosing_function(call)
        f = prog.func_of(fnode) if fnode is not None else None
        if f is None or not call.args:
            continue
        construct = f"{f.fq}::{norm(call)}"
        # only calls that pass `.output` of operands (term-level typing), not domain-level helpers
        outs = [a for a in call.args[1:] if isinstance(a, ast.Attribute) and a.attr == "output" and isinstance(a.value, ast.Name)]
        if len(outs) != len(call.args) - 1 or not outs:
            col.note(construct, "domain-level call (operands are not `<param>.output`)", mod.loc(call))
            continue
        scope = f
        params = scope.positional
        if isinstance(f.node, ast.Lambda):
            col.note(construct, "lambda", mod.loc(call))
            continue
        op_arg = call.args[0]
        # the op passed must be the rule's own op parameter (or self.op), not a constant op
        op_ok = isinstance(op_arg, ast.Name) and op_arg.id in params
        if not op_ok:
            r = refs.resolve(op_arg) if isinstance(op_arg, (ast.Name, ast.Attribute)) else None
            if r in cat.ops:
                col.violation(construct, f"the dtype is computed for the fixed op `{norm(op_arg)}`, not for the op this rule was invoked with: eager and lazy types disagree for other ops", mod.loc(call))
            else:
                col.unresolved(construct, f"op argument `{norm(op_arg)}` is not a parameter", mod.loc(call))
            continue
        names = [a.value.id for a in outs]
        if not all(n in params for n in names):
            col.unresolved(construct, "operands are not parameters", mod.loc(call))
            continue
        order = [params.index(n) for n in names]
        in_order = order == sorted(order) and len(set(order)) == len(order)
        # all funsor operands of the rule take part (a binary rule must pass both)
        term_params = [p for p in params if p != op_arg.id and p not in ("self", "cls")]
        covers = True
        if f.cls is None and len(term_params) in (1, 2, 3):
            covers = len(names) == len([p for p in term_params if not p.startswith("reduced")])
        col.check(in_order and covers, construct, "same call shape as the lazy constructor: own op, operand outputs in parameter order",
                  f"find_domain is called with operands {names} but the rule's operands are {term_params} in that order: the eager result is typed differently from the lazy term "
                  "(non-commutative typing rules: floordiv, getitem, matmul, pow, shifts)", mod.loc(call))


def _slice_bound(prog: Program, col: Collector, refs: Refs):
    """Slice(name, start, stop, step, dtype) denotes i -> start + step*i for i < ceil((stop-start)/step) and declares the output
    Bint[dtype]; its largest value is < stop, so `stop <= dtype` is what keeps the values inside the declared range.  The
    metaclass (or the constructor) must establish it on every path: `stop = min(dtype, ...)` or an assertion."""
    from ..cfg import CFG
    from .algebra import _reaching
    sm = prog.funcs.get("funsor.terms::SliceMeta.__call__")
    si = prog.funcs.get("funsor.terms::Slice.__init__")
    if sm is None or si is None:
        col.unresolved("funsor.terms::SliceMeta.__call__", "Slice metaclass / constructor not found", "funsor/terms.py")
        return
    # an assertion in the constructor also does
    fields = si.positional[1:]
    if len(fields) == 5:
        stop_p, dtype_p = fields[2], fields[4]
        for a in [n for n in walk_no_nested(si.node) if isinstance(n, ast.Assert)]:
            for c in ast.walk(a.test):
                if isinstance(c, ast.Compare) and len(c.ops) == 1 and ((isinstance(c.ops[0], ast.LtE) and norm(c.left) == stop_p and norm(c.comparators[0]) == dtype_p)
                                                                    or (isinstance(c.ops[0], ast.GtE) and norm(c.left) == dtype_p and norm(c.comparators[0]) == stop_p)):
                    col.ok(f"{si.fq}::assert {stop_p} <= {dtype_p}", "the constructor asserts stop <= dtype", si.loc(a))
                    return
    calls = [n for n in walk_no_nested(sm.node) if isinstance(n, ast.Call) and isinstance(n.func, ast.Attribute) and n.func.attr == "__call__" and len(n.args) == 5]
    if not calls:
        col.unresolved(f"{sm.fq}::construction", "no super().__call__(name, start, stop, step, dtype) found", sm.loc())
        return
    cfg = CFG(sm.node)
    for c in calls:
        stop_a, dtype_a = c.args[2], c.args[4]
        st = c
        while not isinstance(st, ast.stmt):
            st = sm.module.parent.get(st)
        construct = f"{sm.fq}::{norm(c)}"
        if not (isinstance(stop_a, ast.Name) and isinstance(dtype_a, ast.Name)):
            col.unresolved(construct, "stop / dtype are not plain locals", sm.loc(c))
            continue
        defs = [n for n in walk_no_nested(sm.node) if isinstance(n, ast.Assign) and any(stop_a.id in [x.id for x in ast.walk(t) if isinstance(x, ast.Name)] for t in n.targets)]
        reach = _reaching(cfg, defs, st)
        bad = []
        for d in reach:
            v = d.value
            clamped = isinstance(v, ast.Call) and isinstance(v.func, ast.Name) and v.func.id == "min" and any(isinstance(a, ast.Name) and a.id == dtype_a.id for a in v.args)
            if not clamped:
                bad.append(d)
        col.check(not bad and bool(reach), construct, f"every definition of `{stop_a.id}` that reaches the construction is min({dtype_a.id}, ...)",
                  f"`{stop_a.id}` reaches the construction as `{norm(bad[0].value) if bad else '?'}`, not clamped to `{dtype_a.id}`: Slice(name, 5, 20, 1, 10) declares output Bint[10] "
                  "but takes the values 5..19", sm.loc(bad[0]) if bad else sm.loc(c))


# numpy calls whose result has another shape than their (first) array argument / another dtype kind.  Frozen table: the rule knows these and
# nothing else; an implementation that calls none of them and none of SHAPE_KEEPING is reported as unresolved, never as a violation.
SHAPE_CHANGING = {"np.expand_dims", "np.transpose", "np.swapaxes", "np.broadcast_to", "np.diagonal", "np.argmax", "np.argmin", "np.arange", "np.zeros", "np.full", "np.eye",
                  "np.random.randn", "np.squeeze", "np.moveaxis"}
DTYPE_CHANGING = {"np.isnan", "np.isfinite", "np.isinf", "np.argmax", "np.argmin", "np.arange"}
SHAPE_KEEPING = {"np.flip", "np.clip", "np.reciprocal", "np.sqrt", "np.full_like", "np.linalg.cholesky", "np.linalg.inv", "np.finfo", "np.exp", "np.log", "np.abs", "np.sign"}


def _generic_binary_closed(prog: Program, col: Collector, refs: Refs, cat: Catalogue):
    """The find_domain rule for BinaryOp returns Array[lhs.dtype, ...] for operands of one dtype.  For bounded integers that claims the op
    maps [0, n) x [0, n) into [0, n).  For ops whose default implementation is a Python operator the claim is a finite question per n; it
    is evaluated here for n = 1..4 with the operator's own semantics (the analyser's table of Python operators, nothing of funsor runs)."""
    import itertools
    import operator
    PY = {"operator.sub": operator.sub, "operator.pow": operator.pow, "operator.truediv": operator.truediv, "operator.lshift": operator.lshift, "operator.rshift": operator.rshift,
          "operator.add": operator.add, "operator.mul": operator.mul, "operator.floordiv": operator.floordiv, "operator.mod": operator.mod}
    fd = [r for r in cat.registrations if r.registry == "funsor.domains.find_domain"]
    covered = set()
    generic = None
    for r in fd:
        ref = cat.op_class_ref(refs.resolve(r.pattern[0])) if r.pattern and isinstance(r.pattern[0], (ast.Name, ast.Attribute)) else None
        if ref:
            covered.add(ref)
            if ref == "abs:funsor.ops.op.BinaryOp":
                generic = r
    if generic is None or generic.target is None:
        col.unresolved("funsor.domains::find_domain", "no rule registered for BinaryOp", "funsor/domains.py")
        return
    # the generic rule: same dtype on both sides -> that dtype (read off its return: Array[<lhs>.dtype, ...])
    g = generic.target
    lhs_p = g.positional[1] if len(g.positional) >= 3 else None
    same_dtype = any(isinstance(r_, ast.Return) and r_.value is not None and norm(r_.value).replace(" ", "").startswith(f"Array[{lhs_p}.dtype,") for r_ in ast.walk(g.node))
    if not same_dtype:
        col.unresolved(f"{g.fq}", "the rule for BinaryOp no longer returns Array[lhs.dtype, ...]; the clause does not apply as written", g.loc())
        return
    for fq, o in sorted(cat.ops.items()):
        anc = cat.op_ancestors(fq)
        if "funsor.ops.op.BinaryOp" not in anc:
            continue
        chain = ["op:" + fq] + [("op:" + a) if a in cat.ops else ("abs:" + a) for a in anc]
        if next((x for x in chain if x in covered), None) != "abs:funsor.ops.op.BinaryOp":
            continue
        construct = f"funsor.domains::find_domain::{o.var} on bounded integers"
        loc = o.module.loc(o.node)
        sem = PY.get(o.impl_ext or "")
        if sem is None:
            col.note(construct, "implementation is not a Python operator; bounded-integer closure not evaluated", loc)
            continue
        witness = None
        for n in range(1, 5):
            for a, b in itertools.product(range(n), repeat=2):
                try:
                    v = sem(a, b)
                except ZeroDivisionError:
                    continue
                if not (float(v).is_integer() and 0 <= v < n):
                    witness = witness or (n, a, b, v)
        if witness is None:
            col.ok(construct, "closed on [0, n) for n = 1..4", loc)
        else:
            n, a, b, v = witness
            col.violation(construct, f"`ops.{o.name}` has no typing rule of its own, so Bint[{n}] {o.name} Bint[{n}] is declared Bint[{n}] by the generic binary rule, but "
                          f"{a} {o.name} {b} = {v} lies outside [0, {n}): the declared bounded-integer output does not contain the values the op returns", loc)


def _typing_rules_exhaustive(prog: Program, col: Collector, refs: Refs, cat: Catalogue):
    """find_domain dispatches on the op's class; an op without a rule of its own (or of an intermediate class) is typed by the rule for
    UnaryOp, which declares the operand's shape and dtype.  That is right for elementwise maps only."""
    fd = [r for r in cat.registrations if r.registry == "funsor.domains.find_domain"]
    covered = set()
    generic = None
    for r in fd:
        ref = cat.op_class_ref(refs.resolve(r.pattern[0])) if r.pattern and isinstance(r.pattern[0], (ast.Name, ast.Attribute)) else None
        if ref:
            covered.add(ref)
            if ref == "abs:funsor.ops.op.UnaryOp":
                generic = r
    if generic is None or generic.target is None:
        col.unresolved("funsor.domains::find_domain", "no rule registered for UnaryOp", "funsor/domains.py")
        return
    # the generic rule is shape- and dtype-preserving: it returns Array[<operand dtype>, <operand shape>]
    gsrc = " ".join(norm(r_.value) for r_ in ast.walk(generic.target.node) if isinstance(r_, ast.Return) and r_.value is not None)
    if ".shape" not in gsrc or "dtype" not in gsrc:
        col.unresolved(f"{generic.target.fq}", "the rule for UnaryOp is not of the form Array[domain.dtype, domain.shape]", generic.loc)
        return
    for fq, o in sorted(cat.ops.items()):
        anc = cat.op_ancestors(fq)
        if "funsor.ops.op.UnaryOp" not in anc:
            continue
        chain = ["op:" + fq] + [("op:" + a) if a in cat.ops else ("abs:" + a) for a in anc]
        nearest = next((x for x in chain if x in covered), None)
        if nearest != "abs:funsor.ops.op.UnaryOp":
            continue
        impls = [o.impl] if o.impl is not None else []
        impls += [r.target.node for r in cat.registrations if r.target is not None and (r.registry == fq or r.registry_text.split(".")[0] == o.var) and r.module.name == o.module.name]
        calls = {norm(c.func) for im in impls for c in ast.walk(im) if isinstance(c, ast.Call)}
        # implementations registered as plain library functions: `transpose.register(array)(np.swapaxes)`
        calls |= {norm(r.target_expr) for r in cat.registrations if r.target is None and r.target_expr is not None and r.registry == fq and r.module.name == o.module.name
                  and isinstance(r.target_expr, (ast.Attribute, ast.Name))}
        # array methods called on the operand itself: x.reshape(...), x.astype(...)
        meth = {r_.value.func.attr for im in impls if isinstance(im, ast.FunctionDef) and im.args.args for r_ in ast.walk(im)
                if isinstance(r_, ast.Return) and isinstance(r_.value, ast.Call) and isinstance(r_.value.func, ast.Attribute) and isinstance(r_.value.func.value, ast.Name)
                and r_.value.func.value.id == im.args.args[0].arg}  # `return x.reshape(shape)`: the method's result IS the op's result
        calls |= {"np." + m for m in meth & {"reshape", "transpose", "swapaxes", "squeeze", "diagonal", "argmax", "argmin", "flatten", "ravel"}}
        construct = f"funsor.domains::find_domain::{o.var}"
        loc = o.module.loc(o.node)
        sc, dc = sorted(calls & (SHAPE_CHANGING | {"np.reshape", "np.flatten", "np.ravel"})), sorted(calls & DTYPE_CHANGING)
        if sc or dc:
            what = " and ".join(x for x in ((f"another shape ({', '.join(sc)})" if sc else ""), (f"another dtype ({', '.join(dc)})" if dc else "")) if x)
            col.violation(construct, f"`ops.{o.name}` (class {o.class_name}) has no find_domain rule of its own and none for an intermediate class, so the generic UnaryOp rule declares the "
                          f"operand's own shape and dtype for it; its array implementation returns {what}: the statically computed domain differs from what the op returns on arrays", loc)
        elif o.impl_ext is not None or not [c_ for c_ in calls if c_.startswith("np.")] or {c_ for c_ in calls if c_.startswith("np.")} <= SHAPE_KEEPING:
            col.ok(construct, f"elementwise ({o.impl_ext or ', '.join(sorted(calls))[:60] or 'no array call'}): the generic rule applies", loc)
        else:
            col.unresolved(construct, f"implementation calls {sorted(c_ for c_ in calls if c_.startswith('np.'))}: not in the tables of shape-keeping / shape-changing calls", loc)


def _ground_rule_dtypes(prog: Program, col: Collector, refs: Refs, cat: Catalogue):
    """Eager rules registered for (Unary|Binary, <abstract op class>, Tensor|Number ...): the result type depends on the op,
    so the dtype of every Tensor/Number they build must flow from find_domain(<own op>, ...)."""
    GROUND = {"funsor.tensor.Tensor", "funsor.terms.Number"}
    seen = set()
    for r in cat.registrations:
        if r.registry not in ("funsor.interpretations.eager", "funsor.interpretations.eager_base") or r.target is None or len(r.pattern) < 3:
            continue
        head = refs.resolve(r.pattern[0]) if isinstance(r.pattern[0], (ast.Name, ast.Attribute)) else None
        if head not in ("funsor.terms.Unary", "funsor.terms.Binary"):
            continue
        opref = cat.op_class_ref(refs.resolve(r.pattern[1]) if isinstance(r.pattern[1], (ast.Name, ast.Attribute)) else None)
        if opref is None or not opref.startswith("abs:"):
            continue
        operands = [refs.resolve(p) if isinstance(p, (ast.Name, ast.Attribute)) else None for p in r.pattern[2:]]
        if not all(o in GROUND for o in operands):
            continue
        f = r.target
        if f.fq in seen or isinstance(f.node, ast.Lambda):
            continue
        seen.add(f.fq)
        _ground_rule_dtypes_one(prog, col, refs, f, f.positional[0] if f.positional else None, GROUND)
    # the eager_unary methods of the ground terms themselves (Number.eager_unary(self, op), Tensor.eager_unary(self, op)): same obligation
    for fq in ("funsor.terms::Number.eager_unary", "funsor.tensor::Tensor.eager_unary"):
        f = prog.funcs.get(fq)
        if f is not None and len(f.positional) >= 2 and f.fq not in seen:
            seen.add(f.fq)
            _ground_rule_dtypes_one(prog, col, refs, f, f.positional[1], GROUND)


def _ground_rule_dtypes_one(prog: Program, col: Collector, refs: Refs, f, opname, GROUND):
    if True:
        defs: Dict[str, List[ast.AST]] = {}
        for n in walk_no_nested(f.node):
            if isinstance(n, ast.Assign) and len(n.targets) == 1 and isinstance(n.targets[0], ast.Name):
                defs.setdefault(n.targets[0].id, []).append(n.value)

        def from_find_domain(e, depth=0) -> bool:
            if depth > 4:
                return False
            for x in ast.walk(e):
                if isinstance(x, ast.Call) and refs.resolve(x.func) == "funsor.domains.find_domain" and x.args \
                        and isinstance(x.args[0], ast.Name) and x.args[0].id == opname:
                    return True
            names = [x.id for x in ast.walk(e) if isinstance(x, ast.Name) and x.id in defs]
            return bool(names) and all(all(from_find_domain(d, depth + 1) for d in defs[n]) for n in names)

        built = 0
        for ret in [n for n in walk_no_nested(f.node) if isinstance(n, ast.Return) and n.value is not None]:
            for c in [x for x in ast.walk(ret.value) if isinstance(x, ast.Call)]:
                callee = refs.resolve(c.func) if isinstance(c.func, (ast.Name, ast.Attribute)) else None
                if callee not in GROUND:
                    continue
                pos = 2 if callee.endswith("Tensor") else 1
                dt = c.args[pos] if len(c.args) > pos else next((k.value for k in c.keywords if k.arg == "dtype"), None)
                built += 1
                construct = f"{f.fq}::{norm(c)[:80]}"
                if dt is None:
                    col.violation(construct, "the result is built with the default dtype although the rule is registered for a whole class of ops: "
                                  "its type does not follow find_domain(op, ...)", f.loc(c))
                else:
                    col.check(from_find_domain(dt), construct, "the dtype of the result flows from find_domain(<own op>, ...)",
                              f"the dtype of the result is `{norm(dt)}`, which does not come from find_domain({opname}, ...): for ops whose result type differs from the operand's "
                              "(comparisons, reductions to Bint[2], bounded-integer arithmetic) the eager value is typed differently from the lazy term", f.loc(c))
        if not built:
            col.note(f"{f.fq}::no ground result", "rule builds no Tensor/Number directly", f.loc())


# ---------------------------------------------------------------------- R06.5


def _axis_normalisation(prog: Program, col: Collector, refs: Refs, cat: Catalogue):
    """In functions that read an `axis`/`dim` op parameter and then test `i in dims` for dimension indices i, every value placed
    in `dims` must be either produced by range(...) or reduced modulo the rank."""
    for f in prog.funcs.values():
        if isinstance(f.node, ast.Lambda):
            continue
        reads = [n for n in walk_no_nested(f.node) if isinstance(n, ast.Assign) and len(n.targets) == 1 and isinstance(n.targets[0], ast.Name)
                 and any((isinstance(x, ast.Attribute) and x.attr == "defaults") for x in ast.walk(n.value))
                 and any(isinstance(x, ast.Constant) and x.value in ("axis", "dim", "dims") for x in ast.walk(n.value))]
        if not reads:
            continue
        raw = reads[0].targets[0].id
        # membership sinks: `<i> in <S>` where i iterates a range
        sinks = []
        for n in walk_no_nested(f.node):
            if isinstance(n, ast.Compare) and len(n.ops) == 1 and isinstance(n.ops[0], (ast.In, ast.NotIn)) and isinstance(n.comparators[0], ast.Name) \
                    and isinstance(n.left, ast.Name):
                sinks.append(n.comparators[0].id)
        for sname in sorted(set(sinks)):
            defs = [n for n in walk_no_nested(f.node) if isinstance(n, ast.Assign) and any(isinstance(t, ast.Name) and t.id == sname for t in n.targets)]
            if not defs:
                continue
            depends = [d for d in defs if any(isinstance(x, ast.Name) and x.id == raw for x in ast.walk(d.value))]
            if not depends:
                continue
            for d in defs:
                v = d.value
                construct = f"{f.fq}::{norm(d)}"
                uses_raw = [x for x in ast.walk(v) if isinstance(x, ast.Name) and x.id == raw]
                if not uses_raw:
                    col.ok(construct, "index set built from range(...) of the rank", f.loc(d), nontrivial=False)
                    continue
                # every occurrence of the raw value (or of an element iterated from it) must sit under `% <rank>`
                ok = True
                elems = {raw}
                for g in [x for x in ast.walk(v) if isinstance(x, ast.comprehension)]:
                    if isinstance(g.iter, ast.Name) and g.iter.id == raw and isinstance(g.target, ast.Name):
                        elems.add(g.target.id)
                for x in ast.walk(v):
                    if isinstance(x, ast.Name) and x.id in elems and isinstance(x.ctx, ast.Load):
                        p = f.module.parent.get(x)
                        if isinstance(p, ast.comprehension) and p.iter is x:
                            continue
                        if not (isinstance(p, ast.BinOp) and isinstance(p.op, ast.Mod) and p.left is x):
                            ok = False
                col.check(ok, construct, f"`{raw}` is reduced modulo the rank before it is compared with dimension indices",
                          f"`{raw}` (as passed by the user, possibly negative) flows into `{sname}` without `% rank` in this branch: negative axes never match a dimension index, "
                          "so the declared shape differs from the shape the op returns", f.loc(d))


# ---------------------------------------------------------------------- R06.8
# number of distinct values of the integer-like numpy / torch dtypes by name (external fact about the array libraries)
DTYPE_CARDINALITY = {"bool": 2, "bool_": 2, "uint8": 2 ** 8, "int8": 2 ** 8, "int16": 2 ** 16, "uint16": 2 ** 16, "int32": 2 ** 32, "uint32": 2 ** 32,
                     "int64": 2 ** 64, "uint64": 2 ** 64, "int": 2 ** 64, "long": 2 ** 64, "short": 2 ** 16, "byte": 2 ** 8}


def _cast_sizes(prog: Program, col: Collector, refs: Refs, cat: Catalogue):
    n = 0
    for r in cat.registrations:
        if r.registry != "funsor.domains.find_domain" or r.target is None or not r.pattern:
            continue
        ref = cat.op_class_ref(refs.resolve(r.pattern[0]) if isinstance(r.pattern[0], (ast.Name, ast.Attribute)) else None)
        if ref is None:
            continue
        ops_ = cat.ops_under(ref)
        if not ops_ or not all("dtype" in (o.params or ()) for o in ops_):
            continue
        f = r.target
        for node in walk_no_nested(f.node):
            if not isinstance(node, ast.If):
                continue
            t = node.test
            names = None
            if isinstance(t, ast.Compare) and len(t.ops) == 1 and "dtype" in norm(t.left):
                c = t.comparators[0]
                if isinstance(t.ops[0], ast.In) and isinstance(c, (ast.Tuple, ast.List, ast.Set)) and all(isinstance(e, ast.Constant) and isinstance(e.value, str) for e in c.elts):
                    names = [e.value for e in c.elts]
                elif isinstance(t.ops[0], ast.In) and isinstance(c, ast.Constant) and isinstance(c.value, str):
                    names = [c.value]  # `x in ("bool")` is a substring test on one string; the whole string is the intended member
                elif isinstance(t.ops[0], ast.Eq) and isinstance(c, ast.Constant) and isinstance(c.value, str):
                    names = [c.value]
            if names is None:
                continue
            consts = [st for st in node.body if isinstance(st, ast.Assign) and isinstance(st.value, ast.Constant) and isinstance(st.value.value, int)
                      and not isinstance(st.value.value, bool)]
            rets = [x for st in node.body for x in ast.walk(st) if isinstance(x, ast.Subscript) and isinstance(x.slice, ast.Tuple) and x.slice.elts
                    and isinstance(x.slice.elts[0], ast.Constant) and isinstance(x.slice.elts[0].value, int)]
            sizes = [st.value.value for st in consts] + [x.slice.elts[0].value for x in rets]
            for K in sizes:
                n += 1
                too_big = sorted(s_ for s_ in names if DTYPE_CARDINALITY.get(s_, 0) > K)
                unknown = sorted(s_ for s_ in names if s_ not in DTYPE_CARDINALITY)
                construct = f"{f.fq}::size {K} for {names}"
                if too_big:
                    col.violation(construct, f"a cast to {too_big} is declared to have size {K}, but the cast keeps the operand's values (a Bint[n] operand has values up to n-1 "
                                  f"and {too_big[0]} can hold {DTYPE_CARDINALITY[too_big[0]]} of them): the declared bounded-integer output does not contain the data", f.loc(node))
                elif unknown:
                    col.unresolved(construct, f"dtype name(s) {unknown} not in the cardinality table", f.loc(node))
                else:
                    col.ok(construct, f"every listed type has at most {K} values", f.loc(node))
    if n == 0:
        raise AnalysisError("no constant-size branch found in the find_domain rule of the cast op (anchor: _find_domain_astype)")


# ---------------------------------------------------------------------- R06.10
def _boundary_of_own_tensor(prog: Program, col: Collector, refs: Refs, cat: Catalogue):
    """A Tensor's array has shape (batch dims of its inputs) + (its event shape).  Code that splits such an array at
    `len(array.shape) - <event rank>` must take the event rank of the tensor the array belongs to: the rank of another tensor
    (the other operand, the bound variable) puts the boundary in the wrong place whenever the two ranks differ."""
    n = 0
    for f in prog.funcs.values():
        if isinstance(f.node, ast.Lambda):
            continue
        defs: Dict[str, List[ast.AST]] = {}

        def add(name, val):
            defs.setdefault(name, []).append(val)

        for st in walk_no_nested(f.node):
            if isinstance(st, ast.Assign):
                for tg in st.targets:
                    if isinstance(tg, ast.Name):
                        add(tg.id, st.value)
                    elif isinstance(tg, (ast.Tuple, ast.List)):
                        if isinstance(st.value, (ast.Tuple, ast.List)) and len(tg.elts) == len(st.value.elts):
                            for a, b in zip(tg.elts, st.value.elts):
                                if isinstance(a, ast.Name):
                                    add(a.id, b)
                        elif isinstance(st.value, ast.Call) and (refs.resolve(st.value.func) or "").endswith("align_tensors") and len(tg.elts) == 2 \
                                and isinstance(tg.elts[1], (ast.Tuple, ast.List)) and not any(isinstance(a, ast.Starred) for a in st.value.args):
                            for a, b in zip(tg.elts[1].elts, st.value.args):
                                if isinstance(a, ast.Name) and isinstance(b, ast.Name):
                                    add(a.id, ast.Attribute(value=ast.Name(id=b.id, ctx=ast.Load()), attr="data", ctx=ast.Load()))
                            if isinstance(tg.elts[0], ast.Name):
                                add(tg.elts[0].id, st.value)
                        else:
                            for a in tg.elts:
                                if isinstance(a, ast.Name):
                                    add(a.id, st.value)
            elif isinstance(st, ast.AugAssign) and isinstance(st.target, ast.Name):
                add(st.target.id, st)
            elif isinstance(st, ast.For):
                for a in ast.walk(st.target):
                    if isinstance(a, ast.Name):
                        add(a.id, st)

        def owner_of_array(e, depth=0):
            """tensor (a name) whose array expression `e` is, or None"""
            if depth > 4:
                return None
            if isinstance(e, ast.Attribute) and e.attr == "data" and isinstance(e.value, ast.Name):
                return e.value.id
            if isinstance(e, ast.Call) and (refs.resolve(e.func) or "").endswith("align_tensor") and len(e.args) >= 2 and isinstance(e.args[1], ast.Name):
                return e.args[1].id
            if isinstance(e, ast.Name):
                owners = set()
                for d in defs.get(e.id, []):
                    # X = X.reshape(...) keeps the owner (the rank may change, but then the boundary is not recomputed from the old rank)
                    if isinstance(d, ast.Call) and isinstance(d.func, ast.Attribute) and isinstance(d.func.value, ast.Name) and d.func.value.id == e.id:
                        continue
                    if isinstance(d, ast.Call) and any(isinstance(a, ast.Name) and a.id == e.id for a in d.args) and (cat.resolve_op(f.module, d.func) if isinstance(d.func, (ast.Name, ast.Attribute)) else None) is not None:
                        continue  # X = ops.expand(X, ...)
                    o = owner_of_array(d, depth + 1) if isinstance(d, ast.expr) else None
                    owners.add(o)
                return owners.pop() if len(owners) == 1 and None not in owners else None
            return None

        def owner_of_shape(e, depth=0):
            if depth > 4:
                return None
            if isinstance(e, ast.Attribute) and e.attr == "shape":
                return owner_of_array(e.value, depth + 1)
            if isinstance(e, ast.Name):
                owners = set()
                for d in defs.get(e.id, []):
                    if isinstance(d, ast.expr) and any(isinstance(x, ast.Name) and x.id == e.id for x in ast.walk(d)):
                        continue  # shape = shape[:cut] + ... (self-derived)
                    owners.add(owner_of_shape(d, depth + 1) if isinstance(d, ast.expr) else None)
                return owners.pop() if len(owners) == 1 and None not in owners else None
            return None

        def rank_owner(e, depth=0):
            """tensor whose EVENT rank the expression is: len(T.shape) / len(T.output.shape) or a local bound to it"""
            if depth > 4:
                return None
            if isinstance(e, ast.Call) and isinstance(e.func, ast.Name) and e.func.id == "len" and len(e.args) == 1:
                a = e.args[0]
                if isinstance(a, ast.Attribute) and a.attr == "shape":
                    if isinstance(a.value, ast.Name) and owner_of_array(a.value) is None and a.value.id in set(f.params) | set(defs):
                        # T.shape of a funsor T (not of an array local)
                        if owner_of_shape(a) is None:
                            return a.value.id
                    if isinstance(a.value, ast.Attribute) and a.value.attr == "output" and isinstance(a.value.value, ast.Name):
                        return a.value.value.id
            if isinstance(e, ast.Name):
                owners = {rank_owner(d, depth + 1) if isinstance(d, ast.expr) else None for d in defs.get(e.id, [])}
                return owners.pop() if len(owners) == 1 and None not in owners else None
            return None

        for b in walk_no_nested(f.node):
            if not (isinstance(b, ast.BinOp) and isinstance(b.op, ast.Sub)):
                continue
            l = b.left
            if not (isinstance(l, ast.Call) and isinstance(l.func, ast.Name) and l.func.id == "len" and len(l.args) == 1):
                continue
            arr_owner = owner_of_shape(l.args[0])
            if arr_owner is None:
                continue
            r_owner = rank_owner(b.right)
            if r_owner is None:
                continue
            n += 1
            col.check(arr_owner == r_owner, f"{f.fq}::{norm(b)}", f"the array of `{arr_owner}` is split at its own event rank",
                      f"`{norm(b)}` splits the array of `{arr_owner}` using the event rank of `{r_owner}`: the batch / event boundary is misplaced whenever the two "
                      "ranks differ (dimensions are inserted or cut on the wrong side of the event shape)", f.loc(b))
    col.cur.analysed["boundary_computations"] = n


# ---------------------------------------------------------------------- R06.11
def _axis_labels_in_layout_order(prog: Program, col: Collector, refs: Refs, cat: Catalogue):
    """The batch axes of `x.data` are laid out in the order of `x.inputs` (R06.4).  Code that labels those axes with symbols (einsum
    subscripts built by `"".join(sym[k] for k in ...)` while looping over operands) must iterate `x.inputs` itself: iterating the
    union of all inputs filtered by membership labels the axes in another order whenever the operands list their inputs
    differently, so an axis is contracted against the wrong one."""
    n = 0
    for f in prog.funcs.values():
        if isinstance(f.node, ast.Lambda):
            continue
        for j in walk_no_nested(f.node):
            if not (isinstance(j, ast.Call) and isinstance(j.func, ast.Attribute) and j.func.attr == "join" and isinstance(j.func.value, ast.Constant)
                    and j.func.value.value == "" and len(j.args) == 1 and isinstance(j.args[0], (ast.GeneratorExp, ast.ListComp))):
                continue
            g = j.args[0]
            gen = g.generators[0]
            if not (isinstance(g.elt, ast.Subscript) and isinstance(gen.target, ast.Name) and isinstance(g.elt.slice, ast.Name) and g.elt.slice.id == gen.target.id):
                continue  # sym[k] for k in ...
            # the tensor whose axes are being labelled: an enclosing loop / comprehension variable T with `T.inputs` in the iterable or the filter
            owners = set()
            for x in ast.walk(gen.iter):
                if isinstance(x, ast.Attribute) and x.attr in ("inputs",) and isinstance(x.value, ast.Name):
                    owners.add(x.value.id)
            for c in gen.ifs:
                for x in ast.walk(c):
                    if isinstance(x, ast.Attribute) and x.attr in ("inputs", "input_vars") and isinstance(x.value, ast.Name):
                        owners.add(x.value.id)
            loop_vars = set()
            for a in f.module.ancestors(j):
                if a is f.node:
                    break
                if isinstance(a, ast.For):
                    loop_vars |= {y.id for y in ast.walk(a.target) if isinstance(y, ast.Name)}
                if isinstance(a, (ast.ListComp, ast.GeneratorExp)):
                    for gg in a.generators:
                        loop_vars |= {y.id for y in ast.walk(gg.target) if isinstance(y, ast.Name)}
            owners &= loop_vars
            if len(owners) != 1:
                continue
            T = next(iter(owners))
            n += 1
            good = not gen.ifs and isinstance(gen.iter, ast.Attribute) and gen.iter.attr == "inputs" and isinstance(gen.iter.value, ast.Name) and gen.iter.value.id == T
            col.check(good, f"{f.fq}::{norm(j)[:70]}", f"the labels of `{T}`'s batch axes follow `{T}.inputs`",
                      f"the labels for the batch axes of `{T}` are generated by iterating `{norm(gen.iter)}`{' filtered by ' + norm(gen.ifs[0]) if gen.ifs else ''}, not `{T}.inputs`: "
                      f"the array of `{T}` is laid out in the order of its own inputs, so operands that list their inputs in different orders get their axes mislabelled", f.loc(j))
    col.cur.analysed["axis_label_sites"] = n


# ---------------------------------------------------------------------- R06.12
def _slice_lengths(prog: Program, col: Collector, refs: Refs, cat: Catalogue):
    """Wherever the package turns (start, stop, step) into a number of elements - the shape entry in find_domain's getslice rule (two
    mirror-image loops), the size of a Slice's input - the integer expression is extracted and evaluated by the analyser's own
    evaluator for every 0 <= start, stop <= 7 and 1 <= step <= 4; it must equal len(range(start, stop, step))."""
    from .c04 import _ieval, _NoEval
    n = 0
    sites = []
    for f in prog.funcs.values():
        if isinstance(f.node, ast.Lambda):
            continue
        # (a) `start, stop, step = parse_slice(...)` followed in the same block by an assignment of an expression over those three names
        for blk_owner in ast.walk(f.node):
            for fld in ("body", "orelse"):
                blk = getattr(blk_owner, fld, None)
                if not isinstance(blk, list):
                    continue
                for i, st in enumerate(blk):
                    if isinstance(st, ast.Assign) and isinstance(st.targets[0], ast.Tuple) and len(st.targets[0].elts) == 3 and isinstance(st.value, ast.Call) \
                            and (refs.resolve(st.value.func) or "").endswith("parse_slice") and all(isinstance(e, ast.Name) for e in st.targets[0].elts):
                        names = [e.id for e in st.targets[0].elts]
                        for nxt in blk[i + 1:i + 3]:
                            if isinstance(nxt, ast.Assign) and {x.id for x in ast.walk(nxt.value) if isinstance(x, ast.Name)} - {"max", "min"} == set(names):
                                sites.append((f, nxt, nxt.value, dict(zip(("start", "stop", "step"), names))))
        # (b) a Slice constructor computing the size of its input from its own start / stop / step parameters
        if f.cls is not None and f.name == "__init__" and {"start", "stop", "step"} <= set(f.params):
            for st in walk_no_nested(f.node):
                if isinstance(st, ast.Assign) and len(st.targets) == 1 and isinstance(st.targets[0], ast.Name) \
                        and {x.id for x in ast.walk(st.value) if isinstance(x, ast.Name)} - {"max", "min"} == {"start", "stop", "step"}:
                    sites.append((f, st, st.value, {"start": "start", "stop": "stop", "step": "step"}))
    for f, st, expr, names in sites:
        n += 1
        bad = None
        try:
            for step in (1, 2, 3, 4):
                for start in range(0, 8):
                    for stop in range(0, 8):
                        got = _ieval(expr, {names["start"]: start, names["stop"]: stop, names["step"]: step})
                        want = len(range(start, stop, step))
                        if got != want and bad is None:
                            bad = (start, stop, step, got, want)
        except _NoEval as ex:
            col.unresolved(f"{f.fq}::{norm(st)[:60]}", f"not plain integer arithmetic ({ex})", f.loc(st))
            continue
        col.check(bad is None, f"{f.fq}::{norm(st)[:60]}", "equals len(range(start, stop, step)) on the grid (256 combinations)",
                  (f"for start={bad[0]}, stop={bad[1]}, step={bad[2]} the expression gives {bad[3]} but the slice has {bad[4]} element(s): the declared shape / size "
                   "differs from what the slice returns") if bad else "", f.loc(st))
    col.cur.analysed["slice_length_sites"] = n


# ---------------------------------------------------------------------- R06.14
def _inputs_cover_arguments(prog: Program, col: Collector, refs: Refs, cat: Catalogue):
    """A term depends on every input of every subterm it holds (minus the names it binds).  In each term constructor every name that
    is asserted to be a Funsor - a parameter, or a component unpacked from a tuple parameter - must have its `.inputs` (or
    `.input_vars`) read somewhere in the constructor, or be a binder (its `.name` is what is used).  A subterm whose inputs never
    reach the declared inputs makes the term claim independence of variables its value depends on: substituting them is a no-op."""
    funsor_like = set(cat.term_classes) | {"funsor.terms.Funsor"}
    n = 0
    for t in sorted(cat.term_classes.values(), key=lambda x: x.fq):
        init = t.cls.methods.get("__init__")
        if init is None or t.fq == "funsor.terms.Funsor":
            continue
        asserted = {}
        for a in ast.walk(init.node):
            if isinstance(a, ast.Assert):
                for c in ast.walk(a.test):
                    if isinstance(c, ast.Call) and isinstance(c.func, ast.Name) and c.func.id == "isinstance" and len(c.args) == 2 and isinstance(c.args[0], ast.Name):
                        elts = c.args[1].elts if isinstance(c.args[1], ast.Tuple) else [c.args[1]]
                        if elts and all((refs.resolve(e) if isinstance(e, (ast.Name, ast.Attribute)) else None) in funsor_like for e in elts):
                            # not inside a generator over something else (all(isinstance(v, Funsor) for v in xs) names a comprehension variable)
                            asserted.setdefault(c.args[0].id, a)
        # loops / comprehensions whose loop variable has its inputs read: the iterated collection (a name, or the names in a tuple display) contributes
        contributing = set()
        for x in ast.walk(init.node):
            gens = []
            if isinstance(x, ast.For):
                gens = [(x.target, x.iter, x)]
            elif isinstance(x, (ast.GeneratorExp, ast.ListComp, ast.SetComp, ast.DictComp)):
                gens = [(g.target, g.iter, x) for g in x.generators]
            for tg, it, scope in gens:
                tnames = {y.id for y in ast.walk(tg) if isinstance(y, ast.Name)}
                if any(isinstance(y, ast.Attribute) and y.attr in ("inputs", "input_vars") and isinstance(y.value, ast.Name) and y.value.id in tnames for y in ast.walk(scope)):
                    contributing |= {y.id for y in ast.walk(it) if isinstance(y, ast.Name)}
        # a name asserted inside `all(isinstance(v, Funsor) for v in XS)` stands for the elements of XS
        comp_var_of = {}
        for a in ast.walk(init.node):
            if isinstance(a, (ast.GeneratorExp, ast.ListComp)):
                for g in a.generators:
                    if isinstance(g.target, ast.Name) and isinstance(g.iter, ast.Name):
                        comp_var_of[g.target.id] = g.iter.id
        for name, where in sorted(asserted.items()):
            reads_inputs = any(isinstance(x, ast.Attribute) and x.attr in ("inputs", "input_vars") and isinstance(x.value, ast.Name) and x.value.id == name for x in ast.walk(init.node))
            reads_inputs = reads_inputs or name in contributing or comp_var_of.get(name) in contributing
            is_binder = any(isinstance(x, ast.Attribute) and x.attr == "name" and isinstance(x.value, ast.Name) and x.value.id == name for x in ast.walk(init.node))
            passed_on = any(isinstance(c, ast.Call) and any(isinstance(y, ast.Name) and y.id == name for y in c.args) and not (isinstance(c.func, ast.Name) and c.func.id in ("isinstance", "type", "len", "repr", "str", "id"))
                            for c in ast.walk(init.node))
            n += 1
            construct = f"{init.fq}::{name}"
            if reads_inputs:
                col.ok(construct, f"`{name}.inputs` contributes to the declared inputs", init.loc(where), nontrivial=False)
            elif is_binder:
                col.ok(construct, f"`{name}` is used as a binder (its name, not its inputs)", init.loc(where), nontrivial=False)
            elif passed_on:
                col.ok(construct, f"`{name}` is handed to a helper that computes the inputs", init.loc(where), nontrivial=False)
            else:
                col.violation(construct, f"`{name}` is asserted to be a funsor and is stored in the term, but `{name}.inputs` is never read in the constructor: the term declares "
                              f"itself independent of the inputs of `{name}` although its value depends on them (substituting such an input is silently ignored)", init.loc(where))
    col.cur.analysed["funsor_arguments_checked"] = n
