"""C07 - hash-consing: structural equality is object identity, held weakly (protocol + weakness clauses)."""
from __future__ import annotations

import ast
from typing import Dict, List, Optional, Set, Tuple

from ..catalogue import Catalogue
from ..cfg import CFG
from ..model import AnalysisError, Func, Program, norm
from ..report import Collector
from .common import Refs, func_label, is_super_call, require_func, walk_no_nested

EXPLANATION = (
    "Decides the find-or-add protocol of every intern table (terms: reflect/_cons_cache; parametrised types: GenericTypeMeta, "
    "ArrayType, ProductDomain/_type_cache; parametrised ops: OpMeta/_instance_cache): the table is a weakref.WeakValueDictionary "
    "at every binding; lookup, miss test and insert use one definition of the key; every path that returns a newly constructed "
    "object passes the insert (dominance on the CFG) and returns the inserted value; the key is built from every constructor "
    "argument (make_hash_key iterates all args without filter; id() only under a hashability/array test) and from the arguments "
    "as finally passed to the constructor; id-keyed arguments are kept alive by the interned value (_ast_values) before the insert; "
    "only reflect instantiates term classes and every metaclass __call__ funnels into it; __hash__/__copy__/__reduce__ and the "
    "pickling hooks of ops and domains go through the interning constructors; the alpha-mangled result is what is cached."
    ' Added since: R07.2 is decided by symbolic execution of every path of the interning functions; a slice contributes start, stop and step to an op key; Op.__reduce__ carries all parameters; R07.8 no unbounded memo on a rule dispatched on parametrised ops.'
    ' Round 4: a decomposed bound method contributes __self__ and __func__ to the key; R07.9 **kwargs of a term metaclass __call__ are consulted by name / order-free views until rebuilt over the declared fields.'
)
ASSUMPTIONS = [
    "weakref.WeakValueDictionary drops an entry when its value dies (CPython semantics)",
    "behaviour across GC timing and pickling of third-party array types is not decided",
]
RULE_TEXT = "one obligation per table binding, per protocol clause of each interning function, per metaclass __call__ return path, per identity hook"

WEAK = {"weakref.WeakValueDictionary"}
INTERNERS = {
    "funsor.terms::reflect": "_cons_cache",
    "funsor.domains::ArrayType.__getitem__": "_type_cache",
    "funsor.domains::ProductDomain.__getitem__": "_type_cache",
    "funsor.typing::GenericTypeMeta.__getitem__": "_type_cache",
    "funsor.ops.op::OpMeta.__call__": "_instance_cache",
}


def _table_accesses(f: Func, attr: str):
    """All nodes in f that denote the intern table (Attribute ending in .<attr>)."""
    return [n for n in walk_no_nested(f.node) if isinstance(n, ast.Attribute) and n.attr == attr]


def run(prog: Program, col: Collector, tier: str, refs: Optional[Refs] = None, cat: Optional[Catalogue] = None):
    refs = refs or Refs(prog)
    cat = cat or Catalogue(prog, refs)

    # ---------------------------------------------------------------- R07.1
    col.rule("R07.1", "intern tables are weak at every binding", floor=5)
    table_attrs = set(INTERNERS.values())
    n_bind = 0
    for mod in prog.modules.values():
        for n in ast.walk(mod.tree):
            if isinstance(n, (ast.Assign, ast.AnnAssign)):
                tgts = n.targets if isinstance(n, ast.Assign) else [n.target]
                for t in tgts:
                    name = t.attr if isinstance(t, ast.Attribute) else t.id if isinstance(t, ast.Name) else None
                    if name in table_attrs:
                        # class-body or attribute binding of an intern table
                        in_class_body = isinstance(mod.parent.get(n), ast.ClassDef)
                        if isinstance(t, ast.Name) and not in_class_body:
                            continue
                        n_bind += 1
                        v = n.value
                        ok = isinstance(v, ast.Call) and not v.args and not v.keywords and refs.resolve(v.func) in WEAK
                        col.check(ok, f"{func_label(prog, mod, n)}::{norm(n)}", "bound to a fresh weakref.WeakValueDictionary()",
                                  f"intern table `{name}` is bound to `{norm(v)}`: entries would be held strongly (terms never reclaimed) or shared", mod.loc(n))

    # ---------------------------------------------------------------- R07.2
    col.rule("R07.2", "find-or-add protocol: one key for lookup, miss test and insert; insert dominates every constructing return", floor=5)
    for fq, attr in INTERNERS.items():
        f = require_func(prog, fq)
        _protocol(col, f, attr, refs)

    # ---------------------------------------------------------------- R07.3
    col.rule("R07.3", "the key covers every constructor argument", floor=6)
    _key_coverage(prog, col, refs, cat)

    # ---------------------------------------------------------------- R07.4 / R07.7
    col.rule("R07.4", "id-keyed arguments are kept alive by the interned value; the alpha-mangled result is what is cached", floor=3)
    _reflect_epilogue(prog, col, refs)

    # ---------------------------------------------------------------- R07.5
    col.rule("R07.5", "only reflect instantiates terms; every metaclass __call__ funnels into it", floor=10)
    _only_reflect(prog, col, refs, cat)

    # ---------------------------------------------------------------- R07.8
    col.rule("R07.8", "no strong memo table holds term instances (entries must stay reclaimable)", floor=3)
    _strong_memos(prog, col, refs, cat)

    # ---------------------------------------------------------------- R07.9
    col.rule("R07.9", "keyword spelling of constructor arguments is normalised by declared position, never by call order", floor=2)
    _keyword_order(prog, col, refs, cat)

    # ---------------------------------------------------------------- R07.10
    col.rule("R07.10", "a metaclass __call__ hands identity-keyed arguments on as the very objects it received", floor=1)
    _identity_arguments_unchanged(prog, col, refs, cat)

    # ---------------------------------------------------------------- R07.11 (engine shared with R16.12)
    col.rule("R07.11", "every term / op / type class gets its own interning table (created for the class itself, not found by inheritance)", floor=3)
    from .c16 import _per_class_state
    _per_class_state(prog, col, refs, cat)

    # ---------------------------------------------------------------- R07.6
    col.rule("R07.6", "identity hooks: __hash__/__copy__/__reduce__ and pickling go through the interning constructors", floor=8)
    _identity_hooks(prog, col, refs, cat)
    return col


# ---------------------------------------------------------------------- R07.2


def _protocol(col: Collector, f: Func, attr: str, refs: Refs):
    """Path-sensitive find-or-add verification (funsorlint/protocol.py): every entry->return path is executed symbolically."""
    from ..protocol import FindOrAdd
    tabs = _table_accesses(f, attr)
    construct = f"{f.fq}::{attr}"
    if not tabs:
        col.violation(f"{f.fq}::intern table", f"the interning function no longer consults `{attr}`: equal arguments build distinct objects", f.loc())
        return
    fa = FindOrAdd(f, lambda e: isinstance(e, ast.Attribute) and e.attr == attr, attr)
    for fd in fa.run():
        col.add(fd.status, f"{construct}::{fd.role}", fd.detail, f.loc(fd.node) if fd.node is not None else f.loc())
    col.cur.analysed.setdefault("paths", {})[f.fq] = {"paths": fa.n_paths, "pruned_infeasible": fa.n_pruned, "hit": fa.n_hit, "miss": fa.n_miss}
    if not any(x.status == "violation" for x in fa.findings):
        if fa.n_hit == 0:
            col.violation(f"{construct}::hit path", "no path returns the table's entry for a key that is present: every call builds a new object", f.loc())
        if fa.n_miss == 0:
            col.violation(f"{construct}::miss path", "no path inserts a newly built object: equal arguments build distinct objects", f.loc())


def _stmt_of(mod, node):
    cur = node
    while cur is not None and not isinstance(cur, ast.stmt):
        cur = mod.parent.get(cur)
    return cur


def _try_keyerror(f: Func, lookups) -> bool:
    for n in walk_no_nested(f.node):
        if isinstance(n, ast.Try):
            if any(l in list(ast.walk(s)) for s in n.body for l in lookups):
                for h in n.handlers:
                    if h.type is not None and "KeyError" in norm(h.type):
                        return True
    return False


def _assigned_from_table(f: Func, name: ast.Name, attr: str) -> bool:
    for n in walk_no_nested(f.node):
        if isinstance(n, ast.Assign) and any(isinstance(t, ast.Name) and t.id == name.id for t in n.targets):
            if any(isinstance(x, ast.Attribute) and x.attr == attr for x in ast.walk(n.value)):
                return True
    return False


def _miss_guarded(f: Func, mod, name: str, ins_stmts, ret) -> bool:
    """`v = T.get(k); if v is None: v = T[k] = new; return v` - the insert is inside an `if v is None` on the returned name."""
    for st in ins_stmts:
        p = mod.parent.get(st)
        if isinstance(p, ast.If) and st in p.body:
            t = p.test
            if isinstance(t, ast.Compare) and isinstance(t.left, ast.Name) and t.left.id == name and len(t.ops) == 1 \
                    and isinstance(t.ops[0], ast.Is) and isinstance(t.comparators[0], ast.Constant) and t.comparators[0].value is None and not p.orelse:
                return True
    return False


# ---------------------------------------------------------------------- R07.3


def _key_coverage(prog: Program, col: Collector, refs: Refs, cat: Catalogue):
    mk = require_func(prog, "funsor.interpretations::Interpretation.make_hash_key")
    var = mk.node.args.vararg.arg if mk.node.args.vararg else None
    rets = [n for n in walk_no_nested(mk.node) if isinstance(n, ast.Return)]
    if var is None or not rets:
        col.violation(f"{mk.fq}::signature", "make_hash_key no longer takes *args / returns a key", mk.loc())
    for r in rets:
        v = r.value
        construct = f"{mk.fq}::{norm(r)}"
        ok, why = _covers_all(v, var)
        if ok is True:
            col.ok(construct, "key = tuple(arg or id(arg) for every arg), no filter, no slice", mk.loc(r))
        elif ok is False:
            col.violation(construct, why, mk.loc(r))
        else:
            col.unresolved(construct, why, mk.loc(r))
    _no_hash_in_key(col, mk)
    # reflect: key computed from the args that the constructor receives
    rf = require_func(prog, "funsor.terms::reflect")
    mod = rf.module
    key_stmt = None
    for n in walk_no_nested(rf.node):
        if isinstance(n, ast.Assign) and isinstance(n.value, ast.Call) and isinstance(n.value.func, ast.Attribute) and n.value.func.attr == "make_hash_key":
            key_stmt = n
    if key_stmt is None:
        col.violation(f"{rf.fq}::key computation", "reflect does not compute its key with make_hash_key", rf.loc())
        return
    call = key_stmt.value
    argvar = rf.node.args.vararg.arg if rf.node.args.vararg else None
    starred = [a for a in call.args if isinstance(a, ast.Starred)]
    cls_first = call.args and isinstance(call.args[0], ast.Name) and call.args[0].id == rf.positional[0]
    good = len(starred) == 1 and isinstance(starred[0].value, ast.Name) and starred[0].value.id == argvar and cls_first and len(call.args) == 2
    col.check(good, f"{rf.fq}::{norm(key_stmt)}", "key is computed from the class and all arguments",
              f"the key is computed from `{norm(call)}`, not from (cls, *args): some constructor argument does not take part in the identity", rf.loc(key_stmt))
    # no reassignment of args after the key is computed; constructor and _ast_values use the same args
    cfg = CFG(rf.node)
    kn = cfg.nodes_for(key_stmt)
    later_defs = []
    for n in walk_no_nested(rf.node):
        if isinstance(n, ast.Name) and n.id == argvar and isinstance(n.ctx, ast.Store):
            st = _stmt_of(mod, n)
            for sn in cfg.nodes_for(st):
                if any(_reaches(cfg, k, sn) for k in kn):
                    later_defs.append(st)
    col.check(not later_defs, f"{rf.fq}::args stable after key", "the arguments are normalised before the key is computed and not changed afterwards",
              "the arguments are re-bound after the key was computed: the object is built from arguments other than those it is filed under", rf.loc(key_stmt))
    ctor = [n for n in walk_no_nested(rf.node) if isinstance(n, ast.Call) and isinstance(n.func, ast.Attribute) and n.func.attr == "__call__" and is_super_call(n)]
    for c in ctor:
        good = len(c.args) == 1 and isinstance(c.args[0], ast.Starred) and isinstance(c.args[0].value, ast.Name) and c.args[0].value.id == argvar and not c.keywords
        col.check(good, f"{rf.fq}::{norm(c)}", "the constructor receives exactly the keyed arguments",
                  f"the constructor is called with `{norm(c)}`: not the arguments the key was computed from", rf.loc(c))
    # specialised class from all args (shared with R16.5)
    # OpMeta.__call__: key from args/kwargs after apply_defaults, same args to the constructor
    om = require_func(prog, "funsor.ops.op::OpMeta.__call__")
    key_calls = [n for n in walk_no_nested(om.node) if isinstance(n, ast.Call) and isinstance(n.func, ast.Attribute) and n.func.attr == "hash_args_kwargs"]
    if len(key_calls) != 1:
        col.violation(f"{om.fq}::key computation", "OpMeta.__call__ does not compute its key with hash_args_kwargs exactly once", om.loc())
    else:
        kc = key_calls[0]
        names = [a.id for a in kc.args if isinstance(a, ast.Name)]
        sup = [n for n in walk_no_nested(om.node) if isinstance(n, ast.Call) and is_super_call(n, "__call__")]
        same = bool(sup) and len(names) == 2 and all(
            len(s.args) == 1 and isinstance(s.args[0], ast.Starred) and norm(s.args[0].value) == names[0]
            and len(s.keywords) == 1 and s.keywords[0].arg is None and norm(s.keywords[0].value) == names[1] for s in sup)
        col.check(same, f"{om.fq}::{norm(kc)}", "the op is constructed from exactly the (args, kwargs) that were hashed",
                  "the op instance is constructed from arguments other than those that were hashed", om.loc(kc))
        # defaults applied before hashing, so Op(x) and Op(x, default) intern to one object
        applied = [n for n in walk_no_nested(om.node) if isinstance(n, ast.Call) and isinstance(n.func, ast.Attribute) and n.func.attr == "apply_defaults"]
        col.check(bool(applied) and all(a.lineno < kc.lineno for a in applied), f"{om.fq}::apply_defaults before hashing",
                  "defaults are filled in before the key is computed", "defaults are not applied before hashing: the same op with explicit and implicit defaults is two objects", om.loc(kc))
    _op_key_overrides(prog, col, refs)


def _op_key_overrides(prog: Program, col: Collector, refs: Refs):
    """every override of hash_args_kwargs (the interning key of a parametrised op) is derived from all of its input, decomposes structured
    arguments completely (a slice is start, stop, step), is uniquely decodable and is not a hash"""
    for c in prog.classes.values():
        m = c.methods.get("hash_args_kwargs")
        if m is None:
            continue
        params = [p for p in m.positional if p not in ("self", "cls")]
        if len(params) != 2:
            col.unresolved(f"{m.fq}::signature", "unexpected signature", m.loc())
            continue
        used = {n.id for n in walk_no_nested(m.node) if isinstance(n, ast.Name)}
        rets = [n for n in walk_no_nested(m.node) if isinstance(n, ast.Return)]
        sliced = [n for r in rets for n in ast.walk(r) if isinstance(n, ast.Subscript) and isinstance(n.slice, ast.Slice) and isinstance(n.value, ast.Name) and n.value.id in params]
        # the key must be uniquely decodable: per-element pieces of different lengths must not be concatenated
        flattened = []
        for n in walk_no_nested(m.node):
            if isinstance(n, ast.AugAssign) and isinstance(n.op, ast.Add) and isinstance(n.value, ast.IfExp) \
                    and isinstance(n.value.body, ast.Tuple) and isinstance(n.value.orelse, ast.Tuple) and len(n.value.body.elts) != len(n.value.orelse.elts) \
                    and any(isinstance(a, (ast.For, ast.While)) for a in m.module.ancestors(n)):
                flattened.append(n)
        for n in flattened:
            col.violation(f"{m.fq}::{norm(n)}", "the key is built by concatenating per-element pieces of different lengths: different argument lists flatten to the same key "
                          "(a request is answered with an op built from different arguments)", m.loc(n))
        # a structured argument that is decomposed into the key must be decomposed completely: a slice is (start, stop, step)
        for n in walk_no_nested(m.node):
            if isinstance(n, ast.IfExp) or isinstance(n, ast.If):
                t = n.test
                parts = None
                if isinstance(t, ast.Call) and isinstance(t.func, ast.Name) and t.func.id == "isinstance" and len(t.args) == 2 \
                        and isinstance(t.args[0], ast.Name) and norm(t.args[1]) == "slice":
                    parts, what_ = {"start", "stop", "step"}, "slice"
                elif isinstance(t, ast.Call) and (refs.resolve(t.func) if isinstance(t.func, (ast.Name, ast.Attribute)) else None) == "inspect.ismethod" \
                        and len(t.args) == 1 and isinstance(t.args[0], ast.Name):
                    # a bound method is (owner, function): keying it by one of the two identifies different methods / owners
                    parts, what_ = {"__self__", "__func__"}, "bound method"
                if parts is not None:
                    v = t.args[0].id
                    body = n.body if isinstance(n, ast.IfExp) else ast.Module(body=n.body, type_ignores=[])
                    attrs = {x.attr for x in ast.walk(body) if isinstance(x, ast.Attribute) and isinstance(x.value, ast.Name) and x.value.id == v}
                    whole = any(isinstance(x, ast.Name) and x.id == v and not isinstance(m.module.parent.get(x), ast.Attribute) for x in ast.walk(body))
                    if attrs and not whole:
                        missing = parts - attrs
                        col.check(not missing, f"{m.fq}::{what_} components in key", f"a {what_} contributes {', '.join(sorted(parts))} to the key",
                                  f"a {what_} argument contributes only {sorted(attrs)} to the key ({sorted(missing)} dropped): ops built from arguments that differ "
                                  "there are the same object", m.loc(n))
        _no_hash_in_key(col, m)
        col.check(set(params) <= used and not sliced and bool(rets), f"{m.fq}::covers args and kwargs",
                  "the key is derived from both the positional and the keyword parameters",
                  f"hash_args_kwargs ignores part of its input ({sorted(set(params) - used) or 'sliced'}): differently parametrised ops would be the same object", m.loc())



def _no_hash_in_key(col: Collector, m: Func):
    """The key of an interning table is compared with ==, so it must be an injective image of the arguments.  hash(...) is not
    (hash(-1) == hash(-2) in CPython, floats and ints that compare equal share a hash, 64 bits in general): a table keyed by
    hashes answers a request with an object built from different arguments."""
    calls = [n for n in walk_no_nested(m.node) if isinstance(n, ast.Call) and isinstance(n.func, ast.Name) and n.func.id == "hash"]
    calls += [n for n in walk_no_nested(m.node) if isinstance(n, ast.Call) and isinstance(n.func, ast.Attribute) and n.func.attr == "__hash__"]
    construct = f"{m.fq}::key is the arguments, not their hash"
    col.check(not calls, construct, "the key is built from the argument values (or the identity of unhashable ones)",
              f"the key is `{norm(calls[0])[:60]}`: distinct arguments with equal hashes (-1 and -2, or any 64-bit collision) are filed under one key, so the second "
              "request returns the object built for the first" if calls else "", m.loc(calls[0]) if calls else m.loc())


def _reaches(cfg: CFG, a, b) -> bool:
    import networkx as nx
    return a.idx != b.idx and nx.has_path(cfg.g, a.idx, b.idx)


def _covers_all(v: ast.AST, var: Optional[str]):
    if not (isinstance(v, ast.Call) and isinstance(v.func, ast.Name) and v.func.id == "tuple" and len(v.args) == 1):
        return None, f"key expression `{norm(v)}` not of the form tuple(<generator>)"
    g = v.args[0]
    if not isinstance(g, (ast.GeneratorExp, ast.ListComp)):
        return None, "not a comprehension"
    if len(g.generators) != 1:
        return None, "nested comprehension"
    gen = g.generators[0]
    if gen.ifs:
        return False, f"the key skips arguments (filter `{norm(gen.ifs[0])}`): two terms differing in a skipped argument would be one object"
    if not (isinstance(gen.iter, ast.Name) and gen.iter.id == var):
        return False, f"the key is built from `{norm(gen.iter)}`, not from all of `{var}`: terms differing in an omitted argument would be identified"
    if not isinstance(gen.target, ast.Name):
        return None, "tuple target"
    a = gen.target.id

    def is_arg(e):
        return isinstance(e, ast.Name) and e.id == a

    def is_id(e):
        return isinstance(e, ast.Call) and isinstance(e.func, ast.Name) and e.func.id == "id" and len(e.args) == 1 and is_arg(e.args[0])

    e = g.elt
    if is_arg(e):
        return True, ""
    if isinstance(e, ast.IfExp):
        if (is_id(e.body) and is_arg(e.orelse)) or (is_arg(e.body) and is_id(e.orelse)):
            # the id branch must be selected by a hashability / array test mentioning the argument
            t = norm(e.test)
            if a in {n.id for n in ast.walk(e.test) if isinstance(n, ast.Name)} and ("Hashable" in t or "isinstance" in t or "is_numeric_array" in t):
                return True, ""
            return None, f"id() chosen by `{t}`"
        return False, f"key element `{norm(e)}` is neither the argument nor its id"
    if is_id(e):
        return False, "every argument is keyed by id(): structurally equal arguments (strings, tuples, frozensets) would build distinct terms"
    return False, f"key element `{norm(e)}` is neither the argument nor its id"


# ---------------------------------------------------------------------- R07.4 / R07.7


def _reflect_epilogue(prog: Program, col: Collector, refs: Refs):
    rf = require_func(prog, "funsor.terms::reflect")
    mod = rf.module
    cfg = CFG(rf.node)
    argvar = rf.node.args.vararg.arg if rf.node.args.vararg else "args"
    inserts = [n for n in walk_no_nested(rf.node) if isinstance(n, ast.Assign) and any(
        isinstance(t, ast.Subscript) and isinstance(t.value, ast.Attribute) and t.value.attr == "_cons_cache" for t in n.targets)]
    keep = [n for n in walk_no_nested(rf.node) if isinstance(n, ast.Assign) and any(isinstance(t, ast.Attribute) and t.attr == "_ast_values" for t in n.targets)]
    if not inserts:
        return  # reported by R07.2
    ok = bool(keep) and all(isinstance(k.value, ast.Name) and k.value.id == argvar for k in keep) and all(
        any(cfg.dominates(a, b) for k in keep for a in cfg.nodes_for(k)) for i in inserts for b in cfg.nodes_for(i))
    col.check(ok, f"{rf.fq}::_ast_values before insert", "the term holds strong references to exactly the keyed arguments before it is inserted (ids cannot be recycled while the entry lives)",
              "`result._ast_values = args` does not precede the insert on every path: an id()-keyed array may die and its id be reused while the entry is live (stale hit)", rf.loc(inserts[0]))
    mangles = [n for n in walk_no_nested(rf.node) if isinstance(n, ast.Assign) and isinstance(n.value, ast.Call) and refs.resolve(n.value.func) == "funsor.terms._alpha_mangle"]
    ins = inserts[0]
    ok = bool(mangles) and isinstance(ins.value, ast.Name) and all(any(isinstance(t, ast.Name) and t.id == ins.value.id for t in m.targets) for m in mangles) \
        and all(any(cfg.dominates(a, b) for m in mangles for a in cfg.nodes_for(m)) for b in cfg.nodes_for(ins))
    col.check(ok, f"{rf.fq}::alpha-mangled value cached", "what is inserted and returned is the result of _alpha_mangle(result)",
              "the un-mangled term is cached (or mangling is skipped on some path): a later lookup returns a term with the user's bound names", rf.loc(ins))
    # the value whose fields are set is the freshly built object
    ctor_assign = [n for n in walk_no_nested(rf.node) if isinstance(n, ast.Assign) and isinstance(n.value, ast.Call) and is_super_call(n.value, "__call__")]
    col.check(len(ctor_assign) == 1, f"{rf.fq}::single construction", "exactly one type.__call__ construction", f"{len(ctor_assign)} constructions in reflect", rf.loc())


# ---------------------------------------------------------------------- R07.5


def _only_reflect(prog: Program, col: Collector, refs: Refs, cat: Catalogue):
    fmeta = "funsor.terms.FunsorMeta"
    if fmeta not in prog.classes:
        raise AnalysisError("FunsorMeta not found")
    metas = [c for c in prog.classes.values() if c.fq == fmeta or prog.is_subclass(c.fq, fmeta)]
    # (a) bypasses of the metaclass: super(FunsorMeta, X).__call__ / type.__call__ / object.__new__ / __new__ on term classes
    for mod in prog.modules.values():
        for n in ast.walk(mod.tree):
            if not isinstance(n, ast.Call):
                continue
            f = n.func
            where = func_label(prog, mod, n)
            construct = f"{where}::{norm(n)}"
            if isinstance(f, ast.Attribute) and f.attr == "__call__" and isinstance(f.value, ast.Call) and isinstance(f.value.func, ast.Name) \
                    and f.value.func.id == "super" and len(f.value.args) == 2 and refs.resolve(f.value.args[0]) == fmeta:
                col.check(where == "funsor.terms::reflect", construct, "the single raw construction, inside reflect",
                          "a term is instantiated with type.__call__ outside reflect: it bypasses the cons cache (two equal terms, one not interned)", mod.loc(n))
            elif isinstance(f, ast.Attribute) and f.attr in ("__new__",) and n.args:
                a0 = refs.resolve(n.args[0]) if isinstance(n.args[0], (ast.Name, ast.Attribute)) else None
                if a0 in cat.term_classes:
                    col.violation(construct, "__new__ on a term class bypasses the cons cache", mod.loc(n))
                else:
                    # object.__new__(type(x)) / x.__class__ where x is known (isinstance test / self of a term class) to be a term
                    a = n.args[0]
                    inner = None
                    if isinstance(a, ast.Call) and isinstance(a.func, ast.Name) and a.func.id == "type" and len(a.args) == 1:
                        inner = a.args[0]
                    elif isinstance(a, ast.Attribute) and a.attr == "__class__":
                        inner = a.value
                    if isinstance(inner, ast.Name) and _known_term(prog, cat, refs, mod, n, inner.id):
                        col.violation(construct, f"`{norm(n)}` allocates a second instance of the class of a term without going through the interning constructor", mod.loc(n))
            elif isinstance(f, ast.Attribute) and f.attr == "__call__" and isinstance(f.value, ast.Name) and f.value.id == "type" and n.args:
                a0 = refs.resolve(n.args[0]) if isinstance(n.args[0], (ast.Name, ast.Attribute)) else None
                if a0 in cat.term_classes or mod.name == "funsor.terms":
                    col.violation(construct, "type.__call__ on a term class bypasses the cons cache", mod.loc(n))
    # (b) FunsorMeta.__call__ ends in interpret(cls, *args) on every path
    base_call = prog.classes[fmeta].methods.get("__call__")
    if base_call is None:
        raise AnalysisError("FunsorMeta.__call__ not found")
    rets = [n for n in walk_no_nested(base_call.node) if isinstance(n, ast.Return)]
    ok = bool(rets) and all(isinstance(r.value, ast.Call) and refs.resolve(r.value.func) == "funsor.interpreter.interpret"
                            and len(r.value.args) == 2 and isinstance(r.value.args[1], ast.Starred) for r in rets)
    col.check(ok, f"{base_call.fq}::returns interpret(cls, *args)", "construction is delegated to the active interpretation with the class and all arguments",
              "FunsorMeta.__call__ does not return interpret(cls, *args) on every path", base_call.loc())
    cfg = CFG(base_call.node)
    falls_off = any(lab != "return" for n, lab in cfg.pred(cfg.exit))
    col.check(not falls_off, f"{base_call.fq}::no fall-through", "every path returns", "a path falls off the end of FunsorMeta.__call__ (returns None)", base_call.loc())
    # (c) every override returns a value obtained from super().__call__(...)
    for c in metas:
        if c.fq == fmeta:
            continue
        m = c.methods.get("__call__")
        if m is None:
            col.ok(f"{c.fq}::inherits __call__", "no override", c.module.loc(c.node), nontrivial=False)
            continue
        _check_meta_call(col, m, refs)
    # the factory's dynamically created metaclass
    mf = prog.funcs.get("funsor.factory::make_funsor")
    if mf is not None:
        for n in ast.walk(mf.node):
            if isinstance(n, ast.FunctionDef) and n.name == "__call__":
                ff = prog.func_of(n)
                if ff is not None:
                    _check_meta_call(col, ff, refs)


def _known_term(prog: Program, cat: Catalogue, refs: Refs, mod, node, name: str) -> bool:
    """Is local `name` known to hold a term in the function enclosing node?  (isinstance test on it, or `self` of a term class)"""
    fn = mod.enclosing_function(node)
    if fn is None:
        return False
    f = prog.func_of(fn)
    if f is not None and f.cls is not None and f.cls.fq in cat.term_classes and f.positional and f.positional[0] == name:
        return True
    for x in ast.walk(fn):
        if isinstance(x, ast.Call) and isinstance(x.func, ast.Name) and x.func.id == "isinstance" and len(x.args) == 2 \
                and isinstance(x.args[0], ast.Name) and x.args[0].id == name:
            cands = x.args[1].elts if isinstance(x.args[1], ast.Tuple) else [x.args[1]]
            for c in cands:
                r = refs.resolve(c) if isinstance(c, (ast.Name, ast.Attribute)) else None
                if r in cat.term_classes:
                    return True
    return False


def _check_meta_call(col: Collector, m: Func, refs: Refs):
    """Every return of a metaclass __call__ override is derived from super().__call__(...)."""
    from ..dataflow import Walker

    def ev(e, env):
        if isinstance(e, ast.Call) and is_super_call(e, "__call__"):
            return frozenset({"super"})
        if isinstance(e, ast.Name):
            return env.get(e.id, frozenset({"other:" + e.id}))
        if isinstance(e, ast.BinOp):
            l, r = ev(e.left, env), ev(e.right, env)
            # Gaussian + Tensor: a Binary built through the metaclass again
            return frozenset({"super"}) if "super" in l or "super" in r else frozenset({"other:" + norm(e)})
        if isinstance(e, ast.IfExp):
            return ev(e.body, env) | ev(e.orelse, env)
        if isinstance(e, ast.Call):
            return frozenset({"call:" + norm(e.func)})
        return frozenset({"other:" + norm(e)})

    w = Walker(m.node, ev)
    w.run()
    if not w.returns:
        col.violation(f"{m.fq}::returns", "metaclass __call__ never returns a term", m.loc())
    for st, vals, _ in w.returns:
        bad = [v for v in vals if v != "super"]
        construct = f"{m.fq}::{norm(st)}"
        if not bad:
            col.ok(construct, "returns what super().__call__ (-> interpret -> reflect) produced", m.loc(st))
        elif all(v.startswith("call:") for v in bad):
            col.unresolved(construct, f"returns the result of {sorted(bad)}; not traced", m.loc(st))
        else:
            col.violation(construct, f"returns `{norm(st.value) if st.value else None}` which does not come from super().__call__: the object bypasses interpretation and interning", m.loc(st))
    cfg = CFG(m.node)
    falls_off = any(lab != "return" for n, lab in cfg.pred(cfg.exit))
    if falls_off:
        col.violation(f"{m.fq}::fall-through", "a path falls off the end of the metaclass __call__ (returns None instead of a term)", m.loc())


def _op_rule_unbounded(f: Func, cat: Catalogue, refs: Refs) -> bool:
    """Is f registered (in any registry) under a pattern whose first element is an op class, and memoised without bound?"""
    unbounded = False
    for d in f.decorators:
        r = refs.resolve(d.func if isinstance(d, ast.Call) else d)
        if r == "functools.cache":
            unbounded = True
        if r == "functools.lru_cache":
            if not isinstance(d, ast.Call):
                continue  # bare @lru_cache: default maxsize 128
            ms = [k.value for k in d.keywords if k.arg == "maxsize"] + list(d.args[:1])
            if ms and isinstance(ms[0], ast.Constant) and ms[0].value is None:
                unbounded = True
    if not unbounded:
        return False
    for r in cat.registrations:
        if r.target is f and r.pattern and isinstance(r.pattern[0], (ast.Name, ast.Attribute)):
            if cat.op_class_ref(refs.resolve(r.pattern[0])) is not None:
                return True
    return False


def _strong_memos(prog: Program, col: Collector, refs: Refs, cat: Catalogue):
    memo = {"functools.lru_cache", "functools.cache", "functools.cached_property"}
    for f in prog.funcs.values():
        decs = []
        for d in f.decorators:
            r = refs.resolve(d.func if isinstance(d, ast.Call) else d)
            if r in memo:
                decs.append(r)
        if not decs:
            continue
        others = {norm(d) for d in f.decorators}
        is_instance_method = f.cls is not None and not ({"classmethod", "staticmethod"} & others)
        term_self = is_instance_method and f.cls.fq in cat.term_classes
        asserted = [c.args[0].id for n in walk_no_nested(f.node) if isinstance(n, ast.Assert) for c in ast.walk(n.test)
                    if isinstance(c, ast.Call) and norm(c.func) == "isinstance" and len(c.args) == 2 and isinstance(c.args[0], ast.Name)
                    and refs.resolve(c.args[1]) in cat.term_classes and c.args[0].id in f.positional]
        construct = f"{f.fq}::@{decs[0].rsplit('.', 1)[-1]}"
        if term_self and decs[0] != "functools.cached_property":
            col.violation(construct, f"{decs[0]} on an instance method of term class {f.cls.name} keeps every `self` it was called on alive for ever: "
                          "the weak intern table can never drop those terms (nor the arrays behind them)", f.loc())
        elif asserted:
            col.violation(construct, f"{decs[0]} on a function whose parameter `{asserted[0]}` is a term keeps those terms alive for ever", f.loc())
        elif _op_rule_unbounded(f, cat, refs):
            col.violation(construct, f"unbounded {decs[0]} on a rule that is dispatched on a parametrised op: every op instance (and every domain) it was ever called with "
                          "stays alive, so the weak op / domain intern tables can never drop them", f.loc())
        else:
            col.ok(construct, "memo keyed by classes / domains / plain data, not by term instances", f.loc())
    # (b) a container created once at definition time (a mutable default argument) that becomes a memo of terms: it lives as long
    #     as the process and holds everything ever memoized in it
    # memoizing interpretations by role: `interpret` stores into a container attribute of self (self.cache[key] = value)
    memo_cls = set()
    for c in prog.subclasses("funsor.interpretations.Interpretation"):
        im = c.methods.get("interpret")
        if im is not None and im.positional and any(
                isinstance(x, ast.Subscript) and isinstance(x.ctx, ast.Store) and isinstance(x.value, ast.Attribute) and isinstance(x.value.value, ast.Name)
                and x.value.value.id == im.positional[0] for x in ast.walk(im.node)):
            memo_cls.add(c.fq)
    if not memo_cls:
        raise AnalysisError("no memoizing interpretation found by role (anchor: Memoize.interpret stores into self.cache)")
    for f in prog.funcs.values():
        if isinstance(f.node, ast.Lambda) or not f.module.name.startswith("funsor."):
            continue
        a = f.node.args
        pos = a.posonlyargs + a.args
        pairs = list(zip(pos[len(pos) - len(a.defaults):], a.defaults)) + [(x, d) for x, d in zip(a.kwonlyargs, a.kw_defaults) if d is not None]
        for arg, d in pairs:
            mutable = isinstance(d, (ast.Dict, ast.List, ast.Set)) or (isinstance(d, ast.Call) and isinstance(d.func, ast.Name)
                                                                         and d.func.id in ("dict", "list", "set", "OrderedDict", "defaultdict", "WeakValueDictionary") and not d.args)
            if not mutable:
                continue
            # does it become the table of a memoizing interpretation?
            feeds = [c for c in walk_no_nested(f.node) if isinstance(c, ast.Call) and refs.resolve(c.func) in memo_cls
                     and any(isinstance(x, ast.Name) and x.id == arg.arg for x in c.args + [k.value for k in c.keywords])]
            stored = [st for st in walk_no_nested(f.node) if isinstance(st, ast.Assign) and isinstance(st.value, ast.Name) and st.value.id == arg.arg
                      and any(isinstance(t, ast.Attribute) for t in st.targets)] if f.cls is not None and f.cls.fq in memo_cls else []
            if feeds or stored:
                col.violation(f"{f.fq}::{arg.arg}={norm(d)}", f"the default of `{arg.arg}` is a container created once, at definition time, and it becomes the memo table of an "
                              "interpretation: every `with` block that does not pass its own table shares it for the life of the process, so the terms memoized in it "
                              "(and the arrays behind them) are never reclaimed, and a later block is answered from an earlier block's entries", f.loc())
    # (c) a per-instance memo on a term: `self.<attr>[key] = <term built from self>` outside construction makes the interned operand own a
    #     strong reference to a term whose cons key owns the operand - a cycle rooted in the operand, which the weak table cannot break
    for t in cat.term_classes.values():
        for mname, m in t.cls.methods.items():
            if mname in ("__init__", "__new__") or not m.positional:
                continue
            selfn = m.positional[0]
            for st in walk_no_nested(m.node):
                if not isinstance(st, ast.Assign):
                    continue
                for tg in st.targets:
                    tgts = [tg] + ([e for e in tg.elts] if isinstance(tg, ast.Tuple) else [])
                    for x in tgts:
                        if isinstance(x, ast.Subscript) and isinstance(x.value, ast.Attribute) and isinstance(x.value.value, ast.Name) and x.value.value.id == selfn:
                            built = [c for c in ast.walk(st.value) if isinstance(c, ast.Call) and refs.resolve(c.func) in cat.term_classes]
                            if built:
                                col.violation(f"{m.fq}::{norm(x)} = {norm(st.value)[:40]}", f"a term built from `{selfn}` is memoized in a container attribute of `{selfn}` itself: the operand "
                                              "now owns the derived term, whose interning key owns the operand, so neither is ever reclaimed while the other's table entry lives "
                                              "(terms must be kept alive by their holders only)", m.loc(st))


# ---------------------------------------------------------------------- R07.6


def _identity_hooks(prog: Program, col: Collector, refs: Refs, cat: Catalogue):
    base = prog.classes["funsor.terms.Funsor"]

    def single_return(m):
        """the value of the only return of a straight-line method, with locals that are bound once inlined"""
        body = [s for s in m.body if not (isinstance(s, ast.Expr) and isinstance(s.value, ast.Constant))]
        if not body or not isinstance(body[-1], ast.Return) or body[-1].value is None:
            return None
        env = {}
        for st in body[:-1]:
            if isinstance(st, ast.Assign) and len(st.targets) == 1 and isinstance(st.targets[0], ast.Name) and st.targets[0].id not in env:
                env[st.targets[0].id] = st.value
            elif isinstance(st, ast.Assert):
                continue
            else:
                return None

        class Inline(ast.NodeTransformer):
            def visit_Name(self, node):
                if isinstance(node.ctx, ast.Load) and node.id in env:
                    return self.visit(env[node.id])
                return node

        import copy as _copy
        return Inline().visit(_copy.deepcopy(body[-1].value))

    h = base.methods.get("__hash__")
    r = single_return(h) if h else None
    col.check(h is not None and isinstance(r, ast.Call) and isinstance(r.func, ast.Name) and r.func.id == "id" and len(r.args) == 1 and norm(r.args[0]) == h.positional[0],
              "funsor.terms::Funsor.__hash__", "hash is object identity (terms are interned; == is overloaded elementwise)",
              "Funsor.__hash__ is not id(self): dict/set membership of terms no longer follows identity", h.loc() if h else base.module.loc(base.node))
    cp = base.methods.get("__copy__")
    r = single_return(cp) if cp else None
    col.check(cp is not None and isinstance(r, ast.Name) and r.id == cp.positional[0], "funsor.terms::Funsor.__copy__",
              "copy returns the interned object itself", "Funsor.__copy__ does not return self: copy.copy would create an un-interned twin", cp.loc() if cp else base.module.loc(base.node))
    rd = base.methods.get("__reduce__")
    r = single_return(rd) if rd else None
    ok = rd is not None and isinstance(r, ast.Tuple) and len(r.elts) == 2 and norm(r.elts[1]) == f"{rd.positional[0]}._ast_values" \
        and norm(r.elts[0]) in (f"type({rd.positional[0]}).__origin__", f"type({rd.positional[0]})")
    col.check(ok, "funsor.terms::Funsor.__reduce__", "unpickling calls the term class on _ast_values, i.e. goes through interpretation and interning",
              "Funsor.__reduce__ does not rebuild through the term class with _ast_values: unpickled terms bypass the cons cache", rd.loc() if rd else base.module.loc(base.node))
    forbidden = ("__hash__", "__copy__", "__deepcopy__", "__reduce__", "__reduce_ex__", "__getstate__", "__setstate__", "__getnewargs__", "__getnewargs_ex__", "__new__")
    for t in cat.term_classes.values():
        if t.fq == base.fq:
            for name in ("__deepcopy__", "__reduce_ex__", "__getstate__", "__setstate__", "__new__"):
                if name in t.cls.methods:
                    col.violation(f"{t.fq}::{name}", f"Funsor defines {name}: copying/pickling may create un-interned twins", t.cls.methods[name].loc())
            continue
        bad = [n for n in forbidden if n in t.cls.methods or n in t.cls.attrs]
        col.check(not bad, f"{t.fq}::identity hooks inherited", "no override of the identity/copy/pickle hooks",
                  f"{t.name} overrides {bad}: identity semantics of interned terms are changed for this class", t.cls.module.loc(t.cls.node), nontrivial=False)
    # ops
    op = prog.classes["funsor.ops.op.Op"]
    for name in ("__copy__", "__deepcopy__"):
        m = op.methods.get(name)
        r = single_return(m) if m else None
        col.check(m is not None and isinstance(r, ast.Name) and r.id == m.positional[0], f"funsor.ops.op::Op.{name}", "returns self",
                  f"Op.{name} does not return self: copies of an op are distinct objects", m.loc() if m else op.module.loc(op.node))
    op_reduce_clause(prog, col)
    # domains
    dm = prog.modules.get("funsor.domains")
    regs = [n for n in ast.walk(dm.tree) if isinstance(n, ast.Call) and refs.resolve(n.func) == "copyreg.pickle"]
    for c in ("ArrayType", "BintType", "RealsType"):
        got = [n for n in regs if n.args and norm(n.args[0]) == c]
        col.check(bool(got) and all(len(n.args) == 2 and refs.resolve(n.args[1]) == "funsor.domains._pickle_array" for n in got),
                  f"funsor.domains::copyreg.pickle({c})", "domain classes pickle through _pickle_array",
                  f"{c} is not registered with copyreg to pickle through _pickle_array: unpickled domains are not interned", dm.rel)
    pa = prog.funcs.get("funsor.domains::_pickle_array")
    if pa is None:
        col.violation("funsor.domains::_pickle_array", "_pickle_array not found", dm.rel)
    else:
        rets = [n for n in walk_no_nested(pa.node) if isinstance(n, ast.Return)]
        good = any(isinstance(r.value, ast.Tuple) and len(r.value.elts) == 2 and refs.resolve(r.value.elts[0]) == "operator.getitem"
                   and isinstance(r.value.elts[1], ast.Tuple) and norm(r.value.elts[1].elts[0]) == "Array" for r in rets)
        col.check(good, "funsor.domains::_pickle_array", "parametrised domains are rebuilt with Array[dtype, shape] (the interning __getitem__)",
                  "_pickle_array does not rebuild domains through Array[...]: unpickled domains are new classes", pa.loc())


def op_reduce_clause(prog: Program, col: Collector):
    """Op.__reduce__ rebuilds through type(self) (the interning metaclass) with ALL the parameters of the instance (shared with C18:
    a pickled program must keep the parameters of its ops)."""
    op = prog.classes["funsor.ops.op.Op"]
    m = op.methods.get("__reduce__")
    rets = [n.value for n in walk_no_nested(m.node) if isinstance(n, ast.Return) and n.value is not None] if m else []
    ok = bool(rets) and all(isinstance(r, ast.Tuple) and len(r.elts) == 2 and isinstance(r.elts[1], ast.Tuple) and r.elts[1].elts
                            and norm(r.elts[1].elts[0]) == f"type({m.positional[0]})" for r in rets)
    col.check(ok, "funsor.ops.op::Op.__reduce__", "unpickling re-applies type(self), i.e. the interning metaclass",
              "Op.__reduce__ does not go through type(self): unpickled ops are not interned", m.loc() if m else op.module.loc(op.node))
    # ... with ALL the parameters of the instance (a parameter left out is replaced by its default on load: a different op)
    if ok:
        selfn = m.positional[0]
        locals_ = {}
        for n in walk_no_nested(m.node):
            if isinstance(n, ast.Assign) and len(n.targets) == 1 and isinstance(n.targets[0], ast.Name):
                locals_.setdefault(n.targets[0].id, []).append(n.value)
        for r in rets:
            params = r.elts[1].elts[-1] if len(r.elts[1].elts) >= 2 else None
            e = params
            if isinstance(e, ast.Name) and len(locals_.get(e.id, [])) == 1:
                e = locals_[e.id][0]
            construct = "funsor.ops.op::Op.__reduce__::parameters"
            full = f"{selfn}.defaults"
            if e is None:
                col.violation(construct, "the pickled form carries no parameters", m.loc())
            elif norm(e) == full or (isinstance(e, ast.Call) and ((norm(e.func) in ("dict", "OrderedDict") and len(e.args) == 1 and norm(e.args[0]) == full)
                                                                  or (isinstance(e.func, ast.Attribute) and e.func.attr == "copy" and norm(e.func.value) == full))):
                col.ok(construct, "the pickled form carries all of self.defaults", m.loc())
            elif isinstance(e, ast.DictComp) and full in norm(e.generators[0].iter):
                col.check(not e.generators[0].ifs, construct, "all parameters are kept",
                          f"parameters are filtered by `{' and '.join(norm(c) for c in e.generators[0].ifs)}` before pickling: an op with a zero-like non-default parameter "
                          "(axis=0, dim=0) unpickles as a different op (and a term built from it as a different term)", m.loc())
            else:
                col.unresolved(construct, f"parameters expression `{norm(e)}` not recognised", m.loc())


# ---------------------------------------------------------------------- R07.9
ORDER_FREE_WRAPPERS = {"set", "frozenset", "sorted", "dict", "len", "bool", "OrderedDict"}


def _keyword_order(prog: Program, col: Collector, refs: Refs, cat: Catalogue):
    """In every metaclass __call__ on the term-construction path the **kwargs dict carries the CALL order of the keywords.  Until
    it is rebuilt over the declared fields it may only be consulted by name; turning it into positions by iteration makes
    `T(a=x, b=y)` and `T(b=y, a=x)` two different requests (or swaps their fields)."""
    fmeta = "funsor.terms.FunsorMeta"
    if fmeta not in prog.classes:
        raise AnalysisError("FunsorMeta not found")
    metas = [c for c in prog.classes.values() if c.fq == fmeta or fmeta in prog.mro(c.fq)]
    n = 0
    for c in metas:
        m = c.methods.get("__call__")
        if m is None or m.node.args.kwarg is None:
            continue
        n += 1
        K = m.node.args.kwarg.arg
        mod = m.module
        # position of the first statement that rebinds K (after it the dict is whatever that statement built)
        rebinds = sorted(st.lineno for st in walk_no_nested(m.node) if isinstance(st, ast.Assign)
                         and any(isinstance(t, ast.Name) and t.id == K for t in st.targets))
        first_rebind = rebinds[0] if rebinds else 10 ** 9
        bad = []
        for x in walk_no_nested(m.node):
            if not (isinstance(x, ast.Name) and x.id == K and isinstance(x.ctx, ast.Load)):
                continue
            st = _stmt_of(mod, x)
            rebinding_here = isinstance(st, ast.Assign) and any(isinstance(t, ast.Name) and t.id == K for t in st.targets)
            if x.lineno > first_rebind or (x.lineno == first_rebind and not rebinding_here):
                continue
            p = mod.parent.get(x)
            use = None
            if isinstance(p, ast.Attribute) and p.value is x:
                pp = mod.parent.get(p)
                if p.attr in ("values", "items", "keys", "popitem", "__iter__") and isinstance(pp, ast.Call) and pp.func is p:
                    outer = mod.parent.get(pp)
                    wrapped = isinstance(outer, ast.Call) and isinstance(outer.func, ast.Name) and outer.func.id in ORDER_FREE_WRAPPERS and p.attr != "popitem"
                    in_test = isinstance(outer, ast.Compare) and all(isinstance(o, (ast.In, ast.NotIn)) for o in outer.ops)
                    if not wrapped and not in_test:
                        use = f".{p.attr}()"
            elif isinstance(p, (ast.For, ast.comprehension)) and p.iter is x:
                # iterating the dict: fine when the comprehension result is order-free (set(...) / all / any)
                use = "iteration over the keyword dict"
                if isinstance(p, ast.comprehension):
                    comp = mod.parent.get(p)
                    outer = mod.parent.get(comp)
                    if isinstance(comp, (ast.SetComp, ast.DictComp)) or (isinstance(outer, ast.Call) and isinstance(outer.func, ast.Name)
                                                                           and outer.func.id in ORDER_FREE_WRAPPERS | {"all", "any", "sum", "max", "min"}):
                        use = None
            elif isinstance(p, ast.Starred):
                use = "*-unpacking of the keyword dict"
            elif isinstance(p, ast.Call) and x in p.args and isinstance(p.func, ast.Name) and p.func.id in ("tuple", "list", "iter", "next", "enumerate", "zip", "reversed"):
                use = f"{p.func.id}() over the keyword dict"
            if use:
                bad.append((x, use, st))
        for x, use, st in bad:
            col.violation(f"{m.fq}::{norm(st)}", f"{use}: the keyword arguments are consumed in CALL order before being arranged by the declared fields, so the same "
                          "constructor request spelled with keywords in another order is a different key (a second object) or has its fields swapped", m.loc(x))
        if not bad:
            col.ok(f"{m.fq}::**{K} consulted by name", "until rebuilt over the declared fields, the keyword dict is only consulted by name / order-free views", m.loc())
    if n < 2:
        raise AnalysisError(f"only {n} term metaclass __call__ with **kwargs found; expected FunsorMeta and at least one override")


def _stmt_of(mod, node):
    cur = node
    while cur is not None and not isinstance(cur, ast.stmt):
        cur = mod.parent.get(cur)
    return cur


# ---------------------------------------------------------------------- R07.10
ALLOCATING_CALLS = {"asarray", "array", "ascontiguousarray", "asanyarray", "copy", "astype", "__array__", "clone", "contiguous", "reshape", "ravel", "flatten",
                    "atleast_1d", "require", "asfortranarray", "tensor", "as_tensor", "numpy"}


def _identity_arguments_unchanged(prog: Program, col: Collector, refs: Refs, cat: Catalogue):
    """Arrays take part in the cons key by identity.  A metaclass __call__ that replaces such an argument by the result of a call that
    may allocate (np.asarray(x, order=...), x.copy(), x.astype(...)) before delegating gives every request a fresh identity: the same
    array no longer yields the same term.  (Converting numpy *scalars* - values without identity of their own - is tolerated and noted.)"""
    fmeta = "funsor.terms.FunsorMeta"
    metas = [c for c in prog.classes.values() if c.fq == fmeta or prog.is_subclass(c.fq, fmeta)]
    n = 0
    for c in metas:
        m = c.methods.get("__call__")
        if m is None:
            continue
        params = set(m.positional[1:])
        for st in walk_no_nested(m.node):
            if not (isinstance(st, ast.Assign) and len(st.targets) == 1 and isinstance(st.targets[0], ast.Name) and st.targets[0].id in params):
                continue
            v = st.value
            if not isinstance(v, ast.Call):
                continue
            fn = v.func.attr if isinstance(v.func, ast.Attribute) else (v.func.id if isinstance(v.func, ast.Name) else "")
            p = st.targets[0].id
            uses_p = any(isinstance(x, ast.Name) and x.id == p for x in ast.walk(v))
            if fn not in ALLOCATING_CALLS or not uses_p:
                continue
            r = refs.resolve(v.func) if isinstance(v.func, (ast.Name, ast.Attribute)) else None
            if not ((r or "").split(".")[0] in ("numpy", "torch", "jax") or isinstance(v.func, ast.Attribute)):
                continue
            n += 1
            guards = [a for a in m.module.ancestors(st) if isinstance(a, ast.If) and m.module.enclosing_function(a) is m.node
                      and any(st is y for b_ in a.body for y in ast.walk(b_))]  # the test holds in the body only, not in the else / elif branches
            scalar_only = False
            for g in guards:
                t = g.test
                if isinstance(t, ast.Call) and isinstance(t.func, ast.Name) and t.func.id == "isinstance" and len(t.args) == 2 and norm(t.args[0]) == p:
                    classes = [refs.resolve(e) for e in (t.args[1].elts if isinstance(t.args[1], ast.Tuple) else [t.args[1]])]
                    if classes and all(cn in ("numpy.generic", "numpy.number", "numbers.Number", "builtins.float", "builtins.int") for cn in classes):
                        scalar_only = True
            construct = f"{m.fq}::{norm(st)[:60]}"
            if scalar_only:
                col.ok(construct, "only numpy scalars (values without an identity of their own) are converted; arrays are handed on as received. (A Tensor built from a numpy "
                       "scalar is a new term on every call - documented in the source, not decided here.)", m.loc(st))
            else:
                col.violation(construct, f"`{p}` is replaced by `{norm(v)[:50]}` before the term is looked up: the call may return a new array, and arrays are keyed by identity, so "
                              "two requests with the same array (a transposed / strided view is enough) give two different terms and the stored data is not the array passed in", m.loc(st))
    col.cur.analysed["metaclass_argument_rewrites"] = n
    if n == 0:
        raise AnalysisError("no metaclass __call__ that rewrites an array argument found (anchor: TensorMeta.__call__)")
