"""C08 - normal forms and contraction-order optimisation preserve value (structural clauses only)."""
from __future__ import annotations

from typing import Optional

from ..catalogue import Catalogue
from ..model import Program
from ..report import Collector
from . import algebra
from .common import Refs

EXPLANATION = (
    "Structural clauses behind 'normalise / unfold / optimise / einsum evaluate to the naive value': R08.1 (= R01.4) a reduction over a "
    "variable some operand does not mention compensates with the power of the reduction op, for every semiring; R08.2 (= R02.3) the "
    "optimizer's re-bracketing and the unfold pass's distribution are guarded by a DISTRIBUTIVE_OPS test of the pair they rely on; "
    "R08.3 the eager tensor-contraction rules choose their einsum backend from the table whose backends implement the semiring of "
    "the rule's own pattern; R08.4 apply_optimizer runs unfold then optimize, the latter layered over the caller's interpretation; "
    "R08.5 unit elimination (R02.1). NOT decided: greedy-path bookkeeping, alignment of named dimensions, idempotence of normalize."
    ' Added since: R08.6 push-down guard; R08.7 same-op branch; R08.8 scope extrusion under a freshness test; R08.9 the (logaddexp, add) kernels are NaN-free and exact at -inf (special-value abstract interpretation); R08.10 operand multiplicity; R08.11 absent reduced variables in tensor kernels; R08.12 exact occurrence counts.'
)
ASSUMPTIONS = ["funsorlint/axioms.py", "op tables truthful (C15)", "opt_einsum.paths.greedy returns a valid pairwise contraction path"]
RULE_TEXT = "one obligation per (site, op) pair, per guarded rewrite, per backend-selecting rule"


def run(prog: Program, col: Collector, tier: str, refs: Optional[Refs] = None, cat: Optional[Catalogue] = None):
    refs = refs or Refs(prog)
    cat = cat or Catalogue(prog, refs)
    algebra.r_power(prog, col, refs, cat, "R08.1")
    algebra.r_distributive_guards(prog, col, refs, cat, "R08.2")
    algebra.r_einsum_backend(prog, col, refs, cat, "R08.3")
    algebra.r_apply_optimizer(prog, col, refs, cat, "R08.4")
    algebra.r_unit_elimination(prog, col, refs, cat, "R08.5")
    algebra.r_pushdown(prog, col, refs, cat, "R08.6")
    algebra.r_same_op(prog, col, refs, cat, "R08.7")
    algebra.r_scope_extrusion(prog, col, refs, cat, "R08.8")
    # the (logaddexp, add) semiring with -inf weights: its sum and the log-space einsum kernel must be exact at -inf and NaN-free
    from . import numerics
    numerics.run(prog, col, refs, cat, rule_log="R08.9", rule_safe=None)
    algebra.r_operand_multiplicity(prog, col, refs, cat, "R08.10")
    algebra.r_absent_vars_kernel(prog, col, refs, cat, "R08.11")
    algebra.r_exact_counts(prog, col, refs, cat, "R08.12")
    algebra.r_size_product_over_sequence(prog, col, refs, cat, "R08.13")
    # the normalize rule that pushes a substitution into the operands of a contraction (every transformed form passes through it)
    col.rule("R08.14", "a substitution pushed into the operands of a contraction reaches every operand that mentions a key", floor=2)
    from . import c04
    c04._quantified_guards(prog, col, refs, cat, c04._subs_collections(prog, refs, cat))
    algebra.r_reduce_rules_keep_absent_vars(prog, col, refs, cat, "R08.15")
    algebra.r_contraction_rules_cover_reduced_vars(prog, col, refs, cat, "R08.16")
    algebra.r_contraction_result_reduces(prog, col, refs, cat, "R08.17")
    algebra.r_nested_fusion_same_red_op(prog, col, refs, cat, "R08.18")
    algebra.r_receiver_narrowed_reduce(prog, col, refs, cat, "R08.19")
    algebra.r_split_reduced_vars_accounted(prog, col, refs, cat, "R08.20")
    from . import algebra as _algebra2
    _algebra2.r_guarded_reduce_has_alternative(prog, col, refs, cat, "R08.21")
    from . import algebra as _alg3, c15 as _c15
    _alg3.r_units_and_distributive_tables(prog, col, refs, cat, "R08.22", "R08.23")
    col.rule("R08.24", "mixed scalar/array registrations of a commutative op are mirror images (naive evaluation of op(constant, tensor) runs them)", floor=6)
    _c15._mirror(prog, col, refs, cat)
    return col
