"""C09 - plated sum-product equals brute-force unrolling (structural clauses only).

The property as a whole is a value equality over runtime factor-graph topologies and is NOT decided.  The plated elimination is
implemented three times (partial_sum_product and its dynamic / modified variants) around one bookkeeping scheme; what is decided
is that the siblings agree on the steps of that scheme, plus the pairing of every product-reduction over plates with the plate
scale.  Nothing of the repository is executed.
"""
from __future__ import annotations

import ast
from typing import Dict, List, Optional

from .. import axioms
from ..catalogue import Catalogue
from ..model import AnalysisError, Func, Program, norm
from ..report import Collector
from .common import Refs, require_func, walk_no_nested

SIBLINGS = ("funsor.sum_product::partial_sum_product", "funsor.sum_product::dynamic_partial_sum_product", "funsor.sum_product::modified_partial_sum_product")

EXPLANATION = (
    "Structural clauses of C09, decided on the three sibling implementations of plated elimination. R09.1: the ordinal of a "
    "variable is the INTERSECTION of the plate sets of the factors that mention it (var_to_ordinal.get(var, ordinal) & ordinal), in "
    "every sibling and in the pedantic pre-check. R09.2: elimination is leaf-first - the next ordinal is a longest one "
    "(max(ordinal_to_factors, key=len)). R09.3: after a group is summed, the ordinal it continues at is the UNION of the ordinals of "
    "the variables that remain (frozenset().union(*(var_to_ordinal[v] ...))); the plates product-reduced are exactly leaf minus that "
    "union (minus the markov plates in the variants). R09.4: wherever a function that takes plate_to_scale product-reduces a factor "
    "over plates, the very next step raises the result to the scales of the same plate set (the same set expression inside the "
    "`if plate_to_scale:` block) before the factor is stored. R09.5: sum_product folds the partial results with prod_op starting from "
    "Number(UNITS[prod_op]) and forwards every argument to partial_sum_product."
    ' R09.10: a front end of funsor.einsum that delegates to a sibling with **kwargs has not, on any CFG path to the call, already popped a key (backend, plates) that the sibling reads from its own kwargs (typestate of the kwargs mapping).'
)
ASSUMPTIONS = ["the connected-component partition (_partition), the time-shifted Markov branch and the einsum front end are not decided",
               "value equality with the unrolled graph is not decided"]
RULE_TEXT = "one obligation per sibling and clause; one per product-reduction over plates"


def _sib(prog: Program) -> List[Func]:
    out = []
    for fq in SIBLINGS:
        f = prog.funcs.get(fq)
        if f is None:
            raise AnalysisError(f"anchor {fq} not found")
        out.append(f)
    return out


def _roles(f: Func):
    """the bookkeeping variables of one sibling, found by role (not by name)"""
    r = {}
    whiles = [w for w in walk_no_nested(f.node) if isinstance(w, ast.While) and isinstance(w.test, ast.Name)]
    for w in whiles:
        X = w.test.id
        if any(isinstance(st, ast.Assign) and len(st.targets) == 1 and norm(st.targets[0]) == X and isinstance(st.value, ast.Call) and norm(st.value.func).endswith("defaultdict")
               for st in walk_no_nested(f.node)):
            r["otf"], r["while"] = X, w
    if "otf" not in r:
        return r
    X, w = r["otf"], r["while"]
    for st in w.body:
        if isinstance(st, ast.Assign) and len(st.targets) == 1 and isinstance(st.targets[0], ast.Name) and any(isinstance(y, ast.Name) and y.id == X for y in ast.walk(st.value)):
            r["leaf"], r["leaf_stmt"] = st.targets[0].id, st
            break
    # the ordinal map: D[var] = ... inside `for var in <..>.intersection(<f>.inputs)` before the while
    for st in walk_no_nested(f.node):
        if isinstance(st, ast.Assign) and len(st.targets) == 1 and isinstance(st.targets[0], ast.Subscript) and isinstance(st.targets[0].value, ast.Name) and st.lineno < w.lineno:
            loops = [a_ for a_ in f.module.ancestors(st) if isinstance(a_, ast.For)]
            if loops and isinstance(loops[0].iter, ast.Call) and isinstance(loops[0].iter.func, ast.Attribute) and loops[0].iter.func.attr == "intersection" \
                    and norm(st.targets[0].slice) == norm(loops[0].target) and st.targets[0].value.id != X:
                r["v2o"], r["v2o_stmt"] = st.targets[0].value.id, st
                outer = loops[-1]
                for st2 in outer.body:
                    if isinstance(st2, ast.Assign) and len(st2.targets) == 1 and isinstance(st2.targets[0], ast.Name) and isinstance(st2.value, ast.Call) \
                            and isinstance(st2.value.func, ast.Attribute) and st2.value.func.attr == "intersection":
                        r["ordinal"] = st2.targets[0].id
    # the re-queue: X[K].append(F) inside the while
    for c in ast.walk(w):
        if isinstance(c, ast.Call) and isinstance(c.func, ast.Attribute) and c.func.attr == "append" and isinstance(c.func.value, ast.Subscript) and norm(c.func.value.value) == X \
                and isinstance(c.func.value.slice, ast.Name) and c.args and isinstance(c.args[0], ast.Name):
            K = c.func.value.slice.id
            kd = sorted([st for st in ast.walk(w) if isinstance(st, ast.Assign) and len(st.targets) == 1 and norm(st.targets[0]) == K], key=lambda s_: s_.lineno)
            if kd:
                r["requeue_key"], r["requeue_defs"], r["requeue_call"], r["requeued"] = K, kd, c, c.args[0].id
    return r


def _union_of_ordinals(e: ast.AST, v2o: str):
    """True: the union over ALL members of some collection R of v2o[member]; False: positively something else (a max / min / first
    element / intersection); None: not recognised.  Returns (verdict, R)"""
    def comp_over(g):
        if isinstance(g, (ast.GeneratorExp, ast.ListComp, ast.SetComp)) and len(g.generators) == 1 and not g.generators[0].ifs and isinstance(g.generators[0].target, ast.Name) \
                and isinstance(g.elt, ast.Subscript) and norm(g.elt.value) == v2o and norm(g.elt.slice) == g.generators[0].target.id:
            return norm(g.generators[0].iter)
        return None
    if isinstance(e, ast.Call) and isinstance(e.func, ast.Attribute) and e.func.attr == "union" and len(e.args) == 1 and isinstance(e.args[0], ast.Starred):
        R = comp_over(e.args[0].value)
        if R is not None and norm(e.func.value) in ("frozenset()", "set()"):
            return True, R
    if isinstance(e, ast.Call) and norm(e.func).endswith("reduce") and len(e.args) >= 2 and norm(e.args[0]).rsplit(".", 1)[-1] in ("or_", "union"):
        R = comp_over(e.args[1])
        if R is not None:
            return True, R
    if isinstance(e, ast.Call) and isinstance(e.func, ast.Name) and e.func.id in ("max", "min", "next", "sorted") and any(
            isinstance(y, ast.Subscript) and norm(y.value) == v2o for y in ast.walk(e)):
        return False, None
    if isinstance(e, ast.Call) and isinstance(e.func, ast.Attribute) and e.func.attr == "intersection" and any(isinstance(y, ast.Subscript) and norm(y.value) == v2o for y in ast.walk(e)):
        return False, None
    if isinstance(e, ast.Subscript) and norm(e.value) == v2o:
        return False, None
    return None, None


def _kwargs_handed_on_whole(prog: Program, col: Collector, refs: Refs):
    """The einsum front ends choose the semiring from `kwargs.pop("backend", <default>)`.  A front end that delegates to a sibling with
    `**kwargs` AFTER it has popped a key the sibling pops too hands on a mapping without that key: the sibling silently falls back to its
    default (the (add, mul) semiring).  Typestate of the kwargs mapping along the statement CFG."""
    from ..cfg import CFG
    col.rule("R09.10", "a front end that delegates with **kwargs has not already consumed a key (backend, plates) the delegate reads from its own kwargs", floor=1)
    mod = prog.modules.get("funsor.einsum")
    if mod is None:
        raise AnalysisError("module funsor.einsum not found")
    funcs = [f for f in prog.functions_in(mod) if not isinstance(f.node, ast.Lambda) and f.node.args.kwarg is not None]

    def pops(f):
        kw = f.node.args.kwarg.arg
        out = {}
        for st in walk_no_nested(f.node):
            if isinstance(st, ast.stmt):
                for c in ast.walk(st):
                    if isinstance(c, ast.Call) and isinstance(c.func, ast.Attribute) and c.func.attr in ("pop", "get") and isinstance(c.func.value, ast.Name) and c.func.value.id == kw \
                            and c.args and isinstance(c.args[0], ast.Constant) and isinstance(c.args[0].value, str):
                        out.setdefault(c.args[0].value, []).append((st, c.func.attr))
        return out

    by_name = {f.name: f for f in funcs}
    n = 0
    for f in funcs:
        kw = f.node.args.kwarg.arg
        mine = pops(f)
        g_cfg = None
        for st in walk_no_nested(f.node):
            if not isinstance(st, ast.stmt) or isinstance(st, (ast.If, ast.For, ast.While, ast.With, ast.Try)):
                continue
            for c in ast.walk(st):
                if not (isinstance(c, ast.Call) and any(k.arg is None and isinstance(k.value, ast.Name) and k.value.id == kw for k in c.keywords)):
                    continue
                callee = by_name.get(norm(c.func).rsplit(".", 1)[-1])
                if callee is None:
                    continue
                n += 1
                theirs = pops(callee)
                explicit = {k.arg for k in c.keywords if k.arg}
                construct = f"{f.fq}::{norm(c)[:50]}"
                lost = []
                for key in theirs:
                    if key in explicit:
                        continue
                    for pst, how in mine.get(key, []):
                        if how != "pop":
                            continue
                        if g_cfg is None:
                            g_cfg = CFG(f.node)
                        a, b = g_cfg.nodes_for(pst), g_cfg.nodes_for(st)
                        if not a or not b:
                            continue
                        if any(True for _ in g_cfg.paths(a[0], b, limit=1)) and pst is not st:
                            lost.append((key, pst))
                if lost:
                    key, pst = lost[0]
                    col.violation(construct, f"`{kw}.pop({key!r}, …)` at line {pst.lineno} removes the key before `{norm(c)[:40]}` hands `**{kw}` on, and `{callee.name}` reads {key!r} from its "
                                  f"own kwargs: it falls back to its default - for 'backend' the (add, mul) semiring - so a log-space or max-plus einsum is evaluated as a plain sum-product", f.loc(st))
                else:
                    col.ok(construct, f"every key `{callee.name}` reads ({sorted(theirs)}) is still in `{kw}` or passed explicitly", f.loc(st))
    col.cur.analysed["delegating_calls"] = n


def run(prog: Program, col: Collector, tier: str, refs: Optional[Refs] = None, cat: Optional[Catalogue] = None):
    refs = refs or Refs(prog)
    cat = cat or Catalogue(prog, refs)
    sibs = _sib(prog)
    roles = {f.fq: _roles(f) for f in sibs}
    snapshot = {}
    for f in sibs:
        if "otf" not in roles[f.fq]:
            # the pending ordinals are consumed by a `for` over (a copy / sorted view of) the map although factors are re-queued into it
            for st in walk_no_nested(f.node):
                if isinstance(st, ast.Assign) and len(st.targets) == 1 and isinstance(st.targets[0], ast.Name) and isinstance(st.value, ast.Call) and norm(st.value.func).endswith("defaultdict"):
                    X = st.targets[0].id
                    for lp in walk_no_nested(f.node):
                        if isinstance(lp, ast.For) and any(isinstance(y, ast.Name) and y.id == X for y in ast.walk(lp.iter)) and any(
                                isinstance(c, ast.Call) and isinstance(c.func, ast.Attribute) and c.func.attr == "append" and isinstance(c.func.value, ast.Subscript)
                                and norm(c.func.value.value) == X for c in ast.walk(lp)):
                            snapshot[f.fq] = (lp, X)
    sibs_ok = [f for f in sibs if f.fq not in snapshot]
    if snapshot:
        col.rule("R09.2", "elimination is leaf-first: the next ordinal is a longest one", floor=1)
        for fq, (lp, X) in snapshot.items():
            col.violation(f"{fq}::for {norm(lp.target)} in {norm(lp.iter)[:40]}", f"the pending ordinals are visited by a `for` over `{norm(lp.iter)[:40]}` - a snapshot of `{X}` taken "
                          f"before the loop - while factors are re-queued into `{X}` inside the loop: an ordinal that first appears through a re-queue (a summed group continuing at the "
                          "union of its remaining variables' ordinals) is never eliminated, and one emptied meanwhile is visited again; the loop has to ask for the longest PENDING "
                          "ordinal each time", prog.funcs[fq].loc(lp))
        sibs = sibs_ok
    for f in sibs:
        missing = [k for k in ("otf", "leaf", "v2o", "ordinal", "requeue_key") if k not in roles[f.fq]]
        if missing:
            raise AnalysisError(f"{f.fq}: bookkeeping roles {missing} not found (while-loop over a defaultdict of factors by ordinal, ordinal map filled per variable, re-queue)")

    # ---------------------------------------------------------------- R09.1
    col.rule("R09.1", "the ordinal of a variable is the intersection of the plate sets of the factors that mention it", floor=3)
    for f in sibs:
        r = roles[f.fq]
        st = r["v2o_stmt"]
        v, D, o, key = st.value, r["v2o"], r["ordinal"], norm(st.targets[0].slice)
        construct = f"{f.fq}::{norm(st)[:70]}"
        prev = f"{D}.get({key}, {o})"
        if isinstance(v, ast.BinOp) and isinstance(v.op, ast.BitAnd) and {norm(v.left), norm(v.right)} == {prev, o}:
            col.ok(construct, "accumulated with & starting from the first factor's ordinal", f.loc(st))
        elif isinstance(v, ast.Call) and isinstance(v.func, ast.Attribute) and v.func.attr == "intersection" and {norm(v.func.value)} | {norm(a_) for a_ in v.args} == {prev, o}:
            col.ok(construct, "accumulated with .intersection starting from the first factor's ordinal", f.loc(st))
        elif (isinstance(v, ast.BinOp) and isinstance(v.op, ast.BitOr)) or (isinstance(v, ast.Call) and isinstance(v.func, ast.Attribute) and v.func.attr == "union") \
                or norm(v) == o or (isinstance(v, ast.Call) and isinstance(v.func, ast.Name) and v.func.id in ("min", "max")):
            col.violation(construct, f"`{norm(v)[:60]}`: the ordinal of a variable must be the INTERSECTION of the ordinals of all factors that mention it; a union, the last factor's "
                          "ordinal or the smallest / largest of them places the variable in plates it does not live in (sibling plates f(a,i), g(a,j): a lives in neither), and it is "
                          "replicated or summed at the wrong level", f.loc(st))
        else:
            col.unresolved(construct, "accumulation of the ordinal not recognised", f.loc(st))

    # ---------------------------------------------------------------- R09.2
    if not snapshot:
        col.rule("R09.2", "elimination is leaf-first: the next ordinal is a longest one", floor=3)
    for f in sibs:
        r = roles[f.fq]
        st, X = r["leaf_stmt"], r["otf"]
        v = st.value
        construct = f"{f.fq}::{norm(st)[:60]}"
        coll_ok = lambda e: norm(e) in (X, f"{X}.keys()", f"list({X})", f"tuple({X})")
        if isinstance(v, ast.Call) and isinstance(v.func, ast.Name) and v.func.id == "max" and len(v.args) == 1 and coll_ok(v.args[0]) \
                and any(k.arg == "key" and norm(k.value) == "len" for k in v.keywords):
            col.ok(construct, "a longest ordinal (max ... key=len)", f.loc(st))
        elif isinstance(v, ast.Call) and isinstance(v.func, ast.Name) and v.func.id in ("min", "next") or (isinstance(v, ast.Call) and isinstance(v.func, ast.Attribute)
                                                                                                       and v.func.attr in ("popitem", "pop")):
            col.violation(construct, f"`{norm(v)[:50]}` does not pick a deepest ordinal: a plate may be product-reduced while factors inside it (a superset ordinal) are still waiting, "
                          "so they are multiplied in after the product over the plate was taken", f.loc(st))
        elif isinstance(v, ast.Call) and isinstance(v.func, ast.Name) and v.func.id == "max" and not any(k.arg == "key" and norm(k.value) == "len" for k in v.keywords):
            col.violation(construct, f"`{norm(v)[:50]}` orders the ordinals by something else than their number of plates: the maximum of frozensets under < is not a deepest ordinal", f.loc(st))
        else:
            col.unresolved(construct, "choice of the next ordinal not recognised", f.loc(st))

    # ---------------------------------------------------------------- R09.3
    col.rule("R09.3", "a summed group continues at the union of the ordinals of its remaining variables; exactly the other plates of the leaf are product-reduced", floor=6)
    for f in sibs:
        r = roles[f.fq]
        first = r["requeue_defs"][0]
        K, leaf, D = r["requeue_key"], r["leaf"], r["v2o"]
        verdict, R = _union_of_ordinals(first.value, D)
        construct = f"{f.fq}::{norm(first)[:60]}"
        if verdict is True:
            col.ok(construct, f"the union of {D}[v] over all of `{R}`", f.loc(first))
        elif verdict is False:
            col.violation(construct, f"`{norm(first.value)[:70]}`: the remaining variables may live in different (nested or disjoint) ordinals and the group has to continue at the "
                          "UNION of all of them - picking one (the innermost, the first) product-reduces a plate that another remaining variable still lives in", f.loc(first))
        else:
            col.unresolved(construct, "definition of the ordinal the group continues at not recognised", f.loc(first))
        # the product-reduction of the re-queued factor: leaf - K (minus plates that are handled as markov steps)
        F = r["requeued"]
        call = r["requeue_call"]
        defs = {}
        for st in ast.walk(r["while"]):
            if isinstance(st, ast.Assign) and len(st.targets) == 1 and isinstance(st.targets[0], ast.Name):
                defs.setdefault(st.targets[0].id, []).append(st)
        reds = [st for st in defs.get(F, []) if isinstance(st.value, ast.Call) and isinstance(st.value.func, ast.Attribute) and st.value.func.attr == "reduce" and len(st.value.args) == 2
                and st.lineno < call.lineno and st.lineno > first.lineno and norm(st.value.func.value) == F]
        construct = f"{f.fq}::plates reduced before re-queueing at {K}"
        if not reds:
            col.violation(construct, f"`{F}` is re-queued at `{K}` without being product-reduced over the plates of `{leaf}` that `{K}` no longer contains", f.loc(call))
            continue
        e = reds[-1].value.args[1]
        if isinstance(e, ast.Name) and len(defs.get(e.id, [])) == 1:
            e = defs[e.id][0].value
        # leaf - K [- M]
        terms = []
        cur = e
        while isinstance(cur, ast.BinOp) and isinstance(cur.op, ast.Sub):
            terms.append(norm(cur.right))
            cur = cur.left
        base = norm(cur)
        col.check(base == leaf and K in terms, construct, f"{F}.reduce(prod_op, {leaf} - {K}{' - ...' if len(terms) > 1 else ''})",
                  f"the factor re-queued at `{K}` is product-reduced over `{norm(e)[:50]}`, not over the plates of `{leaf}` that `{K}` no longer contains: a plate is either multiplied "
                  "out twice or never", f.loc(reds[-1]))

    # ---------------------------------------------------------------- R09.4
    col.rule("R09.4", "every product-reduction over plates in a function with plate scales is followed by the scale of the same plates", floor=2)
    n4 = 0
    n4b = 0
    for f in prog.functions_in(prog.modules["funsor.sum_product"]):
        if "plate_to_scale" not in f.params or isinstance(f.node, ast.Lambda) or f.name == "sum_product":
            continue
        for st in walk_no_nested(f.node):
            calls = [c for c in ast.walk(st) if isinstance(c, ast.Call) and isinstance(c.func, ast.Attribute) and c.func.attr == "reduce" and len(c.args) == 2
                     and norm(c.args[0]) == "prod_op"] if isinstance(st, (ast.Assign, ast.Expr, ast.Return)) else []
            for c in calls:
                plates = norm(c.args[1])
                # the single plate picked as the smallest one (`min(...)[-1]`) in the real-variable branch: that branch re-queues substituted
                # copies which are scaled with their leaf later
                a1 = c.args[1]
                if isinstance(a1, ast.Name):
                    ds = [d for d in walk_no_nested(f.node) if isinstance(d, ast.Assign) and len(d.targets) == 1 and norm(d.targets[0]) == a1.id]
                    if ds and all(isinstance(d.value, ast.Subscript) and isinstance(d.value.value, ast.Call) and norm(d.value.value.func) == "min" for d in ds):
                        continue
                n4 += 1
                par = f.module.parent.get(st)
                blk = None
                for fld in ("body", "orelse", "finalbody"):
                    b = getattr(par, fld, None)
                    if isinstance(b, list) and any(x is st for x in b):
                        blk = b
                nxt = None
                if blk is not None:
                    k = [i for i, x in enumerate(blk) if x is st][0]
                    nxt = blk[k + 1] if k + 1 < len(blk) else None
                tgt = norm(st.targets[0]) if isinstance(st, ast.Assign) and len(st.targets) == 1 else None
                ok = False
                if tgt is not None and isinstance(nxt, ast.If) and norm(nxt.test) == "plate_to_scale":
                    iters = [norm(g.iter) for x in ast.walk(nxt) if isinstance(x, (ast.ListComp, ast.GeneratorExp)) for g in x.generators]
                    pows = [x for x in ast.walk(nxt) if isinstance(x, ast.Call) and norm(x.func) == "pow_op" and x.args and norm(x.args[0]) == tgt]
                    ok = plates in iters and bool(pows)
                    # several plates are reduced at once: the factor is raised to the PRODUCT of their scales ((f^a)^b = f^(a*b))
                    folds = [x for x in ast.walk(nxt) if isinstance(x, ast.Call) and norm(x.func).rsplit(".", 1)[-1] == "reduce" and len(x.args) >= 2
                             and not isinstance(x.func, ast.Attribute) or (isinstance(x, ast.Call) and norm(x.func) == "functools.reduce" and len(x.args) >= 2)]
                    for fo in folds:
                        n4b += 1
                        col.check((refs.resolve(fo.args[0]) or norm(fo.args[0])).endswith("ops.mul") or norm(fo.args[0]) == "ops.mul", f"{f.fq}::{norm(fo)[:50]}",
                                  "the scales of the plates reduced together are multiplied",
                                  f"`{norm(fo)[:50]}` combines the scales of several plates with `{norm(fo.args[0])}`: a factor product-reduced over plates of scales a and b is "
                                  "(f^a)^b = f^(a*b), so the scales multiply (with scales 2 and 3 the exponent is 6, not 5)", f.loc(fo))
                col.check(ok, f"{f.fq}::{norm(c)[:60]}", f"followed by `if plate_to_scale:` raising `{tgt}` to the scales of `{plates}`",
                          f"`{norm(c)[:60]}` product-reduces over the plates `{plates}` and the result is "
                          + ("stored / returned directly" if tgt is None else "not raised to the scales of those plates in the next step")
                          + ": a sub-sampled plate (plate_to_scale) then contributes the product over the observed indices only, not its scale-th power", f.loc(c))
    col.cur.analysed["product_reductions_over_plates"] = n4
    col.cur.analysed["folds_of_plate_scales"] = n4b
    # no separate floor for the folds: a scale block that is missing altogether is reported by the pairing clause above

    # ---------------------------------------------------------------- R09.5
    col.rule("R09.5", "sum_product multiplies the partial results starting from the unit of prod_op and forwards all its arguments", floor=2)
    sp = require_func(prog, "funsor.sum_product::sum_product")
    calls = [c for c in walk_no_nested(sp.node) if isinstance(c, ast.Call) and (refs.resolve(c.func) or "").endswith("partial_sum_product")]
    names = [a.id for c in calls for a in c.args if isinstance(a, ast.Name)] + [k.value.id for c in calls for k in c.keywords if isinstance(k.value, ast.Name)]
    missing = [p for p in sp.params if p not in names]
    col.check(len(calls) == 1 and not missing, f"{sp.fq}::forwarding", "every parameter is handed to partial_sum_product",
              f"sum_product does not forward {missing} to partial_sum_product", sp.loc())
    rets = [r for r in walk_no_nested(sp.node) if isinstance(r, ast.Return) and r.value is not None]
    ok = False
    for r in rets:
        v = r.value
        if isinstance(v, ast.Call) and (refs.resolve(v.func) or norm(v.func)).endswith("reduce") and len(v.args) == 3 and norm(v.args[0]) == "prod_op":
            init = v.args[2]
            ok = isinstance(init, ast.Call) and (refs.resolve(init.func) or "").endswith("Number") and init.args and isinstance(init.args[0], ast.Subscript) \
                and norm(init.args[0].value).endswith("UNITS") and norm(init.args[0].slice) == "prod_op"
    col.check(ok, f"{sp.fq}::fold", "reduce(prod_op, factors, Number(UNITS[prod_op]))",
              "the partial results are not folded with prod_op from Number(UNITS[prod_op]): with no factors left (everything eliminated into nothing) the result must be the unit of the "
              "product", sp.loc(rets[0]) if rets else sp.loc())
    # ---------------------------------------------------------------- R09.9 factors are counted with repetition
    col.rule("R09.9", "no mapping or set is keyed by the factors themselves (the same factor may occur several times in a product)", floor=0)
    n9 = 0
    for f in prog.functions_in(prog.modules["funsor.sum_product"]):
        if isinstance(f.node, ast.Lambda):
            continue
        seqs = {p_ for p_ in f.params if any(isinstance(lp, (ast.For, ast.comprehension)) and isinstance(lp.iter, ast.Name) and lp.iter.id == p_ for lp in ast.walk(f.node))}
        # ... whose elements are terms: `.inputs` of the loop variable is read
        term_seqs = set()
        for lp in ast.walk(f.node):
            if isinstance(lp, (ast.For, ast.comprehension)) and isinstance(lp.iter, ast.Name) and lp.iter.id in seqs and isinstance(lp.target, ast.Name):
                scope = lp if isinstance(lp, ast.For) else f.module.parent.get(lp)
                if any(isinstance(y, ast.Attribute) and y.attr in ("inputs", "input_vars") and isinstance(y.value, ast.Name) and y.value.id == lp.target.id for y in ast.walk(scope)):
                    term_seqs.add(lp.iter.id)
        # parameters whose elements are terms, however they are walked (`for i, t in enumerate(P)`, `P[i].inputs`)
        term_params = set(term_seqs)
        for lp in ast.walk(f.node):
            if isinstance(lp, (ast.For, ast.comprehension)) and isinstance(lp.iter, ast.Call) and norm(lp.iter.func) == "enumerate" and lp.iter.args \
                    and isinstance(lp.iter.args[0], ast.Name) and lp.iter.args[0].id in f.params and isinstance(lp.target, ast.Tuple) and len(lp.target.elts) == 2 \
                    and isinstance(lp.target.elts[1], ast.Name):
                scope = lp if isinstance(lp, ast.For) else f.module.parent.get(lp)
                if any(isinstance(y, ast.Attribute) and y.attr in ("inputs", "input_vars") and isinstance(y.value, ast.Name) and y.value.id == lp.target.elts[1].id for y in ast.walk(scope)):
                    term_params.add(lp.iter.args[0].id)
        for d in ast.walk(f.node):
            keyed = None
            if isinstance(d, (ast.DictComp, ast.SetComp)) and isinstance(d.generators[0].iter, ast.Name) and d.generators[0].iter.id in term_seqs and isinstance(d.generators[0].target, ast.Name):
                key = d.key if isinstance(d, ast.DictComp) else d.elt
                if isinstance(key, ast.Name) and key.id == d.generators[0].target.id:
                    keyed = d
            if isinstance(d, ast.Call) and norm(d.func).rsplit(".", 1)[-1] in ("OrderedDict", "dict") and d.args and isinstance(d.args[0], (ast.ListComp, ast.GeneratorExp)):
                g = d.args[0]
                if isinstance(g.generators[0].iter, ast.Name) and g.generators[0].iter.id in term_seqs and isinstance(g.generators[0].target, ast.Name) \
                        and isinstance(g.elt, ast.Tuple) and g.elt.elts and isinstance(g.elt.elts[0], ast.Name) and g.elt.elts[0].id == g.generators[0].target.id:
                    keyed = d
            if isinstance(d, ast.Call) and isinstance(d.func, ast.Attribute) and d.func.attr == "fromkeys" and d.args and isinstance(d.args[0], ast.Name) and d.args[0].id in term_seqs:
                keyed = d
            # a set / frozenset / dict built from elements of a term sequence (`set(terms[v] for v in …)`, `{t for t in terms}`)
            if isinstance(d, ast.Call) and norm(d.func) in ("set", "frozenset", "dict", "OrderedDict", "dict.fromkeys", "OrderedDict.fromkeys") and d.args \
                    and isinstance(d.args[0], (ast.ListComp, ast.GeneratorExp, ast.SetComp)):
                g = d.args[0]
                el = g.elt.elts[0] if isinstance(g.elt, ast.Tuple) and g.elt.elts else g.elt
                if isinstance(el, ast.Subscript) and isinstance(el.value, ast.Name) and el.value.id in term_params:
                    keyed = d
                if isinstance(el, ast.Name) and any(isinstance(gg.iter, ast.Name) and gg.iter.id in term_params and isinstance(gg.target, ast.Name) and gg.target.id == el.id for gg in g.generators):
                    keyed = d
            if isinstance(d, ast.SetComp) and isinstance(d.elt, ast.Subscript) and isinstance(d.elt.value, ast.Name) and d.elt.value.id in term_params:
                keyed = d
            if keyed is not None:
                n9 += 1
                col.violation(f"{f.fq}::{norm(keyed)[:60]}", f"`{norm(keyed)[:60]}` is keyed by the factors themselves: terms are interned, so a factor that occurs twice in the list is one "
                              "key and its second occurrence drops out of the product (sum_product([f, f, g]) returns the value for [f, g]); positions have to be the keys", f.loc(keyed))
    col.cur.analysed["mappings_keyed_by_factors"] = n9

    # ---------------------------------------------------------------- prerequisites shared from other properties: what a plate product normalises /
    # evaluates to (C08 R08.7: the red_op-is-bin_op branch reduces every operand over ALL plates, so an operand that does not mention
    # the plate is raised to its size) and the (logaddexp, add) kernels of the einsum route (C15 R15.8)
    _kwargs_handed_on_whole(prog, col, refs)
    from . import algebra, numerics
    algebra.r_same_op(prog, col, refs, cat, "R09.6")
    algebra.r_receiver_narrowed_reduce(prog, col, refs, cat, "R09.7")
    numerics.run(prog, col, refs, cat, rule_log="R09.8", rule_safe=None)
    return col
