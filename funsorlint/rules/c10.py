"""C10 - Markov products equal the explicit left-to-right fold over time (structural / integer clauses only).

The property as a whole is a value equality over runtime durations, segment counts and lag sets and is NOT decided.  Decided is
the index arithmetic of the two scan drivers, read off the code and evaluated by the analyser's own integer evaluator on a grid
of durations / segment counts: which time steps each Slice selects, that together they cover every step exactly once and in
order, that the pieces that are multiplied are neighbours in time with the earlier one handing its `curr` to the later one's
`prev`, and that the declared sizes of the re-indexed time variables match the number of steps they index.  Nothing of the
repository is executed.
"""
from __future__ import annotations

import ast
from typing import Dict, List, Optional

from ..catalogue import Catalogue
from ..model import AnalysisError, Func, Program, norm
from ..report import Collector
from .common import Refs, require_func, walk_no_nested

EXPLANATION = (
    "Integer clauses of C10. R10.1 (sequential_sum_product, the parallel scan): for every duration 2..16 the two strided Slices of one "
    "halving step select the even and the odd steps below the even duration, pair step 2k with step 2k+1, the left piece is "
    "substituted with curr->drop and the right piece with prev->drop, the odd tail is the single last step and is concatenated AFTER "
    "the contracted pairs, all steps are covered exactly once, and the new duration equals the number of pieces. R10.2 "
    "(mixed_sequential_sum_product): for every duration 1..12 and segment count 1..duration the remainder split covers [0, D - D % S) "
    "and [D - D % S, D), the recursive call and the final fold declare time variables of sizes D - D % S and 1 + D % S, the S segments "
    "[i * L, (i + 1) * L) with L = D // S tile [0, S * L), and the two stages declare sizes L and S. R10.3: the result of a scan is the "
    "transition evaluated at time 0 of the last round (trans(time=0)), and the naive variant folds the time steps in increasing order."
    ' R10.6 (= C02 R02.11): the log-space einsum kernels at -inf. R10.7: the prev->drop and curr->drop renamings zip the keys and the values of ONE mapping in its own order. R10.8 (= C08 R08.12): the pairwise recursion of cnf.py sums a variable inside a pair only if exactly two operands mention it. R10.1 also requires the odd-tail guard to be an integer condition on the duration only.'
)
ASSUMPTIONS = ["Slice(name, start, stop, step, dtype) selects range(start, stop, step); Cat concatenates its parts in order",
               "sarkka_bilmes_product (lags), MarkovProduct and the value of each contraction are not decided"]
RULE_TEXT = "one obligation per index clause, each evaluated on the whole grid"


def _slice_calls(f: Func, refs: Refs, node=None):
    out = []
    for c in ast.walk(node or f.node):
        if isinstance(c, ast.Call) and (refs.resolve(c.func) or "").endswith("terms.Slice") and len(c.args) >= 3:
            out.append(c)
    return sorted(out, key=lambda c: (c.lineno, c.col_offset))


def _ev(e, env):
    from .kernels import _eval_int
    return _eval_int(e, env)


def _rng(c: ast.Call, env):
    a, b = _ev(c.args[1], env), _ev(c.args[2], env)
    s = _ev(c.args[3], env) if len(c.args) >= 4 else 1
    return list(range(a, b, s))


def _enclosing_call_kwargs(f: Func, c: ast.Call):
    """for trans(**{time: Slice(...)}, **M): the names of the other ** mappings"""
    cur = c
    while cur is not None and not (isinstance(cur, ast.Call) and cur is not c and any(k.arg is None for k in cur.keywords)):
        cur = f.module.parent.get(cur)
    if cur is None:
        return None, []
    return cur, [norm(k.value) for k in cur.keywords if k.arg is None and not any(y is c for y in ast.walk(k.value))]


def _parallel_scan(prog: Program, col: Collector, refs: Refs):
    from .c04 import _NoEval
    f = require_func(prog, "funsor.sum_product::sequential_sum_product")
    loops = [w for w in walk_no_nested(f.node) if isinstance(w, ast.While)]
    if len(loops) != 1:
        raise AnalysisError("sequential_sum_product: expected one while loop (the halving rounds)")
    w = loops[0]
    # the duration variable: the name compared in the loop test
    dname = next((y.id for y in ast.walk(w.test) if isinstance(y, ast.Name)), None)
    slices = _slice_calls(f, refs, w)
    strided = [c for c in slices if len(c.args) >= 4 and norm(c.args[3]) != "1"]
    tails = [c for c in slices if c not in strided]
    construct = f"{f.fq}::halving round"
    if len(strided) != 2 or len(tails) != 1 or dname is None:
        col.unresolved(construct, f"expected two strided Slices and one tail Slice in the loop, found {len(strided)} / {len(tails)}", f.loc(w))
        return
    # roles of the ** mappings: which one renames curr, which one prev (built by zip(step.values(), ..) / zip(step.keys(), ..))
    maps = {}
    for st in walk_no_nested(f.node):
        if isinstance(st, ast.Assign) and len(st.targets) == 1 and isinstance(st.targets[0], ast.Name) and isinstance(st.value, ast.Call) and norm(st.value.func) == "dict" \
                and st.value.args and isinstance(st.value.args[0], ast.Call) and norm(st.value.args[0].func) == "zip" and st.value.args[0].args:
            src = norm(st.value.args[0].args[0])
            if src.endswith(".values()"):
                maps[st.targets[0].id] = "curr"
            elif src.endswith(".keys()"):
                maps[st.targets[0].id] = "prev"
    assigns = sorted([st for st in ast.walk(w) if isinstance(st, ast.Assign) and len(st.targets) == 1 and isinstance(st.targets[0], ast.Name)], key=lambda s: s.lineno)
    upd = [st for st in assigns if st.targets[0].id == dname]
    cat_calls = [c for c in ast.walk(w) if isinstance(c, ast.Call) and (refs.resolve(c.func) or "").endswith("terms.Cat") and len(c.args) >= 2 and isinstance(c.args[1], ast.Tuple)]
    tail_if = next((a for a in f.module.ancestors(tails[0]) if isinstance(a, ast.If)), None)
    bad = None
    tried = 0
    # the guard of the odd tail is an integer condition on the duration; any further conjunct that is not one (`and time in trans.inputs`)
    # drops the last time step whenever it is false - the step exists whatever the transition depends on
    tail_test = tail_if.test if tail_if is not None else None
    if tail_test is not None and isinstance(tail_test, ast.BoolOp) and isinstance(tail_test.op, ast.And):
        int_atoms, other = [], []
        env5 = {dname: 5}
        for st in assigns:
            if upd and st is upd[0]:
                break
            try:
                env5[st.targets[0].id] = _ev(st.value, env5)
            except _NoEval:
                pass
        for at in tail_test.values:
            try:
                _ev(at, env5)
                int_atoms.append(at)
            except Exception:
                other.append(at)
        if other and int_atoms and not tail_if.orelse:
            col.violation(construct + "::odd tail", f"the last step of an odd round is appended only when `{norm(other[0])}` also holds: where it does not, that time step is silently dropped from "
                          "the product (a transition that does not depend on time still has `duration` steps), and nothing else handles the case", f.loc(tail_if))
            tail_test = int_atoms[0] if len(int_atoms) == 1 else ast.BoolOp(op=ast.And(), values=int_atoms)
    try:
        for D in range(2, 17):
            env = {dname: D}
            for st in assigns:
                if st is upd[0] if upd else False:
                    break
                try:
                    env[st.targets[0].id] = _ev(st.value, env)
                except _NoEval:
                    pass
            r0, r1 = _rng(strided[0], env), _rng(strided[1], env)
            lo, hi = (r0, r1) if (r0[:1] or [0]) <= (r1[:1] or [0]) else (r1, r0)
            lo_call, hi_call = (strided[0], strided[1]) if lo is r0 else (strided[1], strided[0])
            has_tail = bool(_ev(tail_test, env)) if tail_test is not None else True
            tail = _rng(tails[0], env) if has_tail else []
            tried += 1
            problems = []
            if len(lo) != len(hi) or any(h != l + 1 for l, h in zip(lo, hi)):
                problems.append(f"the two strided pieces select {lo} and {hi}: step 2k is not paired with step 2k+1")
            if sorted(lo + hi + tail) != list(range(D)):
                problems.append(f"the pieces select {sorted(lo + hi + tail)}, not every step 0..{D - 1} exactly once")
            if tail and (len(tail) != 1 or tail[0] != D - 1):
                problems.append(f"the odd tail is {tail}, not the last step")
            if upd:
                newD = _ev(upd[0].value, env)
                if newD != len(lo) + len(tail):
                    problems.append(f"the next round is declared to have {newD} steps but has {len(lo) + len(tail)}")
            if problems and bad is None:
                bad = (D, problems[0])
        # which piece hands over curr / prev
        _, lo_maps = _enclosing_call_kwargs(f, lo_call)
        _, hi_maps = _enclosing_call_kwargs(f, hi_call)
        lo_role = {maps.get(m) for m in lo_maps}
        hi_role = {maps.get(m) for m in hi_maps}
        if bad is None and not (lo_role == {"curr"} and hi_role == {"prev"}):
            bad = (None, f"the earlier piece (steps 0, 2, ...) is substituted with {sorted(lo_maps)} and the later one (steps 1, 3, ...) with {sorted(hi_maps)}: the earlier step's "
                         "`curr` has to meet the later step's `prev` (curr->drop on the left factor, prev->drop on the right one)")
        # the tail is concatenated after the contracted pairs
        if bad is None and cat_calls:
            parts = [norm(x) for x in cat_calls[0].args[1].elts]
            tail_name = next((st.targets[0].id for st in assigns if any(y is tails[0] for y in ast.walk(st.value))), None)
            if tail_name is not None and parts and parts[-1] != tail_name:
                bad = (None, f"Cat(..., ({', '.join(parts)})) puts the last time step `{tail_name}` in front of the contracted pairs: the fold over time is no longer left to right")
    except _NoEval as ex:
        col.unresolved(construct, f"index expressions not evaluated ({ex})", f.loc(w))
        return
    col.check(bad is None, construct, f"pairs (2k, 2k+1), odd tail last, every step once, sizes consistent - durations 2..16 ({tried} rounds evaluated)",
              (f"for duration {bad[0]}: " if bad and bad[0] is not None else "") + (bad[1] if bad else ""), f.loc(w))
    # R10.3 part: the result is the last round at time 0
    rets = [r for r in walk_no_nested(f.node) if isinstance(r, ast.Return) and r.value is not None]
    ok = len(rets) == 1 and isinstance(rets[0].value, ast.Call) and any(k.arg is None and isinstance(k.value, ast.Dict) and len(k.value.values) == 1 and norm(k.value.values[0]) == "0"
                                                                         for k in rets[0].value.keywords)
    col.check(ok, f"{f.fq}::result", "the scan returns the remaining single step: trans(time=0)",
              "the scan does not return the transition at time 0 of the last round", f.loc(rets[0]) if rets else f.loc())


def _segments(prog: Program, col: Collector, refs: Refs):
    from .c04 import _NoEval
    f = require_func(prog, "funsor.sum_product::mixed_sequential_sum_product")
    slices = _slice_calls(f, refs)
    construct = f"{f.fq}::segments"
    bints = [s for s in ast.walk(f.node) if isinstance(s, ast.Subscript) and norm(s.value).endswith("Bint")]
    if len(slices) != 3 or len(bints) != 4:
        col.unresolved(construct, f"expected 3 Slices (remainder, initial, segment) and 4 declared sizes, found {len(slices)} / {len(bints)}", f.loc())
        return
    bints = sorted(bints, key=lambda s: (s.lineno, s.col_offset))
    # the remainder branch is the `if` that contains two of the slices
    rem_if = next((a for a in walk_no_nested(f.node) if isinstance(a, ast.If) and sum(1 for c in slices if any(y is c for y in ast.walk(a))) == 2), None)
    seg_slice = next((c for c in slices if rem_if is None or not any(y is c for y in ast.walk(rem_if))), None)
    seg_comp = next((g for g in ast.walk(f.node) if isinstance(g, (ast.ListComp, ast.GeneratorExp)) and any(y is seg_slice for y in ast.walk(g))), None)
    if rem_if is None or seg_slice is None or seg_comp is None:
        col.unresolved(construct, "remainder branch / segment comprehension not found", f.loc())
        return
    rem_slices = [c for c in slices if any(y is c for y in ast.walk(rem_if))]
    # the duration local: bound to <time>.output.size (possibly inside a tuple assignment); the segment count is a parameter
    dvar = None
    for st in walk_no_nested(f.node):
        if isinstance(st, ast.Assign) and len(st.targets) == 1:
            tg, vl = st.targets[0], st.value
            pairs = list(zip(tg.elts, vl.elts)) if isinstance(tg, ast.Tuple) and isinstance(vl, ast.Tuple) and len(tg.elts) == len(vl.elts) else [(tg, vl)]
            for a_, b_ in pairs:
                if isinstance(a_, ast.Name) and norm(b_).endswith(".output.size"):
                    dvar = a_.id
    svar = f.positional[5] if len(f.positional) > 5 else "num_segments"
    if dvar is None:
        col.unresolved(construct, "the duration local (bound to <time>.output.size) not found", f.loc())
        return
    assigns = sorted([st for st in walk_no_nested(f.node) if isinstance(st, ast.Assign) and len(st.targets) == 1 and isinstance(st.targets[0], ast.Name)], key=lambda s: s.lineno)
    ivar = seg_comp.generators[0].target.id if isinstance(seg_comp.generators[0].target, ast.Name) else None
    bad = None
    tried = 0
    try:
        for D in range(1, 13):
            for S in range(1, D + 1):
                env = {dvar: D, svar: S}
                tried += 1
                # conjuncts of the test that are not arithmetic on the duration and the segment count (a test on `trans`, say) may be
                # false: the branch is then skipped, and the path below has to tile all D steps by itself
                conj = rem_if.test.values if isinstance(rem_if.test, ast.BoolOp) and isinstance(rem_if.test.op, ast.And) else [rem_if.test]
                known, opaque = [], []
                for cj in conj:
                    try:
                        known.append(bool(_ev(cj, env)))
                    except _NoEval:
                        opaque.append(cj)
                if opaque and all(known) and D % S and 1 < S < D:
                    bad = bad or (D, S, f"the uneven split is skipped whenever `{norm(opaque[0])[:40]}` is false, and the {S} segments of {D // S} steps below cover "
                                        f"{S * (D // S)} of the {D} steps: the last {D % S} transition(s) drop out of the product")
                    continue
                if opaque:
                    if not all(known):
                        pass  # the branch is not taken whatever the opaque conjunct says
                    taken = False
                else:
                    taken = all(known)
                if taken:
                    rs = sorted((_rng(c, env) for c in rem_slices), key=lambda r: (r[:1] or [D]))
                    cut = D - D % S
                    if rs[0] != list(range(0, cut)) or rs[1] != list(range(cut, D)):
                        bad = bad or (D, S, f"the uneven split selects {rs[0]} and {rs[1]}, not [0, {cut}) and [{cut}, {D})")
                    in_if = [b for b in bints if any(y is b for y in ast.walk(rem_if))]
                    sizes = [_ev(b.slice, env) for b in in_if]
                    if sorted(sizes) != sorted([cut, 1 + D % S]):
                        bad = bad or (D, S, f"the time variables of the uneven split are declared with sizes {sizes}, the pieces have {cut} and {1 + D % S} steps")
                    continue
                for st in assigns:
                    if st.lineno > rem_if.lineno:
                        try:
                            env[st.targets[0].id] = _ev(st.value, env)
                        except _NoEval:
                            pass
                n_it = _ev(seg_comp.generators[0].iter.args[0], env) if isinstance(seg_comp.generators[0].iter, ast.Call) and norm(seg_comp.generators[0].iter.func) == "range" else None
                if n_it is None or ivar is None:
                    raise _NoEval("segment loop")
                L = D // S
                segs = []
                for i in range(n_it):
                    env[ivar] = i
                    segs.append(_rng(seg_slice, env))
                flat = [x for sg in segs for x in sg]
                if S in (1,) or S >= D:
                    continue  # degenerate cases return before the segments are built
                if n_it != S or flat != list(range(S * L)) or any(len(sg) != L for sg in segs):
                    bad = bad or (D, S, f"the segments select {segs}: not {S} consecutive blocks of {L} steps tiling [0, {S * L})")
                out_if = [b for b in bints if not any(y is b for y in ast.walk(rem_if))]
                sizes = [_ev(b.slice, env) for b in out_if]
                if sizes != [L, S]:
                    bad = bad or (D, S, f"the two stages declare time variables of sizes {sizes}; the first stage runs over {L} steps per segment, the second over {S} segments")
    except _NoEval as ex:
        col.unresolved(construct, f"index expressions not evaluated ({ex})", f.loc())
        return
    col.check(bad is None, construct, f"uneven split, tiling by segments and declared sizes agree for durations 1..12 and every segment count ({tried} cases)",
              f"for duration {bad[0]} and {bad[1]} segments {bad[2]}" if bad else "", f.loc())


def _naive_order(prog: Program, col: Collector, refs: Refs):
    """The naive variant builds one factor per time step and folds neighbours: of the two factors it takes, the EARLIER step hands
    over its `curr` (curr->drop) and the LATER one its `prev` (prev->drop)."""
    f = require_func(prog, "funsor.sum_product::naive_sequential_sum_product")
    construct = f"{f.fq}::fold order"
    maps = {}
    for st in walk_no_nested(f.node):
        if isinstance(st, ast.Assign) and len(st.targets) == 1 and isinstance(st.targets[0], ast.Name) and isinstance(st.value, ast.Call) and norm(st.value.func) == "dict" \
                and st.value.args and isinstance(st.value.args[0], ast.Call) and norm(st.value.args[0].func) == "zip" and st.value.args[0].args:
            src = norm(st.value.args[0].args[0])
            maps[st.targets[0].id] = "curr" if src.endswith(".values()") else "prev" if src.endswith(".keys()") else None
    comps = [st for st in walk_no_nested(f.node) if isinstance(st, ast.Assign) and isinstance(st.value, ast.ListComp) and isinstance(st.value.generators[0].iter, ast.Call)
             and norm(st.value.generators[0].iter.func) in ("range", "reversed")]
    if len(comps) != 1:
        col.unresolved(construct, "the list of per-step factors not found", f.loc())
        return
    it = comps[0].value.generators[0].iter
    increasing = norm(it.func) == "range" and not (len(it.args) == 3 and norm(it.args[2]).startswith("-"))
    L = comps[0].targets[0].id
    pops = sorted([c for c in ast.walk(f.node) if isinstance(c, ast.Call) and isinstance(c.func, ast.Attribute) and c.func.attr == "pop" and norm(c.func.value) == L],
                  key=lambda c: (c.lineno, c.col_offset))
    if len(pops) != 2:
        col.unresolved(construct, f"expected two pops from `{L}` per fold step, found {len(pops)}", f.loc())
        return
    roles = []
    for p_ in pops:
        outer = f.module.parent.get(p_)
        mp = [norm(k.value) for k in outer.keywords if k.arg is None] if isinstance(outer, ast.Call) and outer.func is p_ else []
        roles.append(maps.get(mp[0]) if len(mp) == 1 else None)
    from_end = [not p_.args or norm(p_.args[0]) == "-1" for p_ in pops]
    if None in roles or from_end[0] != from_end[1]:
        col.unresolved(construct, "cannot tell which of the two popped factors is the earlier step", f.loc(pops[0]))
        return
    # popping from the end of an increasing list: the first pop is the LATER step
    first_is_later = (from_end[0] and increasing) or (not from_end[0] and not increasing)
    want = ["prev", "curr"] if first_is_later else ["curr", "prev"]
    col.check(roles == want, construct, "the later step is substituted with prev->drop, the earlier one with curr->drop",
              f"the factor of the {'later' if first_is_later else 'earlier'} time step is substituted with the {roles[0]}->drop map and the other one with {roles[1]}->drop: the fold multiplies "
              "neighbouring steps the wrong way round (the earlier step's `curr` must meet the later step's `prev`)", f.loc(pops[0]))


def _lagged(prog: Program, col: Collector, refs: Refs):
    """sarkka_bilmes_product: index arithmetic of the two branches, evaluated for durations 1..12 and periods 1..4.
    Chunked branch (duration a multiple of the period P): the P strided slices `Slice(time, t, …, P, …)` partition 0..D-1 into P
    classes of D // P steps each, factor t is shifted by P - t - 1, the block time variable has D // P steps.  Remainder branch
    (R = D % P > 0): the recursive call receives the LAST D - R steps under a time variable of that size; the first R steps are
    then folded in from right to left, step t shifted by R - t, and the result is shifted back by R (by R - 1 when there is no
    complete chunk and step R - 1 itself is the starting result)."""
    from .c04 import _NoEval
    f = require_func(prog, "funsor.sum_product::sarkka_bilmes_product")
    construct = f"{f.fq}::lag arithmetic"
    # roles: duration <- .size ; period <- int(reduce(...)) ; remaining / truncated: locals of the remainder branch
    dvar = pvar = None
    for st in walk_no_nested(f.node):
        if isinstance(st, ast.Assign) and len(st.targets) == 1 and isinstance(st.targets[0], ast.Name):
            if norm(st.value).endswith(".size") and dvar is None:
                dvar = st.targets[0].id
            if isinstance(st.value, ast.Call) and norm(st.value.func) == "int" and st.value.args and isinstance(st.value.args[0], ast.Call) and norm(st.value.args[0].func).endswith("reduce"):
                pvar = st.targets[0].id
    rem_if = next((a for a in f.body if isinstance(a, ast.If) and isinstance(a.test, ast.Compare) and any(isinstance(y, ast.BinOp) and isinstance(y.op, ast.Mod) for y in ast.walk(a.test))), None)
    if dvar is None or pvar is None or rem_if is None:
        col.unresolved(construct, "duration / period locals or the remainder branch not found", f.loc())
        return
    slices = _slice_calls(f, refs)
    chunk_slices = [c for c in slices if not any(y is c for y in ast.walk(rem_if))]
    rem_slices = [c for c in slices if any(y is c for y in ast.walk(rem_if))]
    chunk_loop = next((lp for lp in f.body if isinstance(lp, ast.For) and any(any(y is c for y in ast.walk(lp)) for c in chunk_slices)), None)
    bints = sorted([sub for sub in ast.walk(f.node) if isinstance(sub, ast.Subscript) and norm(sub.value).endswith("Bint")], key=lambda x_: x_.lineno)
    shifts = [c for c in ast.walk(f.node) if isinstance(c, ast.Call) and norm(c.func).endswith("_shift_funsor") and len(c.args) >= 2]
    renames = [c for c in ast.walk(f.node) if isinstance(c, ast.Call) and norm(c.func).endswith("_shift_name") and len(c.args) == 2]
    if len(chunk_slices) != 1 or len(rem_slices) != 1 or chunk_loop is None or len(bints) != 2:
        col.unresolved(construct, f"expected one strided Slice in a loop over the period, one Slice and two declared sizes; found {len(chunk_slices)}/{len(rem_slices)}/{len(bints)}", f.loc())
        return
    tvar = chunk_loop.target.id if isinstance(chunk_loop.target, ast.Name) else None
    rem_assigns = sorted([st for st in ast.walk(rem_if) if isinstance(st, (ast.Assign, ast.AugAssign))], key=lambda s_: s_.lineno)
    rem_loop = next((lp for lp in rem_if.body if isinstance(lp, ast.For)), None)
    inner_if = next((a for a in rem_if.body if isinstance(a, ast.If)), None)
    bad = None
    tried = 0
    try:
        for D in range(1, 13):
            for P in range(1, 5):
                env = {dvar: D, pvar: P}
                tried += 1
                if not _ev(rem_if.test, env):
                    # chunked branch
                    n_it = _ev(chunk_loop.iter.args[0], env) if isinstance(chunk_loop.iter, ast.Call) and norm(chunk_loop.iter.func) == "range" and len(chunk_loop.iter.args) == 1 else None
                    if n_it != P:
                        bad = bad or (D, P, f"the loop over the chunk positions runs {n_it} times, not {P}")
                        continue
                    classes, shs = [], []
                    sh_call = next((c for c in shifts if any(y is c for y in ast.walk(chunk_loop))), None)
                    for t in range(P):
                        env[tvar] = t
                        classes.append(_rng(chunk_slices[0], env))
                        if sh_call is not None:
                            shs.append(_ev(sh_call.args[1], env))
                    flat = sorted(x for cl in classes for x in cl)
                    if flat != list(range(D)) or any(len(cl) != D // P for cl in classes) or any(cl != list(range(t, D, P)) for t, cl in enumerate(classes)):
                        bad = bad or (D, P, f"the strided slices select {classes}: not the {P} residue classes of 0..{D - 1}, {D // P} steps each")
                    if shs and shs != [P - t - 1 for t in range(P)]:
                        bad = bad or (D, P, f"the factors are shifted by {shs}, not by period - t - 1 = {[P - t - 1 for t in range(P)]}")
                    sz = _ev(bints[-1].slice, env)
                    if sz != D // P:
                        bad = bad or (D, P, f"the block time variable is declared with {sz} steps, the blocks have {D // P}")
                else:
                    R, T = D % P, D - D % P
                    for st in rem_assigns:
                        if st.lineno < (inner_if.lineno if inner_if is not None else rem_if.lineno + 1000) and isinstance(st, ast.Assign) and isinstance(st.targets[0], ast.Name):
                            try:
                                env[st.targets[0].id] = _ev(st.value, env)
                            except _NoEval:
                                pass
                    if inner_if is None:
                        raise _NoEval("remainder branch shape")
                    taken_body = bool(_ev(inner_if.test, env))
                    branch = inner_if.body if taken_body else inner_if.orelse
                    no_chunk = T == 0
                    # the branch taken when there is no complete chunk is the one WITHOUT the recursive Slice
                    has_slice = any(any(y is rem_slices[0] for y in ast.walk(st_)) for st_ in branch)
                    if has_slice == no_chunk:
                        bad = bad or (D, P, "the branch for 'no complete chunk' is taken exactly when there IS one (or the reverse)")
                    start_step = None
                    for st in branch:  # in program order
                        if isinstance(st, ast.AugAssign) and isinstance(st.target, ast.Name):
                            env[st.target.id] = _ev(ast.BinOp(left=ast.Name(id=st.target.id, ctx=ast.Load()), op=st.op, right=st.value), env)
                        elif isinstance(st, ast.Assign) and len(st.targets) == 1 and isinstance(st.targets[0], ast.Name):
                            v_ = st.value
                            if isinstance(v_, ast.Call) and any(k.arg is None and isinstance(k.value, ast.Dict) and len(k.value.values) == 1 for k in v_.keywords) \
                                    and not any(y is rem_slices[0] for y in ast.walk(v_)):
                                dct = next(k.value for k in v_.keywords if k.arg is None and isinstance(k.value, ast.Dict))
                                start_step = _ev(dct.values[0], env)
                            else:
                                try:
                                    env[st.targets[0].id] = _ev(v_, env)
                                except _NoEval:
                                    pass
                    if no_chunk and start_step is not None and start_step != D - 1:
                        bad = bad or (D, P, f"with no complete chunk the fold starts from step {start_step}, not from the last step {D - 1}")
                    if not no_chunk:
                        sel = _rng(rem_slices[0], env)
                        if sel != list(range(R, D)):
                            bad = bad or (D, P, f"the recursive call receives steps {sel}, not the last {T} steps {list(range(R, D))}")
                        sz = _ev(bints[0].slice, env)
                        if sz != T:
                            bad = bad or (D, P, f"the truncated time variable is declared with {sz} steps, the truncated factor has {T}")
                    # the sequential tail
                    if rem_loop is None:
                        raise _NoEval("remainder loop")
                    it = rem_loop.iter
                    rev = isinstance(it, ast.Call) and norm(it.func) == "reversed"
                    inner = it.args[0] if rev else it
                    n_rem = _ev(inner.args[0], env) if isinstance(inner, ast.Call) and norm(inner.func) == "range" and len(inner.args) == 1 else None
                    want_n = R - 1 if no_chunk else R
                    if n_rem != want_n or not rev:
                        bad = bad or (D, P, f"the remaining steps are folded over {'reversed ' if rev else ''}range({n_rem}); the {want_n} steps before the "
                                             f"{'starting step' if no_chunk else 'truncated part'} have to be folded from right to left")
                    sh_call = next((c for c in shifts if any(y is c for y in ast.walk(rem_loop))), None)
                    lv = rem_loop.target.id if isinstance(rem_loop.target, ast.Name) else None
                    if sh_call is not None and lv is not None and n_rem is not None:
                        for t in range(n_rem):
                            env[lv] = t
                            if _ev(sh_call.args[1], env) != n_rem - t:
                                bad = bad or (D, P, f"step {t} of the remainder is shifted by {_ev(sh_call.args[1], env)}, not by {n_rem - t}")
                    back = [c for c in renames if any(y is c for y in ast.walk(rem_if)) and not any(y is c for y in ast.walk(rem_loop))]
                    if back and n_rem is not None:
                        v = _ev(back[-1].args[1], env)
                        if v != -n_rem:
                            bad = bad or (D, P, f"the result is shifted back by {v}, not by {-n_rem}")
    except _NoEval as ex:
        col.unresolved(construct, f"index expressions not evaluated ({ex})", f.loc())
        return
    col.check(bad is None, construct, f"residue classes, shifts, declared sizes and the remainder fold agree for durations 1..12, periods 1..4 ({tried} cases)",
              f"for duration {bad[0]} and period {bad[1]}: {bad[2]}" if bad else "", f.loc())


def _markov_product_rule(prog: Program, col: Collector, refs: Refs, cat):
    """eager_markov_product without state pairs: the product over the time steps is `trans.reduce(prod_op, time)` when the transition
    mentions time, and otherwise the n-fold power of the PRODUCT op (add: times n, mul: to the n-th power) - read off PRODUCT_TO_POWER
    semantics by the analyser's own algebra; with state pairs it is the scan with exactly those pairs."""
    from .. import axioms
    f = require_func(prog, "funsor.sum_product::eager_markov_product")
    sum_p, prod_p, trans, time, step = f.positional[:5]
    n = 0
    for node in ast.walk(f.node):
        if not isinstance(node, ast.If):
            continue
        t, neg = node.test, False
        while isinstance(t, ast.UnaryOp) and isinstance(t.op, ast.Not):
            t, neg = t.operand, not neg
        if isinstance(t, ast.Compare) and len(t.ops) == 1 and isinstance(t.ops[0], (ast.IsNot, ast.NotIn)):
            t = ast.Compare(left=t.left, ops=[ast.Is() if isinstance(t.ops[0], ast.IsNot) else ast.In()], comparators=t.comparators)
            neg = not neg
        holds = node.orelse if neg else node.body
        if isinstance(t, ast.Compare) and len(t.ops) == 1 and isinstance(t.ops[0], ast.Is) and norm(t.left) == prod_p:
            o = cat.resolve_op(f.module, t.comparators[0]) if isinstance(t.comparators[0], (ast.Name, ast.Attribute)) else None
            ab = axioms.identify(cat, o) if o is not None else None
            vals = [st.value for st in holds if isinstance(st, (ast.Assign, ast.Return)) and st.value is not None]
            construct = f"{f.fq}::{norm(t)}"
            if ab not in ("ADD", "MUL") or not vals:
                col.unresolved(construct, "branch of the absent-time compensation not recognised", f.loc(node))
                continue
            n += 1
            v = vals[0]
            want = ast.Mult if ab == "ADD" else ast.Pow
            size_ok = isinstance(v, ast.BinOp) and norm(v.left) == trans and norm(v.right) in (f"{time}.size", f"{time}.output.size", f"{time}.output.dtype")
            col.check(size_ok and isinstance(v.op, want), construct, f"the {ab.lower()}-product over n steps of a time-independent transition is trans {'*' if ab == 'ADD' else '**'} n",
                      f"`{norm(v)[:40]}`: when the transition does not mention time, the product over the n time steps under `{norm(t.comparators[0])}` is "
                      f"trans {'*' if ab == 'ADD' else '**'} {time}.size", f.loc(node))
        if isinstance(t, ast.Compare) and len(t.ops) == 1 and isinstance(t.ops[0], ast.In) and norm(t.left) == f"{time}.name" and norm(t.comparators[0]) == f"{trans}.inputs":
            vals = [st.value for st in holds if isinstance(st, (ast.Assign, ast.Return)) and st.value is not None]
            n += 1
            ok = bool(vals) and isinstance(vals[0], ast.Call) and isinstance(vals[0].func, ast.Attribute) and vals[0].func.attr == "reduce" and norm(vals[0].func.value) == trans \
                and len(vals[0].args) == 2 and norm(vals[0].args[0]) == prod_p and norm(vals[0].args[1]) in (f"{time}.name", time)
            col.check(ok, f"{f.fq}::{norm(t)}", f"{trans}.reduce({prod_p}, {time}.name)",
                      f"without state pairs the Markov product over time is the plain product `{trans}.reduce({prod_p}, {time}.name)`, not `{norm(vals[0])[:50] if vals else '?'}`", f.loc(node))
    scans = [c for c in ast.walk(f.node) if isinstance(c, ast.Call) and (refs.resolve(c.func) or "").endswith("sequential_sum_product")]
    for c in scans:
        n += 1
        args = [norm(a) for a in c.args]
        ok = args[:4] == [sum_p, prod_p, trans, time] and len(args) == 5 and step in args[4]
        col.check(ok, f"{f.fq}::{norm(c)[:50]}", "the scan receives (sum_op, prod_op, trans, time, the state pairs)",
                  f"the scan is called with {args}: the semiring ops, the transition, the time variable and the state pairs have to be handed on in their roles", f.loc(c))
    col.cur.analysed["markov_rule_sites"] = n


def _drop_maps_share_an_order(prog: Program, col: Collector, refs: Refs):
    """A state pair (prev, curr) is contracted by renaming `curr` of the earlier factor and `prev` of the later factor to the same
    auxiliary name.  The two renamings are built by zipping the previous names and the current names with one tuple of auxiliary names;
    the i-th previous and the i-th current name belong to the same pair only when both sequences come from one ordering of the pairs."""
    for f in prog.funcs.values():
        if isinstance(f.node, ast.Lambda) or f.module.name != "funsor.sum_product":
            continue
        zips = []
        for st in walk_no_nested(f.node):
            if isinstance(st, ast.Assign) and len(st.targets) == 1 and isinstance(st.targets[0], ast.Name) and isinstance(st.value, ast.Call) and norm(st.value.func) in ("dict", "OrderedDict") \
                    and st.value.args and isinstance(st.value.args[0], ast.Call) and norm(st.value.args[0].func) == "zip" and len(st.value.args[0].args) == 2:
                zips.append(st)
        by_aux = {}
        for st in zips:
            by_aux.setdefault(norm(st.value.args[0].args[1]), []).append(st)
        for aux, sts in by_aux.items():
            if len(sts) != 2:
                continue
            sts = sorted(sts, key=lambda s_: s_.lineno)

            def side(e):
                # ("keys" | "values", mapping name, ordered?)  or None
                if isinstance(e, ast.Call) and isinstance(e.func, ast.Attribute) and e.func.attr in ("keys", "values") and isinstance(e.func.value, ast.Name) and not e.args:
                    return e.func.attr, e.func.value.id, "mapping order"
                if isinstance(e, ast.Name):
                    return "keys", e.id, "mapping order"
                if isinstance(e, ast.Call) and isinstance(e.func, ast.Name) and e.func.id in ("sorted", "reversed", "set", "frozenset") and len(e.args) >= 1:
                    inner = side(e.args[0])
                    if inner is not None:
                        return inner[0], inner[1], e.func.id
                if isinstance(e, (ast.ListComp, ast.GeneratorExp)) and len(e.generators) == 1 and isinstance(e.generators[0].target, ast.Tuple) and len(e.generators[0].target.elts) == 2 \
                        and isinstance(e.elt, ast.Name) and not e.generators[0].ifs:
                    k_, v_ = (norm(x) for x in e.generators[0].target.elts)
                    which = "keys" if e.elt.id == k_ else "values" if e.elt.id == v_ else None
                    if which:
                        it = norm(e.generators[0].iter)
                        return which, it[:-len(".items()")] if it.endswith(".items()") else it, "mapping order"
                return None

            a, b = side(sts[0].value.args[0].args[0]), side(sts[1].value.args[0].args[0])
            construct = f"{f.fq}::{norm(sts[0].targets[0])} / {norm(sts[1].targets[0])}"
            if a is None or b is None:
                col.unresolved(construct, f"`{norm(sts[0].value)[:40]}` / `{norm(sts[1].value)[:40]}` not recognised", f.loc(sts[0]))
            elif a[1] == b[1] and {a[0], b[0]} == {"keys", "values"} and a[2] == b[2] == "mapping order":
                col.ok(construct, f"keys and values of `{a[1]}` in its own order, zipped with `{aux}`", f.loc(sts[0]))
            elif {a[0], b[0]} == {"keys", "values"} and (a[2] != "mapping order" or b[2] != "mapping order"):
                col.violation(construct, f"the previous names are taken as `{norm(sts[0].value.args[0].args[0])}` and the current names as `{norm(sts[1].value.args[0].args[0])}`: each "
                              f"sequence is reordered on its own ({a[2]} / {b[2]}), so the i-th previous and the i-th current name need not belong to the same state pair "
                              "({'a_prev': 'y', 'b_prev': 'x'}): the current state of one pair is contracted against the previous state of another", f.loc(sts[0]))
            else:
                col.unresolved(construct, f"the two renamings are built from `{a[1]}` ({a[0]}) and `{b[1]}` ({b[0]})", f.loc(sts[0]))


def run(prog: Program, col: Collector, tier: str, refs: Optional[Refs] = None, cat: Optional[Catalogue] = None):
    refs = refs or Refs(prog)
    col.rule("R10.1", "parallel scan: pairs (2k, 2k+1), odd tail last, every step once, sizes consistent", floor=2)
    _parallel_scan(prog, col, refs)
    col.rule("R10.2", "segmented scan: uneven split, tiling by segments and declared sizes agree", floor=1)
    _segments(prog, col, refs)
    col.rule("R10.3", "the naive fold walks the time steps in increasing order", floor=1)
    _naive_order(prog, col, refs)
    col.rule("R10.4", "time-lagged product: residue classes, shifts, declared sizes and the remainder fold", floor=1)
    _lagged(prog, col, refs)
    col.rule("R10.5", "eager MarkovProduct: scan with the state pairs, plain product over time, or the n-fold power of the product op", floor=4)
    cat = cat or Catalogue(prog, refs)
    _markov_product_rule(prog, col, refs, cat)
    col.rule("R10.7", "the prev->drop and curr->drop renamings pair the i-th previous name and the i-th current name of ONE ordering of the state pairs", floor=2)
    _drop_maps_share_an_order(prog, col, refs)
    # R10.8: each halving round is a Contraction of two factors over the auxiliary names; with lazy factors it is evaluated by the pairwise
    # recursion of cnf.py, which sums a variable inside a pair only if exactly that pair mentions it (shared with C08 R08.12)
    from . import algebra
    algebra.r_exact_counts(prog, col, refs, cat, "R10.8")
    # R10.6: the scan contracts through the log-einsum kernels for the (logaddexp, add) semiring (shared with C02 R02.11 / C15 R15.8)
    from . import numerics
    numerics.run(prog, col, refs, cat, rule_log="R10.6", rule_safe=None)
    return col
