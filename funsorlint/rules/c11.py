"""C11 - adjoints are semiring derivatives of the forward value (structural clauses only)."""
from __future__ import annotations

import ast
from typing import Dict, List, Optional, Set

from ..catalogue import Catalogue
from ..cfg import CFG
from ..dataflow import Walker
from ..model import AnalysisError, Func, Program, norm
from ..report import Collector
from .common import Refs, require_func, walk_no_nested

EXPLANATION = (
    "Structural clauses of reverse-mode differentiation over a semiring. R11.1: every adjoint_ops registration has arity 3 + the "
    "constructor fields of the term class it transposes, and its rule takes that many parameters. R11.2: the tape records (result, "
    "cls, args) exactly for classes with an adjoint rule, the result being computed under the enclosing interpretation via `with`; the "
    "backward sweep consumes the tape with argument-less pop() (LIFO = reverse order); entering the tape resets it. R11.3: the additive "
    "seed `zero` is UNITS[<sum op parameter>], the multiplicative seed `one` is UNITS[<product op parameter>], missing adjoints default "
    "to zero, the root is seeded with one, contributions are accumulated with the sum op, and the plate rule divides with "
    "SAFE_BINARY_INVERSES[<product op>]. R11.4: in two-operand product rules the adjoint paired with operand x is the product of the "
    "incoming adjoint and the OTHER operand (never x itself); in sum rules both operands receive the incoming adjoint. R11.5: "
    "adjoint_cat slices [start, start + size_i) and advances start by that same size_i. NOT decided: numerical equality with the derivative."
    " Added since: R11.5 also checks the roles of Cat's two names; R11.6 Number/Tensor branches of Slice substitution agree; R11.7/R11.8 logaddexp/sample/logsumexp/log-einsum and the safe ops are exact at -inf / NaN-free (shared with C15)."
)
ASSUMPTIONS = ["op tables truthful (C15)", "term constructor fields as in the catalogue"]
RULE_TEXT = "one obligation per adjoint registration, per tape protocol clause, per seed/accumulator role, per returned (operand, adjoint) pair"


def run(prog: Program, col: Collector, tier: str, refs: Optional[Refs] = None, cat: Optional[Catalogue] = None):
    refs = refs or Refs(prog)
    cat = cat or Catalogue(prog, refs)
    reg = "funsor.adjoint.adjoint_ops"

    # ---------------------------------------------------------------- R11.1
    col.rule("R11.1", "adjoint registrations have the arity of the constructor they transpose", floor=8)
    adj_regs = [r for r in cat.registrations if r.registry == reg and r.method == "register"]
    for r in adj_regs:
        head = refs.resolve(r.pattern[0]) if r.pattern else None
        tc = cat.term_classes.get(head)
        construct = f"adjoint_ops.register({', '.join(norm(p) for p in r.pattern)})"
        if tc is None:
            col.unresolved(construct, "first pattern element is not a term class", r.loc)
            continue
        n = len(r.pattern) - 1 - 3
        nf = len(tc.fields)
        packs = tc.fq == "funsor.cnf.Contraction"
        ok_len = n == nf or (packs and n > nf)
        params = r.target.positional if r.target is not None else []
        ok_par = r.target is None or len(params) == len(r.pattern) - 1 or r.target.node.args.vararg is not None
        col.check(ok_len and ok_par, construct, f"3 + {nf} fields of {tc.name}; rule takes {len(params)} parameters",
                  f"pattern supplies {n} field types for {tc.name} (fields {tc.fields}) and the rule takes {len(params)} parameters: the rule can never be selected / applied", r.loc)
        # the three leading pattern elements are (sum op, product op, incoming adjoint)
        lead = [norm(p) for p in r.pattern[1:4]]
        col.check(lead[:2] == ["AssociativeOp", "AssociativeOp"] and lead[2] == "Funsor", construct + "::leading",
                  "leading pattern (AssociativeOp, AssociativeOp, Funsor) = (sum op, product op, incoming adjoint)",
                  f"leading pattern {lead} is not (sum op, product op, incoming adjoint)", r.loc, nontrivial=False)

    # ---------------------------------------------------------------- R11.2
    col.rule("R11.2", "tape discipline: record under the enclosing interpretation, consume LIFO, reset on entry", floor=4)
    ti = require_func(prog, "funsor.adjoint::AdjointTape.interpret")
    selfn, clsn = ti.positional[0], ti.positional[1]
    argv = ti.node.args.vararg.arg
    appends = [n for n in walk_no_nested(ti.node) if isinstance(n, ast.Call) and isinstance(n.func, ast.Attribute) and n.func.attr == "append" and norm(n.func.value) == f"{selfn}.tape"]
    ok = False
    why = "no tape append"
    if len(appends) == 1:
        a = appends[0]
        st = a
        while not isinstance(st, ast.stmt):
            st = ti.module.parent.get(st)
        from .common import guarding_branch
        gb = guarding_branch(ti.module, st)
        guard, gtest, gpos, gbranch = gb if gb else (None, None, None, [])
        g_ok = gb is not None and isinstance(gtest, ast.Compare) and norm(gtest.left) == clsn and refs.resolve(gtest.comparators[0]) == reg \
            and ((isinstance(gtest.ops[0], ast.In) and gpos) or (isinstance(gtest.ops[0], ast.NotIn) and not gpos))
        rec = a.args[0] if a.args else None
        rec_ok = isinstance(rec, ast.Tuple) and len(rec.elts) == 3 and norm(rec.elts[1]) == clsn and norm(rec.elts[2]) == argv and isinstance(rec.elts[0], ast.Name)
        res_ok = False
        if rec_ok and g_ok:
            rname = rec.elts[0].id
            for w in [n for n in gbranch if isinstance(n, ast.With)]:
                ctx = norm(w.items[0].context_expr)
                for s in w.body:
                    if isinstance(s, ast.Assign) and norm(s.targets[0]) == rname and isinstance(s.value, ast.Call) and norm(s.value.func) == clsn \
                            and len(s.value.args) == 1 and isinstance(s.value.args[0], ast.Starred) and norm(s.value.args[0].value) == argv and ctx == f"{selfn}._old_interpretation":
                        res_ok = True
        ok = g_ok and rec_ok and res_ok
        why = f"guard ok={g_ok}, record ok={rec_ok}, result computed under the enclosing interpretation={res_ok}"
    col.check(ok, f"{ti.fq}::record", "(result, cls, args) is recorded exactly when cls has an adjoint rule; result = cls(*args) under the enclosing interpretation",
              f"tape recording does not have the required shape ({why})", ti.loc())
    adj = require_func(prog, "funsor.adjoint::AdjointTape.adjoint")
    pops = [n for n in walk_no_nested(adj.node) if isinstance(n, ast.Call) and isinstance(n.func, ast.Attribute) and n.func.attr in ("pop", "popleft") and "tape" in norm(n.func.value)]
    loops = [n for n in walk_no_nested(adj.node) if isinstance(n, ast.While) and "tape" in norm(n.test)]
    iter_loops = [n for n in walk_no_nested(adj.node) if isinstance(n, ast.For) and "tape" in norm(n.iter)]
    if iter_loops:
        rev = all(isinstance(l.iter, ast.Call) and norm(l.iter.func) == "reversed" for l in iter_loops)
        col.check(rev, f"{adj.fq}::reverse sweep", "the tape is traversed in reverse", "the tape is traversed in recording order: adjoints are propagated before they are complete", adj.loc())
    else:
        ok = len(pops) == 1 and not pops[0].args and pops[0].func.attr == "pop" and bool(loops)
        col.check(ok, f"{adj.fq}::reverse sweep", "while tape: tape.pop() - last recorded first",
                  "the backward sweep does not consume the tape with an argument-less pop() (e.g. pop(0) / popleft): nodes are visited before all their consumers", adj.loc(pops[0]) if pops else adj.loc())
    en = prog.funcs.get("funsor.adjoint::AdjointTape.__enter__")
    ok = en is not None and any(isinstance(n, ast.Assign) and norm(n.targets[0]) == f"{en.positional[0]}.tape" and isinstance(n.value, ast.List) and not n.value.elts for n in en.body)
    col.check(ok, "funsor.adjoint::AdjointTape.__enter__::reset", "entering the context starts an empty tape", "the tape is not reset on entry: a re-used tape replays stale records", en.loc() if en else adj.loc())
    fb = require_func(prog, "funsor.adjoint::forward_backward")
    withs = [n for n in fb.body if isinstance(n, ast.With)]
    ok = len(withs) == 1 and isinstance(withs[0].items[0].context_expr, ast.Call) and refs.resolve(withs[0].items[0].context_expr.func) == "funsor.adjoint.AdjointTape"
    after = [n for n in fb.body if isinstance(n, ast.Assign) and isinstance(n.value, ast.Call) and isinstance(n.value.func, ast.Attribute) and n.value.func.attr == "adjoint"]
    ok = ok and bool(after) and after[0].lineno > withs[0].end_lineno and [norm(a) for a in after[0].value.args[:2]] == fb.positional[:2]
    col.check(ok, f"{fb.fq}::forward then backward", "the forward pass runs inside a fresh tape; the backward pass runs after it with the same (sum_op, bin_op)",
              "forward_backward does not run the backward sweep after the taped forward pass with the same ops", fb.loc())

    # ---------------------------------------------------------------- R11.3
    col.rule("R11.3", "seeds, default and accumulation use the table entry of the right role", floor=5)
    p = adj.positional  # self, sum_op, bin_op, root, ...
    sum_p, prod_p, root_p = p[1], p[2], p[3]
    defs: Dict[str, ast.AST] = {}
    for n in walk_no_nested(adj.node):
        if isinstance(n, ast.Assign) and len(n.targets) == 1 and isinstance(n.targets[0], ast.Name):
            defs.setdefault(n.targets[0].id, n.value)

    def units_key(e):
        for x in ast.walk(e):
            if isinstance(x, ast.Subscript) and refs.resolve(x.value) == "funsor.ops.op.UNITS":
                return norm(x.slice)
        return None

    seeds = {name: units_key(v) for name, v in defs.items() if units_key(v)}
    zero = [k for k, v in seeds.items() if v == sum_p]
    one = [k for k, v in seeds.items() if v == prod_p]
    col.check(len(zero) == 1 and len(one) == 1 and len(seeds) == 2, f"{adj.fq}::seeds", f"zero = UNITS[{sum_p}], one = UNITS[{prod_p}]",
              f"seeds are {seeds}: expected exactly the unit of the sum op `{sum_p}` (zero) and of the product op `{prod_p}` (one)", adj.loc())
    if zero and one:
        z, o = zero[0], one[0]
        dd = [v for v in defs.values() if isinstance(v, ast.Call) and norm(v.func) == "defaultdict"]
        ok = bool(dd) and all(isinstance(v.args[0], ast.Lambda) and norm(v.args[0].body) == z for v in dd)
        col.check(ok, f"{adj.fq}::default adjoint", "missing adjoints default to zero", f"the default adjoint is not `{z}` (the additive unit)", adj.loc())
        root_seed = [n for n in walk_no_nested(adj.node) if isinstance(n, ast.Assign) and isinstance(n.targets[0], ast.Subscript) and norm(n.targets[0].slice) == root_p]
        col.check(len(root_seed) == 1 and norm(root_seed[0].value) == o, f"{adj.fq}::root seed", "the root's adjoint is one",
                  f"the root is seeded with `{norm(root_seed[0].value) if root_seed else None}`, not with the multiplicative unit `{o}`", adj.loc())
    acc = [n for n in walk_no_nested(adj.node) if isinstance(n, ast.Assign) and isinstance(n.targets[0], ast.Subscript) and isinstance(n.value, ast.Call) and isinstance(n.value.func, ast.Name)
           and n.value.func.id in (sum_p, prod_p)]
    ok = bool(acc) and all(a.value.func.id == sum_p for a in acc) and all(
        any(isinstance(x, ast.Call) and isinstance(x.func, ast.Attribute) and x.func.attr == "reduce" and x.args and norm(x.args[0]) == sum_p for x in ast.walk(a.value)) for a in acc)
    col.check(ok, f"{adj.fq}::accumulation", "contributions are marginalised and accumulated with the sum op",
              "adjoint contributions are not accumulated as sum_op(old, new.reduce(sum_op, ...))", adj.loc())
    ar = require_func(prog, "funsor.adjoint::adjoint_reduce")
    inv = [n for n in walk_no_nested(ar.node) if isinstance(n, ast.Subscript) and (refs.resolve(n.value) or "").endswith("BINARY_INVERSES")]
    ok = bool(inv) and all(refs.resolve(n.value) == "funsor.ops.op.SAFE_BINARY_INVERSES" and norm(n.slice) == ar.positional[1] for n in inv)
    col.check(ok, f"{ar.fq}::plate division", "the plate rule divides with SAFE_BINARY_INVERSES[<product op>]",
              "the plate rule does not take its division from SAFE_BINARY_INVERSES[adj_prod_op]", ar.loc())
    # call into the registry passes (fn, sum_op, bin_op, adjoint_values[output], *inputs)
    calls = [n for n in walk_no_nested(adj.node) if isinstance(n, ast.Call) and refs.resolve(n.func) == reg]
    ok = bool(calls) and all(len(c.args) == 5 and norm(c.args[1]) == sum_p and norm(c.args[2]) == prod_p and isinstance(c.args[4], ast.Starred) for c in calls)
    col.check(ok, f"{adj.fq}::dispatch", "rules are invoked with (fn, sum_op, bin_op, incoming adjoint, *inputs)", "adjoint rules are invoked with the ops in the wrong roles", adj.loc())

    # ---------------------------------------------------------------- R11.4
    col.rule("R11.4", "the product rule pairs each operand with the OTHER operand", floor=4)
    for fq in ("funsor.adjoint::adjoint_binary", "funsor.adjoint::adjoint_contract"):
        f = require_func(prog, fq)
        _product_rule(col, f, refs)

    # ---------------------------------------------------------------- R11.5
    col.rule("R11.5", "adjoint_cat slices each part's own range", floor=2)
    ac = require_func(prog, "funsor.adjoint::adjoint_cat")
    loops = [n for n in walk_no_nested(ac.node) if isinstance(n, ast.For)]
    ok = False
    why = "no loop over parts"
    if loops:
        lp = loops[0]
        slices = [n for n in ast.walk(lp) if isinstance(n, ast.Call) and refs.resolve(n.func) == "funsor.terms.Slice"]
        incs = [n for n in ast.walk(lp) if isinstance(n, ast.AugAssign) and isinstance(n.op, ast.Add) and isinstance(n.target, ast.Name)]
        if slices and incs:
            s, inc = slices[0], incs[0]
            start = inc.target.id
            size_e = norm(inc.value)
            a = [norm(x) for x in s.args]
            ok = len(a) == 5 and a[1] == start and a[2] in (f"{start} + {size_e}", f"{size_e} + {start}") and a[3] == "1" and inc.lineno > s.lineno
            part = lp.target.elts[-1].id if isinstance(lp.target, ast.Tuple) else norm(lp.target)
            ok = ok and part in size_e
            why = f"Slice args {a}, increment `{norm(inc)}`"
        init = [n for n in walk_no_nested(ac.node) if isinstance(n, ast.Assign) and isinstance(n.targets[0], ast.Name) and incs and n.targets[0].id == incs[0].target.id]
        ok = ok and bool(init) and norm(init[0].value) == "0"
    col.check(ok, f"{ac.fq}::ranges", "part i receives out_adj[start_i : start_i + size_i] and start advances by size_i from 0",
              f"the slice bounds and the running offset do not use the same per-part size ({why})", ac.loc())
    # roles of the two names: Cat(name, parts, part_name) has the input `name`; each part has the input `part_name`.  The incoming
    # adjoint is indexed by `name`; the adjoint handed to a part must be indexed by `part_name`.
    cat_tc = cat.term_classes.get("funsor.terms.Cat")
    nfields = len(cat_tc.fields) if cat_tc else 3
    params = ac.positional
    if len(params) >= 3 + nfields and cat_tc and cat_tc.fields[:3] == ["name", "parts", "part_name"]:
        out_p, name_p, parts_p, pname_p = params[2], params[3], params[4], params[5]
        tests = [n.test for n in ac.body if isinstance(n, ast.If) and isinstance(n.test, ast.Compare) and len(n.test.ops) == 1 and isinstance(n.test.ops[0], ast.NotIn)
                 and norm(n.test.comparators[0]) == f"{out_p}.inputs"]
        ok = bool(tests) and all(norm(t.left) == name_p for t in tests)
        col.check(ok, f"{ac.fq}::broadcast case", f"when the incoming adjoint does not depend on the concatenated dimension `{name_p}` every part receives it whole",
                  f"the broadcast case tests `{norm(tests[0].left) if tests else '?'}`, not the Cat's own dimension `{name_p}`: with different names for the concatenated and the part "
                  "dimension every part receives the whole unsliced adjoint", ac.loc(tests[0]) if tests else ac.loc())
        sl = [n for n in ast.walk(ac.node) if isinstance(n, ast.Call) and refs.resolve(n.func) == "funsor.terms.Slice" and n.args]
        ok = bool(sl) and all(norm(x.args[0]) == pname_p for x in sl)
        col.check(ok, f"{ac.fq}::slice is indexed by the part's dimension", f"the slice substituted for `{name_p}` is named `{pname_p}`, the dimension of the part",
                  f"the slice is named `{norm(sl[0].args[0]) if sl else '?'}` instead of `{pname_p}`: the adjoint handed to a part is indexed by the wrong name", ac.loc(sl[0]) if sl else ac.loc())
        subs = [k for n in ast.walk(ac.node) if isinstance(n, ast.Call) and norm(n.func) == out_p for k in n.keywords if k.arg is None and isinstance(k.value, ast.Dict)]
        ok = bool(subs) and all(len(d.value.keys) == 1 and norm(d.value.keys[0]) == name_p for d in subs)
        col.check(ok, f"{ac.fq}::substitutes the concatenated dimension", f"the incoming adjoint is sliced along `{name_p}`",
                  "the incoming adjoint is not sliced along the Cat's own dimension", ac.loc())
    else:
        col.unresolved(f"{ac.fq}::name roles", "adjoint_cat parameters do not line up with Cat's fields", ac.loc())
    from . import algebra
    algebra.r_number_tensor_siblings(prog, col, refs, cat, "R11.6")
    # adjoints in the (logaddexp, add) semiring accumulate with logaddexp from the zero -inf and divide with safesub (plates)
    from . import numerics
    numerics.run(prog, col, refs, cat, rule_log="R11.7", rule_safe="R11.8")

    # ---------------------------------------------------------------- R11.9 Scatter kernels belong to the rule's op
    col.rule("R11.9", "a Scatter rule fills the destination with the unit of ITS op and uses an op-specific accumulating kernel only under a test on the op", floor=1)
    n = 0
    for r in cat.registrations:
        f = r.target
        if f is None or not r.pattern or isinstance(f.node, ast.Lambda) or refs.resolve(r.pattern[0]) != "funsor.terms.Scatter" or not r.registry.startswith("funsor.interpretations."):
            continue
        tc = cat.term_classes.get("funsor.terms.Scatter")
        if tc is None or len(f.positional) != len(tc.fields) or "op" not in tc.fields:
            continue
        opn = f.positional[tc.fields.index("op")]
        for c in walk_no_nested(f.node):
            if not isinstance(c, ast.Call):
                continue
            o = cat.resolve_op(f.module, c.func) if isinstance(c.func, (ast.Name, ast.Attribute)) else None
            if o is None:
                continue
            # the destination is pre-filled with UNITS[<the rule's op>]
            if o.name == "new_full" and len(c.args) >= 3:
                n += 1
                fill = c.args[2]
                good = isinstance(fill, ast.Subscript) and (refs.resolve(fill.value) or "").endswith("UNITS") and norm(fill.slice) == opn
                col.check(good, f"{f.fq}::{norm(c)[:60]}", f"the destination starts as the unit of `{opn}` (positions nothing is scattered to hold the semiring zero)",
                          f"the destination is filled with `{norm(fill)}`, not UNITS[{opn}]", f.loc(c))
            # an accumulating kernel named after one op (scatter_add) is that op's kernel only
            if o.name.startswith("scatter_") and o.name != "scatter":
                n += 1
                which = o.name.split("_", 1)[1]
                guards = [a for a in f.module.ancestors(c) if isinstance(a, (ast.If, ast.IfExp)) and f.module.enclosing_function(a) is f.node]
                tested = any(isinstance(x, ast.Compare) and any(isinstance(y, ast.Name) and y.id == opn for y in ast.walk(x))
                             and any((cat.resolve_op(f.module, y) is not None and cat.resolve_op(f.module, y).name == which) for y in ast.walk(x) if isinstance(y, (ast.Name, ast.Attribute)))
                             for g in guards for x in ast.walk(g.test))
                col.check(tested, f"{f.fq}::{norm(c)[:60]}", f"`{o.var}` is used under a test that `{opn}` is `{which}`",
                          f"`{o.var}` accumulates with `{which}` but the rule is selected for every op and does not test `{opn}`: under another semiring (logaddexp: destination "
                          "-inf, -inf + x = -inf) the scattered adjoint is lost", f.loc(c))
    if n == 0:
        raise AnalysisError("no Scatter rule with a destination fill found (anchor: eager_scatter_tensor)")
    # returning the source unchanged is the transpose of a RENAMING; that is the whole scatter only when the renaming is injective
    # (two keys sent to one variable scatter onto a diagonal: off-diagonal positions hold the unit of the op)
    m = 0
    for r in cat.registrations:
        f = r.target
        if f is None or not r.pattern or isinstance(f.node, ast.Lambda) or refs.resolve(r.pattern[0]) != "funsor.terms.Scatter" or not r.registry.startswith("funsor.interpretations."):
            continue
        tc = cat.term_classes.get("funsor.terms.Scatter")
        if tc is None or len(f.positional) != len(tc.fields) or "source" not in tc.fields or "subs" not in tc.fields:
            continue
        srcn, subsn = f.positional[tc.fields.index("source")], f.positional[tc.fields.index("subs")]
        for ret in walk_no_nested(f.node):
            if not (isinstance(ret, ast.Return) and isinstance(ret.value, ast.Name) and ret.value.id == srcn):
                continue
            m += 1
            guards = [a for a in f.module.ancestors(ret) if isinstance(a, ast.If) and f.module.enclosing_function(a) is f.node]

            def distinct_test(t) -> bool:
                for c in ast.walk(t):
                    if isinstance(c, ast.Compare) and len(c.ops) == 1 and isinstance(c.ops[0], ast.Eq):
                        sides = [c.left, c.comparators[0]]
                        lens = [x for x in sides if isinstance(x, ast.Call) and isinstance(x.func, ast.Name) and x.func.id == "len" and len(x.args) == 1]
                        if len(lens) == 2:
                            a0, a1 = lens[0].args[0], lens[1].args[0]
                            for u, w in ((a0, a1), (a1, a0)):
                                is_set = isinstance(u, ast.SetComp) or (isinstance(u, ast.Call) and isinstance(u.func, ast.Name) and u.func.id in ("set", "frozenset"))
                                if is_set and any(isinstance(y, ast.Name) and y.id == subsn for y in ast.walk(u)) and norm(w) == subsn:
                                    return True
                return False

            # ... and a renaming substitutes VARIABLES: a Slice (or any other value) selects part of the destination, whose other
            # entries must hold the unit of the op
            cls_tests = [x for g in guards for x in ast.walk(g.test) if isinstance(x, ast.Call) and isinstance(x.func, ast.Name) and x.func.id == "isinstance" and len(x.args) == 2]
            classes = {refs.resolve(y) or norm(y) for x in cls_tests for y in (x.args[1].elts if isinstance(x.args[1], ast.Tuple) else [x.args[1]])}
            col.check(bool(cls_tests) and classes <= {"funsor.terms.Variable"}, f"{f.fq}::return {srcn}::values are variables",
                      "the shortcut is taken only when every substituted value is a Variable",
                      f"`return {srcn}` is taken for values of classes {sorted(c_.rsplit('.', 1)[-1] for c_ in classes) or 'any'}: only a renaming by Variables leaves the source "
                      "unchanged; a Slice (or index tensor) writes the source into PART of the destination, and the entries it does not reach must be the unit of the op "
                      "(the adjoint of a sliced leaf would otherwise be the semiring one there)", f.loc(ret))
            col.check(any(distinct_test(g.test) for g in guards), f"{f.fq}::return {srcn}",
                      "the source is returned unchanged only when the substituted variables are pairwise distinct (an injective renaming)",
                      f"`return {srcn}` is not guarded by a test that the values of `{subsn}` are pairwise distinct: scattering along a diagonal (two keys onto one "
                      "variable) must leave the unit of the op off the diagonal", f.loc(ret))
    col.cur.analysed["scatter_returns_source"] = m
    # prerequisites of the adjoint shared with other properties: the optimizer's rewrite that the tape replays (C05 R05.6), renaming of
    # tensor inputs in substituted leaves (C04 R04.9), the per-slice shift of logsumexp (C15 R15.15)
    algebra.r_scope_extrusion(prog, col, refs, cat, "R11.10")
    col.rule("R11.11", "an input is renamed to the name of a substituted value only after that name is tested against the term's own inputs", floor=2)
    from . import c04, c15
    c04._rename_clash(prog, col, refs, cat, c04._subs_collections(prog, refs, cat))
    c15._logsumexp_axis(prog, col, refs, cat, "R11.12")
    _partial_delegation(prog, col, refs, cat, adj_regs, reg)
    # round 7: what the forward pass and the optimizer compute before the tape replays them (shared with C08 / C01 / C15)
    algebra.r_operand_multiplicity(prog, col, refs, cat, "R11.14")
    algebra.r_size_product_over_sequence(prog, col, refs, cat, "R11.15")
    numerics.run_agreement(prog, col, refs, cat, rule="R11.16")
    # ---------------------------------------------------------------- R11.17 what the eager Scatter drops, it has reduced
    col.rule("R11.17", "the eager Scatter drops a reduced input of the source from the result only if a substituted value mentions it, or after reducing the source over it", floor=1)
    es = prog.funcs.get("funsor.tensor::eager_scatter_tensor")
    if es is None or len(es.positional) != 4:
        raise AnalysisError("anchor funsor.tensor::eager_scatter_tensor(op, subs, source, reduced_vars) not found")
    op_p, subs_p, src_p, rv_p = es.positional
    # the scatter kernel overwrites (it does not accumulate): is that still so?
    kernel = [c for c in ast.walk(es.node) if isinstance(c, ast.Call) and norm(c.func).rsplit(".", 1)[-1] in ("scatter", "scatter_add")]
    overwrites = any(norm(c.func).rsplit(".", 1)[-1] == "scatter" for c in kernel)
    # inputs of the source are left out of the result's inputs under a membership test in the reduced names
    drops = [lp for lp in ast.walk(es.node) if isinstance(lp, ast.For) and norm(lp.iter) == f"{src_p}.inputs.items()"
             and any(isinstance(t, ast.Compare) and isinstance(t.ops[0], (ast.In, ast.NotIn)) and "reduced" in norm(t.comparators[0]) for t in ast.walk(lp))]
    reduces = [c for c in ast.walk(es.node) if isinstance(c, ast.Call) and isinstance(c.func, ast.Attribute) and c.func.attr == "reduce" and norm(c.func.value) == src_p
               and c.args and norm(c.args[0]) == op_p]
    construct = f"{es.fq}::reduced inputs of the source"
    if not kernel or not drops:
        col.unresolved(construct, "scatter kernel call or the loop over the source's inputs not found", es.loc())
    elif not overwrites:
        col.ok(construct, "the kernel accumulates (scatter_add)", es.loc(kernel[0]))
    elif reduces and all(r_.lineno < drops[0].lineno for r_ in reduces):
        # the reduction covers the variables no substituted value mentions: its variable set is computed from the values' inputs
        arg = reduces[0].args[1] if len(reduces[0].args) > 1 else None
        defs_ = [st.value for st in ast.walk(es.node) if isinstance(st, ast.Assign) and arg is not None and norm(st.targets[0]) == norm(arg)]
        mentions_values = any(subs_p in {y.id for y in ast.walk(d_) if isinstance(y, ast.Name)} or any(isinstance(y, ast.Name) and y.id != rv_p and y.id != src_p for y in ast.walk(d_)) for d_ in defs_)
        if defs_ and mentions_values:
            col.ok(construct, f"`{src_p}.reduce({op_p}, {norm(arg)})` sums the inputs that no substituted value mentions before the overwriting kernel runs", es.loc(reduces[0]))
        else:
            col.unresolved(construct, f"`{norm(reduces[0])[:50]}`: the reduced set is not derived from the substituted values", es.loc(reduces[0]))
    else:
        col.violation(construct, f"inputs of `{src_p}` that are in `{rv_p}` are left out of the result, and the data are written with the overwriting kernel `ops.scatter`: for a reduced input "
                      "that no substituted value mentions, all its slices are written to the same place and the last one wins, where Scatter(op, subs, source, V) is documented to equal "
                      "Scatter(op, subs, source, {}).reduce(op, V) - the adjoint of a renamed leaf under a root with another free variable is one slice of the derivative instead of its sum",
                      es.loc(drops[0]))
    return col


def _partial_delegation(prog: Program, col: Collector, refs: Refs, cat: Catalogue, adj_regs, reg: str):
    """R11.13.  An adjoint rule may hand some of its operands to another adjoint rule (or to itself).  The operands handed over are
    factors of a product whose other factors stay behind, so the incoming adjoint passed along must be built from the factors that
    stay behind (d(x*y*z)/dy carries x); passing the rule's own incoming adjoint is right only where the rule has tested that its
    product op plays the additive role.  Decided on local dataflow: the parts an operand collection is split into, which parts each
    delegation receives, and which parts its incoming-adjoint argument mentions."""
    from .common import regions_where
    col.rule("R11.13", "a rule that delegates the adjoint of some operands passes an incoming adjoint built from the operands it keeps", floor=2)
    rule_funcs = {r.target.fq.replace("::", "."): r.target for r in adj_regs if r.target is not None and not isinstance(r.target.node, ast.Lambda)}
    n_sites = 0
    for f in rule_funcs.values():
        params = f.positional
        if len(params) < 4:
            continue
        sum_p, prod_p, out_adj = params[0], params[1], params[2]
        # single-definition locals (tuple destructuring is split element-wise where the shapes agree)
        env: Dict[str, ast.AST] = {}
        multi = set()
        for st in walk_no_nested(f.node):
            if not (isinstance(st, ast.Assign) and len(st.targets) == 1):
                continue
            t, v = st.targets[0], st.value
            pairs = []
            if isinstance(t, ast.Name):
                pairs = [(t.id, v)]
            elif isinstance(t, (ast.Tuple, ast.List)):
                if isinstance(v, (ast.Tuple, ast.List)) and len(v.elts) == len(t.elts) and not any(isinstance(e, ast.Starred) for e in t.elts):
                    pairs = [(a.id, b) for a, b in zip(t.elts, v.elts) if isinstance(a, ast.Name)]
                else:
                    for k, a in enumerate(t.elts):
                        a_ = a.value if isinstance(a, ast.Starred) else a
                        if isinstance(a_, ast.Name):  # part k of the right-hand side
                            pairs.append((a_.id, ast.Subscript(value=v, slice=ast.Constant(value=k), ctx=ast.Load())))
                        else:  # nested pattern: every name in it is derived from the right-hand side
                            pairs += [(x.id, v) for x in ast.walk(a_) if isinstance(x, ast.Name)]
            for nm, val in pairs:
                if nm in env or nm in params:
                    multi.add(nm)
                env[nm] = val
        for nm in multi:
            env.pop(nm, None)

        def mentions(expr, depth=0):
            out = set()
            for n in ast.walk(expr):
                if isinstance(n, ast.Name) and isinstance(n.ctx, ast.Load):
                    out.add(n.id)
                    if n.id in env and depth < 8:
                        out |= mentions(env[n.id], depth + 1)
            return out

        # parts: locals whose definition is a subscript of an operand parameter (an element or a slice of the operand tuple)
        operand_params = [q for q in params[3:]]
        parts: Dict[str, str] = {}
        for nm, val in env.items():
            if isinstance(val, ast.Subscript) and isinstance(val.value, ast.Name) and val.value.id in operand_params:
                parts[nm] = val.value.id
        additive = []
        for node, _pl, stmts in regions_where(f.module, f.node, lambda t: True if (isinstance(t, ast.Compare) and len(t.ops) == 1 and isinstance(t.ops[0], ast.Is)
                                                                                     and sum_p in (norm(t.left), norm(t.comparators[0]))
                                                                                     and ({norm(t.left), norm(t.comparators[0])} - {sum_p}) <= set(params[3:])) else None):
            additive += [id(y) for st in stmts for y in ast.walk(st)]
        for c in [n for n in walk_no_nested(f.node) if isinstance(n, ast.Call)]:
            tgt = refs.resolve(c.func)
            if tgt == reg:
                k = 3
            elif tgt in rule_funcs:
                k = 2
            else:
                continue
            if len(c.args) <= k or any(isinstance(a, ast.Starred) for a in c.args[:k + 1]):
                continue
            n_sites += 1
            adj_arg, rest = c.args[k], [a for a in c.args[k + 1:]]
            got = set()
            for a in rest:
                got |= mentions(a.value if isinstance(a, ast.Starred) else a)
            construct = f"{f.fq}::{norm(c)[:70]}"
            whole = {q for q in operand_params if q in got and not any(parts[pn] == q and pn in got for pn in parts)}
            handed = {pn for pn in parts if pn in got}
            kept = {pn for pn in parts if pn not in got and parts[pn] not in whole}
            if not handed or not kept:
                col.ok(construct, "the delegation receives all operands of the rule" if not handed else "every part of the operands is handed over", f.loc(c), nontrivial=False)
                continue
            adj_m = mentions(adj_arg)
            missing = sorted(pn for pn in kept if pn not in adj_m)
            ok = not missing or id(c) in additive
            col.check(ok, construct, f"the incoming adjoint handed over mentions the operands kept ({sorted(kept)})" if not missing else f"additive branch (the term's op is {sum_p})",
                      f"the adjoint of {sorted(handed)} is delegated with incoming adjoint `{norm(adj_arg)[:50]}`, which is not built from the operand(s) {missing} that stay behind, and "
                      f"there is no test that the term's op is `{sum_p}` (the additive role): for a product the adjoint of every operand carries all the other factors", f.loc(c))
    col.cur.analysed["delegation_sites"] = n_sites


def _product_rule(col: Collector, f: Func, refs: Refs):
    """Inspect every `return ((x, x_adj), (y, y_adj))`: classify by the guard (product branch vs sum branch)."""
    params = f.positional
    sum_p, prod_p, out_adj = params[0], params[1], params[2]
    operands = params[-2:]
    for ret in [n for n in walk_no_nested(f.node) if isinstance(n, ast.Return) and isinstance(n.value, ast.Tuple)]:
        pairs = [e for e in ret.value.elts if isinstance(e, ast.Tuple) and len(e.elts) == 2]
        if len(pairs) != 2:
            continue
        # branch kind from the enclosing test
        guard = None
        for anc in f.module.ancestors(ret):
            if isinstance(anc, ast.If) and any(ret is x or any(ret is y for y in ast.walk(x)) for x in anc.body):
                guard = anc.test
                break
        gtxt = norm(guard) if guard is not None else ""
        kind = "product" if f"is {prod_p}" in gtxt and f"is {sum_p}" not in gtxt.split("and")[0] else "sum" if f"is {sum_p}" in gtxt else "?"
        # reaching definitions of adjoint names *at the return* (flow-sensitive: out_adj may be re-bound)
        env_at_ret: Dict[str, ast.AST] = {}
        body_stmts = []
        for anc in f.module.ancestors(ret):
            if isinstance(anc, ast.If) and any(ret is x or any(ret is y for y in ast.walk(x)) for x in anc.body):
                body_stmts = anc.body
                break
        for st in body_stmts:
            if st is ret:
                break
            if isinstance(st, ast.Assign) and len(st.targets) == 1 and isinstance(st.targets[0], ast.Name):
                env_at_ret[st.targets[0].id] = st.value
        for (x, adj) in [(p.elts[0], p.elts[1]) for p in pairs]:
            xn = norm(x)
            other = [o for o in operands if o != xn]
            construct = f"{f.fq}::{kind} branch::({xn}, {norm(adj)})"
            expr = env_at_ret.get(adj.id, adj) if isinstance(adj, ast.Name) else adj
            names = {n.id for n in ast.walk(expr) if isinstance(n, ast.Name)}
            if xn not in operands or not other:
                col.unresolved(construct, "pair does not name an operand parameter", f.loc(ret))
                continue
            if kind == "product":
                is_prod = isinstance(expr, ast.Call) and norm(expr.func) == prod_p and len(expr.args) == 2
                ok = is_prod and out_adj in names and other[0] in names and xn not in names
                col.check(ok, construct, f"d/d{xn} (…{prod_p}…) = incoming adjoint {prod_p} {other[0]}",
                          f"the adjoint returned for `{xn}` is `{norm(expr)}`: the product rule requires {prod_p}({out_adj}, {other[0]}) - the incoming adjoint times the OTHER operand", f.loc(ret))
            elif kind == "sum":
                ok = isinstance(expr, ast.Name) and expr.id == out_adj or norm(expr) == out_adj
                col.check(ok, construct, "a sum passes the incoming adjoint to both operands",
                          f"in the sum branch `{xn}` receives `{norm(expr)}` instead of the incoming adjoint", f.loc(ret))
            else:
                col.unresolved(construct, f"branch kind not recognised from guard `{gtxt}`", f.loc(ret))
