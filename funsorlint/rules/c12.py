"""C12 - Gaussian pointwise algebra (index bookkeeping clauses only).

Agreement of Gaussian results with the dense quadratic form is floating-point linear algebra over runtime arrays and is NOT
decided.  Decided is the bookkeeping that places each real input's block inside the flat event dimension and the way two aligned
Gaussians are fused - all visible in the shape of the code.  Nothing of the repository is executed.
"""
from __future__ import annotations

import ast
from typing import List, Optional

from ..catalogue import Catalogue
from ..model import AnalysisError, Func, Program, norm
from ..report import Collector
from .common import Refs, require_func, walk_no_nested

EXPLANATION = (
    "Index bookkeeping of the Gaussian representation. R12.1: _compute_offsets walks the inputs in order and, for real inputs only, "
    "records the running total as the input's offset BEFORE adding the input's num_elements to it. R12.2: _split_real_inputs walks "
    "the inputs in order and, for real inputs only, forms slice(start, start + num_elements), files it under lhs or rhs by membership "
    "of the input's name in lhs_keys, and advances start to the slice's stop. R12.3: Gaussian + Gaussian aligns BOTH operands to the "
    "same merged inputs (lhs.inputs then rhs.inputs) with expand=True and concatenates white_vec and prec_sqrt along the last (rank) "
    "axis with the operands in the same order; an alignment may be skipped only under an order-sensitive comparison of the inputs. R12.4 "
    "(shared with C19 R19.2): Gaussian.align builds the requested inputs first. R12.5 (shared with C04 R04.6): staging of "
    "Gaussian.eager_subs. R12.6: concatenation adds the discrete parts whenever any part has one. R12.7: the inputs mapping of a "
    "concatenation is not edited by delete-and-reinsert. R12.8: a worker of Gaussian.eager_subs that reshapes aligned values receives "
    "Tensors only or converts Numbers first (align_tensors returns a Number's bare scalar). R12.9: in _eager_subs_affine the store of a "
    "coefficient block into the BlockMatrix depends on the presence of the block's key in the coefficient mapping and on no other "
    "condition on that key. R12.10: _compress_rank's Cholesky route (assume_full_rank=True) is taken only at the sites of a frozen "
    "who-may-call table (sampling), never by value-preserving compression."
    ' R12.3 also reads every other return of Gaussian + Gaussian: a Gaussian rebuilt from one operand rescales white_vec and prec_sqrt by the same factor. R12.11 (= C04 R04.25): the set algebra of affine_inputs. R12.12: two concatenations of per-input blocks that are multiplied with each other iterate the same sequence with the same filter.'
)
ASSUMPTIONS = ["constructor conversions, substitution, rank compression and every numerical value are not decided"]
RULE_TEXT = "one obligation per bookkeeping loop / fusion step"


def _loop_over_inputs(f: Func, param: str) -> Optional[ast.For]:
    for lp in walk_no_nested(f.node):
        if isinstance(lp, ast.For) and norm(lp.iter) == f"{param}.items()" and isinstance(lp.target, ast.Tuple) and len(lp.target.elts) == 2:
            return lp
    return None


def _real_guard(lp: ast.For):
    """the `if <domain>.dtype == "real":` directly inside the loop, and its body"""
    dom = norm(lp.target.elts[1])
    for st in lp.body:
        if isinstance(st, ast.If) and isinstance(st.test, ast.Compare) and len(st.test.ops) == 1 and isinstance(st.test.ops[0], ast.Eq) \
                and norm(st.test.left) == f"{dom}.dtype" and isinstance(st.test.comparators[0], ast.Constant) and st.test.comparators[0].value == "real":
            return st
    return None


def _keeps_shift(f: Func, call: ast.Call) -> bool:
    """the third result of _compress_rank (the constant that keeps the value unchanged) is bound to a name that is used"""
    par = f.module.parent.get(call)
    if isinstance(par, ast.Assign) and isinstance(par.targets[0], ast.Tuple) and len(par.targets[0].elts) == 3 and isinstance(par.targets[0].elts[2], ast.Name):
        nm = par.targets[0].elts[2].id
        return nm != "_" and any(isinstance(y, ast.Name) and y.id == nm and isinstance(y.ctx, ast.Load) for y in ast.walk(f.node))
    return True  # result handed on whole: assume it is kept


def _numbers_into_array_workers(prog: Program, col: Collector, refs: Refs):
    """align_tensors hands a Number back as a Python scalar.  A method of Gaussian that reads array attributes (.shape / .reshape) of
    aligned values must therefore not receive Numbers: either the classification that feeds it admits Tensors only, or the worker
    converts Numbers to Tensors first."""
    col.rule("R12.8", "a worker of Gaussian.eager_subs that treats aligned values as arrays receives Tensors only, or converts Numbers first", floor=1)
    disp = require_func(prog, "funsor.gaussian::Gaussian.eager_subs")
    # classifications: NAME = tuple((k, v) for k, v in subs if isinstance(v, (A, B)) ...)
    admitted = {}
    for st in walk_no_nested(disp.node):
        if isinstance(st, ast.Assign) and isinstance(st.targets[0], ast.Name) and isinstance(st.value, ast.Call) and st.value.args and isinstance(st.value.args[0], (ast.GeneratorExp, ast.ListComp)):
            classes = set()
            for cond in st.value.args[0].generators[0].ifs:
                t = cond
                if isinstance(t, ast.Call) and norm(t.func) == "isinstance" and len(t.args) == 2:
                    cl = t.args[1].elts if isinstance(t.args[1], ast.Tuple) else [t.args[1]]
                    classes |= {norm(x) for x in cl}
            if classes:
                admitted[st.targets[0].id] = classes
    n = 0
    for c_ in walk_no_nested(disp.node):
        if not (isinstance(c_, ast.Call) and isinstance(c_.func, ast.Attribute) and isinstance(c_.func.value, ast.Name) and c_.func.value.id == disp.positional[0] and c_.args
                and isinstance(c_.args[0], ast.Name) and c_.args[0].id in admitted):
            continue
        w = prog.funcs.get(f"funsor.gaussian::Gaussian.{c_.func.attr}")
        if w is None:
            continue
        p = w.positional[1]
        # does the worker read array attributes of values that went through align_tensors together with the parameter's values?
        aligned = [st for st in ast.walk(w.node) if isinstance(st, ast.Assign) and isinstance(st.value, ast.Call) and norm(st.value.func).endswith("align_tensors")]
        if not aligned:
            continue
        arrayish = any(isinstance(y, ast.Attribute) and y.attr in ("shape", "reshape") for y in ast.walk(w.node))
        # values of the parameter reach the aligned list without an intervening isinstance test in the worker?  (the affine worker re-extracts and tests)
        reaches = any(isinstance(y, ast.Call) and isinstance(y.func, ast.Attribute) and y.func.attr in ("extend", "append") and any(isinstance(z, ast.Name) and z.id == p for z in ast.walk(y))
                      for y in ast.walk(w.node))
        if not (arrayish and reaches):
            continue
        n += 1
        construct = f"{w.fq}::values of `{c_.args[0].id}`"
        classes = admitted[c_.args[0].id]
        converts = any(isinstance(y, ast.Call) and norm(y.func) == "isinstance" and len(y.args) == 2 and "Number" in norm(y.args[1]) for y in ast.walk(w.node)) \
            and any(isinstance(y, ast.Call) and (refs.resolve(y.func) or "").endswith("Tensor") for y in ast.walk(w.node))
        if "Number" not in classes:
            col.ok(construct, f"`{c_.args[0].id}` admits {sorted(classes)} only", disp.loc(c_))
        elif converts:
            col.ok(construct, "Numbers are converted to Tensors before the alignment", w.loc())
        else:
            col.violation(construct, f"`{c_.args[0].id}` admits {sorted(classes)}, and `{w.name}` reshapes the aligned values as arrays; align_tensors returns the bare Python scalar "
                          "of a Number, so substituting a Python number for a real input (g(x=0.5)) raises AttributeError instead of evaluating the quadratic form", disp.loc(c_))
    if n == 0:
        col.unresolved(f"{disp.fq}::workers", "no worker that aligns the substituted values as arrays was found", disp.loc())


def _affine_blocks_written(prog: Program, col: Collector, refs: Refs):
    """In the blockwise representation x = A y + b of an affine substitution every coefficient of every substituted input is written into
    the block matrix.  The store of a coefficient block may depend on the membership of the block's key in the coefficient mapping it is
    read from, and on nothing else that mentions that key."""
    col.rule("R12.9", "every coefficient block of an affine substitution is written into the block matrix", floor=1)
    f = require_func(prog, "funsor.gaussian::Gaussian._eager_subs_affine")
    mats = {norm(st.targets[0]) for st in walk_no_nested(f.node) if isinstance(st, ast.Assign) and isinstance(st.value, ast.Call) and norm(st.value.func).endswith("BlockMatrix")}
    n = 0
    for st in ast.walk(f.node):
        if not (isinstance(st, ast.Assign) and isinstance(st.targets[0], ast.Subscript) and norm(st.targets[0].value) in mats):
            continue
        loops = [a for a in f.module.ancestors(st) if isinstance(a, ast.For)]
        if not loops:
            continue
        L = loops[0]  # innermost
        keyn = norm(L.target.elts[0]) if isinstance(L.target, ast.Tuple) else norm(L.target)
        # is the stored value read from a mapping indexed by the loop key?  (otherwise: the identity block of a kept input)
        src = None
        names_in_value = {y.id for y in ast.walk(st.value) if isinstance(y, ast.Name)}
        for a in ast.walk(L):
            if isinstance(a, ast.Assign) and isinstance(a.value, ast.Subscript) and norm(a.value.slice) == keyn and isinstance(a.value.value, ast.Name):
                tg = {y.id for y in ast.walk(a.targets[0]) if isinstance(y, ast.Name)}
                if tg & names_in_value:
                    src = a.value.value.id
        iter_items_of = norm(L.iter.func.value) if isinstance(L.iter, ast.Call) and isinstance(L.iter.func, ast.Attribute) and L.iter.func.attr in ("items", "keys") else None
        if src is None and not (isinstance(L.target, ast.Tuple) and any(isinstance(y, ast.Name) and y.id in names_in_value for e in L.target.elts[1:] for y in ast.walk(e))):
            continue
        n += 1
        construct = f"{f.fq}::{norm(st.targets[0])[:50]}"
        # conditions the store depends on inside L: enclosing ifs, and earlier `if ...: continue` in the enclosing blocks
        conds = []
        node = st
        for a in f.module.ancestors(st):
            if a is L:
                blk = L.body
            elif isinstance(a, ast.If):
                conds.append(a.test)
                blk = a.body if any(node is z for s_ in a.body for z in ast.walk(s_)) else a.orelse
            else:
                node = a
                continue
            for s_ in blk:
                if any(node is z for z in ast.walk(s_)):
                    break
                if isinstance(s_, ast.If) and any(isinstance(z, (ast.Continue, ast.Break)) for z in ast.walk(s_)):
                    conds.append(s_.test)
            node = a
            if a is L:
                break
        verdicts = []
        for t in conds:
            atoms = t.values if isinstance(t, ast.BoolOp) else [t]
            for at in atoms:
                while isinstance(at, ast.UnaryOp) and isinstance(at.op, ast.Not):
                    at = at.operand
                mentions_key = any(isinstance(y, ast.Name) and y.id == keyn for y in ast.walk(at))
                if isinstance(at, ast.Compare) and len(at.ops) == 1 and isinstance(at.ops[0], (ast.In, ast.NotIn)) and norm(at.left) == keyn and norm(at.comparators[0]) in (src, iter_items_of):
                    verdicts.append((True, at))
                elif mentions_key:
                    verdicts.append((False, at))
                else:
                    verdicts.append((None, at))
        badc = [at for v, at in verdicts if v is False]
        unk = [at for v, at in verdicts if v is None]
        if badc:
            col.violation(construct, f"the coefficient block is written only under `{norm(badc[0])}`, a condition on the block's key other than its presence in `{src or iter_items_of}`: "
                          "a coefficient that the affine representation contains is silently dropped, so g(x = 2*z + 1) with z already an input of g (or g(x = 3*x - 2)) evaluates a "
                          "different quadratic form", f.loc(st))
        elif unk:
            col.unresolved(construct, f"the coefficient block is written under `{norm(unk[0])[:50]}`", f.loc(st))
        else:
            col.ok(construct, f"written for every key present in `{src or iter_items_of}`", f.loc(st))
    if n == 0:
        col.unresolved(f"{f.fq}::coefficient blocks", "no store of a coefficient block into a BlockMatrix was found", f.loc())


def run(prog: Program, col: Collector, tier: str, refs: Optional[Refs] = None, cat: Optional[Catalogue] = None):
    refs = refs or Refs(prog)
    # ---------------------------------------------------------------- R12.1
    col.rule("R12.1", "the offset of a real input is the number of real elements before it", floor=1)
    f = require_func(prog, "funsor.gaussian::_compute_offsets")
    lp = _loop_over_inputs(f, f.positional[0])
    g = _real_guard(lp) if lp is not None else None
    construct = f"{f.fq}::offsets"
    if g is None:
        col.violation(construct, "no loop over the inputs that treats real inputs (dtype == 'real') only", f.loc())
    else:
        key, dom = norm(lp.target.elts[0]), norm(lp.target.elts[1])
        stores = [st for st in g.body if isinstance(st, ast.Assign) and isinstance(st.targets[0], ast.Subscript) and norm(st.targets[0].slice) == key]
        incs = [st for st in g.body if isinstance(st, ast.AugAssign) and isinstance(st.op, ast.Add) and norm(st.value) == f"{dom}.num_elements"]
        ok = len(stores) == 1 and len(incs) == 1 and isinstance(stores[0].value, ast.Name) and stores[0].value.id == norm(incs[0].target) and stores[0].lineno < incs[0].lineno
        col.check(ok, construct, "offsets[key] = total; total += domain.num_elements (in this order, real inputs only)",
                  "the offset recorded for a real input is not the running total before that input's elements are added: every block of the flat event dimension would be read at "
                  "another input's position", f.loc(g))
    # ---------------------------------------------------------------- R12.2
    col.rule("R12.2", "the split of the flat real dimension follows the inputs in order, block by block", floor=1)
    f = require_func(prog, "funsor.gaussian::_split_real_inputs")
    lp = _loop_over_inputs(f, f.positional[0])
    g = _real_guard(lp) if lp is not None else None
    construct = f"{f.fq}::blocks"
    if g is None:
        col.violation(construct, "no loop over the inputs that treats real inputs only", f.loc())
    else:
        key, dom = norm(lp.target.elts[0]), norm(lp.target.elts[1])
        lhs_keys = f.positional[1]
        stops = [st for st in g.body if isinstance(st, ast.Assign) and isinstance(st.value, ast.BinOp) and isinstance(st.value.op, ast.Add)
                 and {norm(st.value.left), norm(st.value.right)} == {"start", f"{dom}.num_elements"} or
                 (isinstance(st, ast.Assign) and isinstance(st.value, ast.BinOp) and isinstance(st.value.op, ast.Add) and norm(st.value.right) == f"{dom}.num_elements"
                  and isinstance(st.value.left, ast.Name))]
        ok = False
        why = "stop = start + domain.num_elements not found"
        if stops:
            stopn, startn = norm(stops[0].targets[0]), norm(stops[0].value.left)
            adv = [st for st in g.body if isinstance(st, ast.Assign) and norm(st.targets[0]) == startn and norm(st.value) == stopn and st.lineno > stops[0].lineno]
            apps = [c for st in g.body for c in ast.walk(st) if isinstance(c, ast.Call) and isinstance(c.func, ast.Attribute) and c.func.attr == "append" and c.args
                    and norm(c.args[0]) == f"slice({startn}, {stopn})"]
            chooser = [x for st in g.body for x in ast.walk(st) if isinstance(x, ast.IfExp) and isinstance(x.test, ast.Compare) and len(x.test.ops) == 1
                       and isinstance(x.test.ops[0], ast.In) and norm(x.test.left) == key and norm(x.test.comparators[0]) == lhs_keys]
            lhs_first = bool(chooser) and "lhs" in norm(chooser[0].body) and "rhs" in norm(chooser[0].orelse)
            ok = bool(adv) and bool(apps) and lhs_first and all(a.lineno < adv[0].lineno for a in apps)
            why = ("the start is not advanced to the block's stop after the block is filed" if not adv else "the block filed is not slice(start, stop)" if not apps
                   else "blocks are not filed under lhs exactly when the input's name is in lhs_keys")
        col.check(ok, construct, "slice(start, start + num_elements) filed by `key in lhs_keys`, then start = stop", why + ": the kept and the marginalised / substituted blocks of the "
                  "precision factor would be taken from other inputs' positions", f.loc(g))
    # ---------------------------------------------------------------- R12.3
    col.rule("R12.3", "Gaussian + Gaussian: both operands aligned to the same merged inputs, factors concatenated along the rank axis in the same order", floor=1)
    f = require_func(prog, "funsor.gaussian::eager_add_gaussian_gaussian")
    opn, lhs, rhs = f.positional
    als = [st for st in walk_no_nested(f.node) if isinstance(st, ast.Assign) and isinstance(st.value, ast.Call) and norm(st.value.func).endswith("align_gaussian")]
    construct = f"{f.fq}::fusion"
    ok = len(als) == 2
    why = "two align_gaussian calls expected"
    if ok:
        inputs_names = {norm(a.value.args[0]) for a in als}
        operands = [norm(a.value.args[1]) for a in als]
        expand = all(any(k.arg == "expand" and norm(k.value) == "True" for k in a.value.keywords) or (len(a.value.args) >= 3 and norm(a.value.args[2]) == "True") for a in als)
        M = next(iter(inputs_names)) if len(inputs_names) == 1 else None
        built = M is not None and any(isinstance(st, ast.Assign) and norm(st.targets[0]) == M and norm(st.value) in (f"{lhs}.inputs.copy()", f"OrderedDict({lhs}.inputs)") for st in walk_no_nested(f.node)) \
            and any(isinstance(c, ast.Call) and isinstance(c.func, ast.Attribute) and c.func.attr == "update" and norm(c.func.value) == M and c.args and norm(c.args[0]) == f"{rhs}.inputs"
                    for c in walk_no_nested(f.node))
        cats = [c for c in walk_no_nested(f.node) if isinstance(c, ast.Call) and norm(c.func).endswith("cat") and len(c.args) == 2 and isinstance(c.args[0], (ast.List, ast.Tuple))]
        tnames = {norm(a.value.args[1]): [norm(e) for e in a.targets[0].elts] for a in als if isinstance(a.targets[0], ast.Tuple) and len(a.targets[0].elts) == 2}
        cat_ok = len(cats) == 2 and all(norm(c.args[1]) == "-1" for c in cats)
        if cat_ok and lhs in tnames and rhs in tnames:
            want = [[tnames[lhs][0], tnames[rhs][0]], [tnames[lhs][1], tnames[rhs][1]]]
            got = sorted([[norm(e) for e in c.args[0].elts] for c in cats])
            cat_ok = got == sorted(want)
        ok = sorted(operands) == sorted([lhs, rhs]) and expand and built and cat_ok
        why = ("the two operands are not aligned to one mapping built as lhs.inputs then rhs.inputs" if not built else "alignment does not expand the batch inputs" if not expand
               else "white_vec / prec_sqrt are not concatenated pairwise along axis -1 with the operands in the same order")
    col.check(ok, construct, "align both to lhs.inputs+rhs.inputs (expand=True); cat([lhs_w, rhs_w], -1), cat([lhs_P, rhs_P], -1)",
              why + ": the fused factor then pairs a white_vec column with another operand's prec_sqrt column, or blocks of different inputs", f.loc())
    # both alignments are unconditional, or skipped only under an order-sensitive comparison of the inputs (R04.22's reading)
    from .kernels import _order_sensitive_inputs_test
    for a in als:
        guards = [g_ for g_ in f.module.ancestors(a) if isinstance(g_, ast.If)]
        for g_ in guards:
            verdict, why_ = _order_sensitive_inputs_test(g_.test)
            if verdict is False:
                col.violation(f"{f.fq}::alignment skipped", f"{why_}; the operand is then fused without align_gaussian, so its blocks are read under the other operand's order of inputs "
                              "(g1(x, y) + g2(y, x))", f.loc(g_))
            elif verdict is None:
                col.unresolved(f"{f.fq}::alignment skipped", f"an operand is aligned only under `{norm(g_.test)[:50]}`", f.loc(g_))
    # every other way out of the rule: a Gaussian rebuilt from ONE operand's raw factors equals a multiple of that operand only when
    # white_vec and prec_sqrt are rescaled by the same factor (-1/2 |x P b - w a|^2 = b^2 * (-1/2 |x P - w a/b|^2))
    fused_names = {norm(c.args[0]) for c in walk_no_nested(f.node) if isinstance(c, ast.Call) and (refs.resolve(c.func) or "").endswith("gaussian.Gaussian") and len(c.args) >= 2
                   and isinstance(c.args[0], ast.Name)}
    for r in walk_no_nested(f.node):
        if not (isinstance(r, ast.Return) and r.value is not None):
            continue
        v = r.value
        if isinstance(v, ast.Call) and (refs.resolve(v.func) or "").endswith("gaussian.Gaussian") and len(v.args) >= 2 and isinstance(v.args[0], ast.Name):
            continue  # the fused result, checked above

        def raw(e, attr):
            """(operand, scale text or None) when e is X.<attr> or X.<attr> * c / c * X.<attr>"""
            if isinstance(e, ast.Attribute) and e.attr == attr and isinstance(e.value, ast.Name):
                return e.value.id, None
            if isinstance(e, ast.BinOp) and isinstance(e.op, ast.Mult):
                for a_, b_ in ((e.left, e.right), (e.right, e.left)):
                    if isinstance(a_, ast.Attribute) and a_.attr == attr and isinstance(a_.value, ast.Name):
                        return a_.value.id, norm(b_)
            return None
        construct = f"{f.fq}::return {norm(v)[:50]}"
        if isinstance(v, ast.Call) and (refs.resolve(v.func) or "").endswith("gaussian.Gaussian") and len(v.args) >= 2:
            w_, p_ = raw(v.args[0], "white_vec"), raw(v.args[1], "prec_sqrt")
            if w_ and p_ and w_[0] == p_[0]:
                if w_[1] == p_[1]:
                    col.ok(construct, "both factors of the one operand rescaled alike", f.loc(r))
                else:
                    col.violation(construct, f"white_vec is rescaled by `{w_[1]}` and prec_sqrt by `{p_[1]}`: -1/2 |x P b - w a|^2 is a multiple of the operand's log-density only for a = b, so the "
                                  "precision doubles but the linear term and the constant do not (g + g differs from 2 g)", f.loc(r))
                continue
        col.unresolved(construct, "a way out of the rule that is not the fused Gaussian", f.loc(r))
    # ---------------------------------------------------------------- R12.5 (shared with C04 R04.6)
    cat = cat or Catalogue(prog, refs)
    from . import c04
    col.rule("R12.5", "a stage of Gaussian.eager_subs with ground values is never followed by the integer-keyed pairs; open stages test for clashes (shared with C04 R04.6)", floor=3)
    c04._staging(prog, col, refs, cat, c04._subs_collections(prog, refs, cat))
    # ---------------------------------------------------------------- R12.6 concatenation of Gaussians keeps every part's constant
    col.rule("R12.6", "concatenating Gaussian mixtures adds the discrete parts whenever ANY part has one", floor=1)
    fc = require_func(prog, "funsor.joint::eager_cat_homogeneous")
    # the list of optional discrete parts: appended in the loop over the parts, with a None alternative
    lists = {}
    for c_ in ast.walk(fc.node):
        if isinstance(c_, ast.Call) and isinstance(c_.func, ast.Attribute) and c_.func.attr == "append" and isinstance(c_.func.value, ast.Name) and c_.args and isinstance(c_.args[0], ast.Name):
            v_ = c_.args[0].id
            if any(isinstance(st, ast.Assign) and norm(st.targets[0]) == v_ and isinstance(st.value, ast.Constant) and st.value.value is None for st in ast.walk(fc.node)):
                lists[c_.func.value.id] = v_
    done6 = False
    for L in lists:
        for g_ in [x for x in walk_no_nested(fc.node) if isinstance(x, ast.If)]:
            fills = any(isinstance(y, ast.Compare) and isinstance(y.ops[0], ast.Is) and isinstance(y.comparators[0], ast.Constant) and y.comparators[0].value is None for y in ast.walk(ast.Module(body=g_.body, type_ignores=[])))
            uses_L = any(isinstance(y, ast.Name) and y.id == L for st in g_.body for y in ast.walk(st))
            if not (fills and uses_L):
                continue
            done6 = True
            t = g_.test
            existential = isinstance(t, ast.Call) and isinstance(t.func, ast.Name) and t.func.id == "any" and t.args and isinstance(t.args[0], (ast.GeneratorExp, ast.ListComp)) \
                and norm(t.args[0].generators[0].iter) == L
            col.check(existential, f"{fc.fq}::if {norm(t)[:50]}", f"any(d is not None for d in {L})",
                      f"the discrete (constant) parts are added only under `{norm(t)[:50]}`, which does not ask ALL parts: a plain Gaussian first and a Gaussian + Tensor part later (the "
                      "by-product of rank compression) loses the later parts' constants", fc.loc(g_))
    if not done6:
        col.unresolved(f"{fc.fq}::discrete parts", "the block that merges the optional discrete parts was not found", fc.loc())
    # ---------------------------------------------------------------- R12.7 the concatenated name keeps the leading position
    col.rule("R12.7", "the mapping handed on as the inputs of a concatenation is never edited by delete-and-reinsert (the new name would move to the end)", floor=1)
    used_as_inputs = set()
    for c_ in ast.walk(fc.node):
        if isinstance(c_, ast.Call) and (refs.resolve(c_.func) or "").rsplit(".", 1)[-1] in ("Gaussian", "Tensor") and len(c_.args) >= 2:
            for a_ in c_.args[1:3]:
                if isinstance(a_, ast.Name):
                    used_as_inputs.add(a_.id)
    dels = [d for d in ast.walk(fc.node) if isinstance(d, ast.Delete) and any(isinstance(t, ast.Subscript) and isinstance(t.value, ast.Name) and t.value.id in used_as_inputs for t in d.targets)]
    col.check(not dels, f"{fc.fq}::inputs of the result", "the concatenated name replaces part_name in place (the data are concatenated on that axis)",
              f"`{norm(dels[0]) if dels else ''}` removes an entry from a mapping that becomes the inputs of the result, and the new name is inserted afterwards - at the END of the ordered "
              "mapping - while the arrays were concatenated along the axis the removed name had (axis 0): with any other batch input the declared inputs and the layout of the data disagree",
              fc.loc(dels[0]) if dels else fc.loc())
    # ---------------------------------------------------------------- R12.8 values that may be Numbers are not handled as arrays
    _numbers_into_array_workers(prog, col, refs)
    # ---------------------------------------------------------------- R12.9 every coefficient block of an affine substitution is written
    _affine_blocks_written(prog, col, refs)
    # ---------------------------------------------------------------- R12.10 who may take the Cholesky route of _compress_rank
    col.rule("R12.10", "value-preserving rank compression uses the QR route: assume_full_rank=True only where a failure is the specified outcome (sampling)", floor=2)
    ALLOWED_CHOLESKY = {"funsor.gaussian::Gaussian._sample": "sampling needs rank >= dim and raises otherwise; a singular precision has no sample to draw"}
    for g_ in prog.funcs.values():
        if isinstance(g_.node, ast.Lambda):
            continue
        for c_ in walk_no_nested(g_.node):
            if isinstance(c_, ast.Call) and norm(c_.func).endswith("_compress_rank"):
                kw = next((k.value for k in c_.keywords if k.arg == "assume_full_rank"), c_.args[2] if len(c_.args) >= 3 else None)
                construct = f"{g_.fq}::_compress_rank"
                if kw is None or (isinstance(kw, ast.Constant) and kw.value is False):
                    col.ok(construct, "QR route (valid for every over-complete factor)", g_.loc(c_))
                elif g_.fq in ALLOWED_CHOLESKY:
                    col.ok(construct, "Cholesky route in " + g_.fq + ": " + ALLOWED_CHOLESKY[g_.fq], g_.loc(c_))
                elif isinstance(kw, ast.Constant) and kw.value is True and not _keeps_shift(g_, c_):
                    col.unresolved(construct, "Cholesky route at a site outside the who-may-call table that does not keep the shift (not a value-preserving compression)", g_.loc(c_))
                elif isinstance(kw, ast.Constant) and kw.value is True:
                    col.violation(construct, "rank compression here must preserve the quadratic form of ANY over-complete factor, but assume_full_rank=True takes the Cholesky route, "
                                  "which needs prec_sqrt prec_sqrt' to be positive definite: a wide factor with singular precision (several observations of one coordinate) fails or "
                                  "changes value; `rank > dim` by shape does not establish it", g_.loc(c_))
                else:
                    col.unresolved(construct, f"assume_full_rank={norm(kw)} is not a constant", g_.loc(c_))
    # ---------------------------------------------------------------- R12.11 affine extraction (shared with C04 R04.25)
    col.rule("R12.11", "the set algebra of the affine_inputs rules claims an input affine only where the op's law allows it (shared with C04 R04.25)", floor=6)
    c04._affine_calculus(prog, col, refs, cat)
    # ---------------------------------------------------------------- R12.12 blocks that are multiplied together are gathered in the same order
    col.rule("R12.12", "two concatenations of per-input blocks that are multiplied with each other gather their blocks from the same sequence with the same filter", floor=1)
    n12 = 0
    for g_ in prog.functions_in(prog.modules["funsor.gaussian"]):
        if isinstance(g_.node, ast.Lambda):
            continue
        cats_ = {}
        for st in ast.walk(g_.node):
            if isinstance(st, ast.Assign) and len(st.targets) == 1 and isinstance(st.targets[0], ast.Name) and isinstance(st.value, ast.Call) and norm(st.value.func).endswith("cat") \
                    and st.value.args and isinstance(st.value.args[0], (ast.ListComp, ast.GeneratorExp)) and len(st.value.args[0].generators) == 1:
                cats_.setdefault(st.targets[0].id, []).append(st)
        for c_ in ast.walk(g_.node):
            pair = None
            if isinstance(c_, ast.Call) and norm(c_.func).rsplit(".", 1)[-1] in ("_vm", "_mv", "matmul") and len(c_.args) == 2:
                pair = c_.args
            elif isinstance(c_, ast.BinOp) and isinstance(c_.op, ast.MatMult):
                pair = [c_.left, c_.right]
            if not pair or not all(isinstance(x, ast.Name) and len(cats_.get(x.id, [])) == 1 for x in pair):
                continue
            ga, gb = (cats_[x.id][0].value.args[0].generators[0] for x in pair)
            n12 += 1
            construct = f"{g_.fq}::{norm(c_)[:50]}"
            same_iter = norm(ga.iter) == norm(gb.iter)
            # filters compared after renaming the loop targets positionally
            def filt(g):
                names = [norm(t) for t in (g.target.elts if isinstance(g.target, ast.Tuple) else [g.target])]
                out = []
                for t in g.ifs:
                    txt = norm(t)
                    out.append(txt)
                return names, sorted(out)
            (na, fa), (nb, fb) = filt(ga), filt(gb)
            if same_iter and fa == fb and na == nb:
                col.ok(construct, f"both gathered from `{norm(ga.iter)}` under the same filter", g_.loc(c_))
            elif not same_iter:
                col.violation(construct, f"`{pair[0].id}` gathers its blocks from `{norm(ga.iter)}` and `{pair[1].id}` from `{norm(gb.iter)}`: the two are multiplied block against block, so "
                              "they must list the inputs in the same order - a substitution whose pairs are not in the order of the Gaussian's inputs (Subs(g, (('z', vz), ('x', vx)))) pairs "
                              "each value with another input's rows", g_.loc(c_))
            else:
                col.unresolved(construct, f"same sequence but filters {fa} / {fb}", g_.loc(c_))
    if n12 == 0:
        col.unresolved("funsor.gaussian::multiplied concatenations", "no product of two concatenations of per-input blocks found", "funsor/gaussian.py")
    # ---------------------------------------------------------------- R12.4
    from . import c19
    col.rule("R12.4", "the inputs of an aligned result are the requested names, then the remaining inputs (shared with C19 R19.2)", floor=3)
    c19._aligned_inputs(prog, col, refs)
    return col
