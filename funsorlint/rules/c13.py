"""C13 - Gaussian marginals, normalisers and integrals (bookkeeping clauses only).

Exactness of the closed forms is floating-point linear algebra and is NOT decided.  Decided: that Gaussian.eager_reduce accounts for
both halves of its split of the reduced variables on every path, that the kept / marginalised index sets come from the split helper
with the reduced variables as its left set, the layout of the plate fusion (which axes are flattened into the rank axis), and the
index bookkeeping shared with C12.  Nothing of the repository is executed.
"""
from __future__ import annotations

import ast
from typing import List, Optional

from ..catalogue import Catalogue
from ..model import AnalysisError, Func, Program, norm
from ..report import Collector
from .common import Refs, require_func, walk_no_nested

EXPLANATION = (
    "Bookkeeping of Gaussian reductions. R13.1 (engine of C08 R08.20): every value returned by a rule or eager_reduce method that splits "
    "its reduced variables into `V & S` and `V - S` is computed from both halves, or the path has established that the half is empty / "
    "is everything. R13.2: in the logaddexp branch of Gaussian.eager_reduce the index sets come from _split_real_inputs(self.inputs, "
    "<reduced vars>, ...) unpacked as (marginalised, kept), and the blocks of prec_sqrt are taken with exactly those two. R13.3: in the "
    "add branch (plate fusion) the permutation of white_vec is kept ints + reduced ints + [rank axis] and that of prec_sqrt is kept ints "
    "+ [real axis] + reduced ints + [rank axis], and the reshapes keep len(kept) resp. len(kept) + 1 leading axes, so the reduced batch "
    "axes are flattened into the rank axis in the same order for both factors; a real variable among the reduced ones raises. R13.4 "
    "(shared with C12): offsets and block splits follow the inputs in order."
)
ASSUMPTIONS = ["Cholesky / triangular-solve formulas, log_normalizer, Integrate rules and moment matching are not decided"]
RULE_TEXT = "one obligation per return of a splitting rule, per index-set use, per permutation"


def _tokens(e: ast.AST) -> Optional[List[str]]:
    """a list expression built with + from names and [x] displays, as tokens"""
    if isinstance(e, ast.BinOp) and isinstance(e.op, ast.Add):
        a, b = _tokens(e.left), _tokens(e.right)
        return None if a is None or b is None else a + b
    if isinstance(e, ast.Name):
        return [e.id]
    if isinstance(e, ast.List) and len(e.elts) == 1:
        return ["[" + norm(e.elts[0]) + "]"]
    return None


def run(prog: Program, col: Collector, tier: str, refs: Optional[Refs] = None, cat: Optional[Catalogue] = None):
    refs = refs or Refs(prog)
    cat = cat or Catalogue(prog, refs)
    from . import algebra, c12
    algebra.r_split_reduced_vars_accounted(prog, col, refs, cat, "R13.1")
    f = require_func(prog, "funsor.gaussian::Gaussian.eager_reduce")
    selfn, opn, rv = f.positional[:3]
    # ---------------------------------------------------------------- R13.2
    col.rule("R13.2", "marginalisation takes the blocks of prec_sqrt with the index sets of the split (reduced variables = left set)", floor=1)
    splits = [st for st in ast.walk(f.node) if isinstance(st, ast.Assign) and isinstance(st.value, ast.Call) and norm(st.value.func).endswith("_split_real_inputs")]
    construct = f"{f.fq}::split"
    if len(splits) != 1 or not (isinstance(splits[0].targets[0], ast.Tuple) and len(splits[0].targets[0].elts) == 2):
        col.unresolved(construct, "the call of _split_real_inputs was not found", f.loc())
    else:
        st = splits[0]
        red_n, kept_n = (norm(e) for e in st.targets[0].elts)
        args = [norm(a) for a in st.value.args]
        ok_args = len(args) >= 2 and args[0] == f"{selfn}.inputs" and args[1] in (rv, "reduced_reals")
        blocks = {}
        for a in ast.walk(f.node):
            if isinstance(a, ast.Assign) and isinstance(a.value, ast.Subscript) and norm(a.value.value) == f"{selfn}.prec_sqrt" and isinstance(a.targets[0], ast.Name):
                idx = a.value.slice
                names = [norm(e) for e in (idx.elts if isinstance(idx, ast.Tuple) else [idx])]
                blocks[a.targets[0].id] = names
        used = sorted(n_ for names in blocks.values() for n_ in names if n_ in (red_n, kept_n))
        rows_ok = all(len(names) == 3 and names[0] == "..." and names[2] == ":" for names in blocks.values()) if blocks else False
        # which block is the marginalised one: the helper's third parameter is the block that is integrated out, the fourth the kept one
        role_ok = True
        for c in ast.walk(f.node):
            if isinstance(c, ast.Call) and isinstance(c.func, ast.Attribute) and c.func.attr == "_marginalize_after_split" and len(c.args) >= 4:
                m_blk, k_blk = norm(c.args[2]), norm(c.args[3])
                role_ok = blocks.get(m_blk, [None, None])[1] == red_n and blocks.get(k_blk, [None, None])[1] == kept_n
        ok_args = ok_args and role_ok
        col.check(ok_args and used == sorted([red_n, kept_n]) and rows_ok, construct,
                  f"{red_n}, {kept_n} = _split_real_inputs(self.inputs, {rv}, …); prec_sqrt[..., {kept_n}, :] and prec_sqrt[..., {red_n}, :]",
                  "the marginalised and the kept rows of prec_sqrt are not taken with the two index sets returned by the split of self.inputs at the reduced variables "
                  f"(got arguments {args[:2]}, blocks {blocks}): rows of other inputs would be integrated out", f.loc(st))
    # ---------------------------------------------------------------- R13.3
    col.rule("R13.3", "plate fusion flattens the reduced batch axes into the rank axis, in the same order for both factors", floor=2)
    perms = sorted([st for st in ast.walk(f.node) if isinstance(st, ast.Assign) and isinstance(st.targets[0], ast.Name) and _tokens(st.value) is not None and len(_tokens(st.value)) >= 3],
                   key=lambda s: s.lineno)
    # the two accumulators filled with positions: appended `i` under `k in reduced_vars` / else
    acc = {}
    for c in ast.walk(f.node):
        if isinstance(c, ast.Call) and isinstance(c.func, ast.Attribute) and c.func.attr == "append" and isinstance(c.func.value, ast.Name) and c.args and isinstance(c.args[0], ast.Name):
            guards = [a for a in f.module.ancestors(c) if isinstance(a, ast.If)]
            for g in guards:
                t, neg = g.test, False
                while isinstance(t, ast.UnaryOp) and isinstance(t.op, ast.Not):
                    t, neg = t.operand, not neg
                if isinstance(t, ast.Compare) and len(t.ops) == 1 and isinstance(t.ops[0], (ast.In, ast.NotIn)) and norm(t.comparators[0]) == rv:
                    inside_body = any(c is y for st_ in g.body for y in ast.walk(st_))
                    is_reduced = (inside_body == isinstance(t.ops[0], ast.In)) != neg
                    acc[c.func.value.id] = "reduced" if is_reduced else "kept"
    kept = [k for k, v in acc.items() if v == "kept"]
    red = [k for k, v in acc.items() if v == "reduced"]
    construct = f"{f.fq}::plate fusion"
    if len(kept) != 1 or len(red) != 1 or len(perms) < 2:
        col.unresolved(construct, "kept / reduced position lists or the two permutations not found", f.loc())
    else:
        K, R = kept[0], red[0]
        nname = next((norm(st.targets[0]) for st in ast.walk(f.node) if isinstance(st, ast.Assign) and isinstance(st.targets[0], ast.Name)
                      and norm(st.value) in (f"len({K}) + len({R})", f"len({R}) + len({K})")), None)
        tw, tp = _tokens(perms[0].value), _tokens(perms[1].value)
        ok_w = nname is not None and tw == [K, R, f"[{nname}]"]
        ok_p = nname is not None and tp == [K, f"[{nname}]", R, f"[{nname} + 1]"]
        col.check(ok_w, construct + "::white_vec", f"perm = {K} + {R} + [n]", f"white_vec is permuted with {tw}: the kept batch axes must come first, then the reduced ones, then the rank axis, "
                  "so that the reshape merges exactly the reduced axes into the rank axis", f.loc(perms[0]))
        col.check(ok_p, construct + "::prec_sqrt", f"perm = {K} + [n] + {R} + [n + 1]", f"prec_sqrt is permuted with {tp}: kept batch axes, the real-dim axis, the reduced axes, the rank axis - "
                  "in the same order of the reduced axes as for white_vec", f.loc(perms[1]))
        resh = [c for c in ast.walk(f.node) if isinstance(c, ast.Call) and isinstance(c.func, ast.Attribute) and c.func.attr == "reshape" and c.args and f"len({K})" in norm(c.args[0])]
        pre = sorted(norm(c.args[0]) for c in resh)
        ok_r = len(resh) == 2 and any(f"[:len({K})]" in x.replace(" ", "") for x in pre) and any(f"[:len({K})+1]" in x.replace(" ", "") for x in pre)
        col.check(ok_r, construct + "::reshape", f"white_vec keeps len({K}) leading axes, prec_sqrt len({K}) + 1", f"the reshapes keep {pre}: the reduced batch axes are not the ones merged into the rank axis",
                  f.loc(resh[0]) if resh else f.loc())
        # the positions appended to the two lists number the BATCH axes, i.e. count the integer inputs only: an enumerate() index over all of
        # self.inputs also counts the real inputs, which have no axis of their own
        pos_names = {c.args[0].id for c in ast.walk(f.node) if isinstance(c, ast.Call) and isinstance(c.func, ast.Attribute) and c.func.attr == "append"
                     and isinstance(c.func.value, ast.Name) and c.func.value.id in (K, R) and c.args and isinstance(c.args[0], ast.Name)}
        for pn in sorted(pos_names):
            enum_loops = [lp for lp in ast.walk(f.node) if isinstance(lp, ast.For) and isinstance(lp.iter, ast.Call) and norm(lp.iter.func) == "enumerate" and isinstance(lp.target, ast.Tuple)
                          and norm(lp.target.elts[0]) == pn and any(isinstance(y, ast.Attribute) and y.attr == "inputs" for y in ast.walk(lp.iter))]
            counted = [st for st in ast.walk(f.node) if isinstance(st, ast.Assign) and norm(st.targets[0]) == pn and isinstance(st.value, ast.Call) and norm(st.value.func) == "len"]
            col.check(not enum_loops or bool(counted), construct + f"::position `{pn}`", "axis positions count the integer inputs only",
                      f"`{pn}` is the enumerate() index over all inputs of the Gaussian, real ones included, but white_vec / prec_sqrt have one leading axis per INTEGER input: with a real "
                      "input in front of an integer one the permutation names an axis twice or out of range, and the plate sum does not complete", f.loc(enum_loops[0]) if enum_loops else f.loc())
        raises = [r for r in ast.walk(f.node) if isinstance(r, ast.Raise) and any(isinstance(a, ast.If) and rv in norm(a.test) and "in" in norm(a.test) for a in f.module.ancestors(r))]
        col.check(bool(raises), construct + "::real variables", "summing along a real input raises", "a real input among the reduced variables of a plate sum is not rejected", f.loc())
    # ---------------------------------------------------------------- R13.5 integration is linear: integer variables are summed with add
    col.rule("R13.5", "Integrate rules sum the non-real reduced variables with ops.add", floor=2)
    for reg in cat.registrations:
        g_ = reg.target
        if g_ is None or not reg.pattern or isinstance(g_.node, ast.Lambda) or refs.resolve(reg.pattern[0]) != "funsor.integrate.Integrate":
            continue
        for c in ast.walk(g_.node):
            if isinstance(c, ast.Call) and isinstance(c.func, ast.Attribute) and c.func.attr == "reduce" and len(c.args) == 2 and isinstance(c.args[1], ast.BinOp) and isinstance(c.args[1].op, ast.Sub) \
                    and "reduced" in norm(c.args[1].left):
                o = cat.resolve_op(g_.module, c.args[0]) if isinstance(c.args[0], (ast.Name, ast.Attribute)) else None
                from .. import axioms
                ab = axioms.identify(cat, o) if o is not None else None
                col.check(ab == "ADD", f"{g_.fq}::{norm(c)[:60]}", "the remaining (integer) reduced variables are summed with add",
                          f"`{norm(c)[:60]}` reduces the remaining variables with `{norm(c.args[0])}`: an integral is linear in the measure, so the integer variables of a mixture are summed "
                          "with ops.add (in linear space), whatever op the measure's own normaliser uses", g_.loc(c))
    # ---------------------------------------------------------------- R13.6 after alignment only the aligned factors are read
    col.rule("R13.6", "once a Gaussian was aligned, its raw white_vec / prec_sqrt are not read again in the same function", floor=2)
    for g_ in prog.funcs.values():
        if isinstance(g_.node, ast.Lambda):
            continue
        als = [st for st in ast.walk(g_.node) if isinstance(st, ast.Assign) and isinstance(st.value, ast.Call) and norm(st.value.func).endswith("align_gaussian") and len(st.value.args) >= 2
               and isinstance(st.value.args[1], ast.Name)]
        for a in als:
            X = st_name = a.value.args[1].id
            stale = [y for y in ast.walk(g_.node) if isinstance(y, ast.Attribute) and y.attr in ("white_vec", "prec_sqrt") and isinstance(y.value, ast.Name) and y.value.id == X
                     and getattr(y, "lineno", 0) > a.lineno]
            col.check(not stale, f"{g_.fq}::align_gaussian(…, {X})", f"after the alignment only the aligned factors of `{X}` are used",
                      f"`{norm(stale[0]) if stale else ''}` is read after `{X}` was aligned: the raw factor still has `{X}`'s own order of real inputs and batch layout, so it is combined "
                      "with the other operand's blocks under the wrong inputs whenever the two layouts differ", g_.loc(stale[0]) if stale else g_.loc(a))
    # ---------------------------------------------------------------- R13.7 the rank test of the marginalisation helper
    col.rule("R13.7", "what remains after integrating a block out is decided by comparing the rank with the size of THAT block", floor=1)
    h = prog.funcs.get("funsor.gaussian::Gaussian._marginalize_after_split")
    if h is None:
        raise AnalysisError("anchor Gaussian._marginalize_after_split not found")
    blk_a = h.positional[3]
    dims = {norm(st.targets[0]): norm(st.value) for st in walk_no_nested(h.node) if isinstance(st, ast.Assign) and isinstance(st.targets[0], ast.Name) and ".shape[" in norm(st.value)}
    tests = [n_ for n_ in walk_no_nested(h.node) if isinstance(n_, ast.If) and "rank" in norm(n_.test)]
    for t_ in tests:
        names = [y.id for y in ast.walk(t_.test) if isinstance(y, ast.Name) and y.id in dims]
        ok = bool(names) and all(dims[nm].startswith(blk_a + ".") for nm in names)
        col.check(ok, f"{h.fq}::if {norm(t_.test)}", f"the rank is compared with the size of the integrated block `{blk_a}`",
                  f"`{norm(t_.test)}` compares the rank with {', '.join(f'{nm} = {dims[nm]}' for nm in names) or 'something else'}: information about the remaining inputs is left exactly "
                  f"when rank > dim({blk_a}); comparing with the other block drops (or invents) the Gaussian over the remaining inputs for rank-deficient factors", h.loc(t_))
    # ---------------------------------------------------------------- R13.4
    col.rule("R13.4", "offsets and block splits follow the inputs in order (shared with C12 R12.1 / R12.2)", floor=2)
    sub = Collector("C12")
    c12.run(prog, sub, tier, refs, cat)
    for rr in sub.rules:
        if rr.rule in ("R12.1", "R12.2"):
            for o in rr.obligations:
                col.cur.obligations.append(o)
    return col
