"""C13 - Gaussian marginals, normalisers and integrals (bookkeeping clauses only).

Exactness of the closed forms is floating-point linear algebra and is NOT decided.  Decided: that Gaussian.eager_reduce accounts for
both halves of its split of the reduced variables on every path, that the kept / marginalised index sets come from the split helper
with the reduced variables as its left set, the layout of the plate fusion (which axes are flattened into the rank axis), and the
index bookkeeping shared with C12.  Nothing of the repository is executed.
"""
from __future__ import annotations

import ast
from typing import List, Optional

from ..catalogue import Catalogue
from ..model import AnalysisError, Func, Program, norm
from ..report import Collector
from .common import Refs, require_func, walk_no_nested

EXPLANATION = (
    "Bookkeeping of Gaussian reductions. R13.1 (engine of C08 R08.20): every value returned by a rule or eager_reduce method that splits "
    "its reduced variables into `V & S` and `V - S` is computed from both halves, or the path has established that the half is empty / "
    "is everything. R13.2: in the logaddexp branch of Gaussian.eager_reduce the index sets come from _split_real_inputs(self.inputs, "
    "<reduced vars>, ...) unpacked as (marginalised, kept), and the blocks of prec_sqrt are taken with exactly those two. R13.3: in the "
    "add branch (plate fusion) the permutation of white_vec is kept ints + reduced ints + [rank axis] and that of prec_sqrt is kept ints "
    "+ [real axis] + reduced ints + [rank axis], and the reshapes keep len(kept) resp. len(kept) + 1 leading axes, so the reduced batch "
    "axes are flattened into the rank axis in the same order for both factors; a real variable among the reduced ones raises. R13.4 "
    "(shared with C12): offsets and block splits follow the inputs in order. R13.5: Integrate rules sum the remaining integer variables with "
    "ops.add. R13.6: after align_gaussian(…, X) the raw factors of X are not read again, and a branch that skips the alignment is guarded by "
    "an order-sensitive comparison. R13.7: _marginalize_after_split compares the rank with the size of the integrated block. R13.8 / R13.9 "
    "(set evaluator over worlds of at most three inputs, each real or integer, reduced or kept, of the measure / the integrand / both): a "
    "Gaussian-mixture rule hands the integral to the Gaussian component alone only when no integer variable is reduced; where a rule returns "
    "Tensor(data, I).reduce(op, S), S lies within I and I is exactly the integer inputs of the operands. R13.10: factors aligned to inputs "
    "merged from several operands are expanded (expand=True) before a Gaussian is declared over the merged inputs."
    " R13.11: a stripped negation is compensated. R13.12: a rule that takes the .terms of a GaussianMixture operand apart consults its reduced_vars / red_op. R13.13: _marginalize_after_split keeps the normaliser it starts with. R13.14: the mass multiplied in by an Integrate rule is exp of the measure's log-normaliser. R13.15: a factor from which a block was projected out is not handed on with its full column count as the declared rank (known finding F52)."
)
ASSUMPTIONS = ["Cholesky / triangular-solve formulas, log_normalizer, the closed forms of the Integrate rules and moment matching are not decided",
               "the data computed by the Integrate rules from means and normalisers has exactly the batch axes of the operands (R13.9)"]
RULE_TEXT = "one obligation per return of a splitting rule, per index-set use, per permutation"


def _tokens(e: ast.AST) -> Optional[List[str]]:
    """a list expression built with + from names and [x] displays, as tokens"""
    if isinstance(e, ast.BinOp) and isinstance(e.op, ast.Add):
        a, b = _tokens(e.left), _tokens(e.right)
        return None if a is None or b is None else a + b
    if isinstance(e, ast.Name):
        return [e.id]
    if isinstance(e, ast.List) and len(e.elts) == 1:
        return ["[" + norm(e.elts[0]) + "]"]
    return None


def _accumulator_kept(prog: Program, col: Collector, refs: Refs):
    """Gaussian._marginalize_after_split starts its result with the normaliser of the integrated block (a Tensor) and ADDS what remains -
    a Gaussian over the kept inputs, or an empty one - in each arm of its rank test.  A plain re-assignment of the returned name that does
    not mention it drops the normaliser."""
    h = require_func(prog, "funsor.gaussian::Gaussian._marginalize_after_split")
    rets = [r for r in walk_no_nested(h.node) if isinstance(r, ast.Return) and isinstance(r.value, ast.Name)]
    if not rets:
        col.unresolved(f"{h.fq}::result", "the helper does not return a local", h.loc())
        return
    acc = rets[0].value.id
    stores = sorted([st for st in ast.walk(h.node) if (isinstance(st, ast.Assign) and len(st.targets) == 1 and norm(st.targets[0]) == acc) or (isinstance(st, ast.AugAssign) and norm(st.target) == acc)],
                    key=lambda s_: s_.lineno)
    for st in stores[1:]:
        construct = f"{h.fq}::{norm(st)[:50]}"
        if isinstance(st, ast.AugAssign):
            col.check(isinstance(st.op, ast.Add), construct, "added to the normaliser term", f"`{acc}` is combined with `{type(st.op).__name__}`: log-densities add", h.loc(st))
        else:
            keeps = any(isinstance(y, ast.Name) and y.id == acc for y in ast.walk(st.value))
            col.check(keeps, construct, f"the new value still contains `{acc}`",
                      f"`{acc}` is overwritten by `{norm(st.value)[:40]}`: the normaliser of the integrated block computed above is dropped, so a partial marginal / partial sample of a "
                      "Gaussian whose rank equals the integrated dimension loses its mass", h.loc(st))


def _integrate_set_bookkeeping(prog: Program, col: Collector, refs: Refs, cat: Catalogue):
    """The Integrate rules whose measure is a Gaussian (mixture) decide by set algebra over the reduced variables which inputs the result
    keeps and which are summed afterwards.  Interpreted in every world of at most three inputs (real / integer, reduced / kept, of the
    measure / the integrand / both) by the analyser's set evaluator:
    R13.8 a rule for a mixture `discrete + gaussian` hands the integral to the Gaussian component alone only on paths where no INTEGER
          variable is reduced (the discrete component depends on the integer inputs, so their sum does not commute with the product);
    R13.9 where a rule returns `Tensor(data, I).reduce(op, S)`: S is contained in I (a name dropped from I cannot be summed any more), I has
          no real input, and I keeps every integer input of the operands (the data computed from means / normalisers has exactly the batch axes)."""
    from . import setworlds as sw
    col.rule("R13.8", "a Gaussian-mixture Integrate rule pushes the integral onto the Gaussian component only when every reduced variable is real", floor=1)
    r8 = col.cur
    col.rule("R13.9", "Tensor(data, I).reduce(op, S) in an Integrate rule: S within I, I = the integer inputs of the operands", floor=2)
    r9 = col.cur
    n8 = n9 = 0
    for reg in cat.registrations:
        g_ = reg.target
        if g_ is None or not reg.pattern or isinstance(g_.node, ast.Lambda) or refs.resolve(reg.pattern[0]) != "funsor.integrate.Integrate" or len(reg.pattern) < 4:
            continue
        measure = (refs.resolve(reg.pattern[1]) or "").rsplit(".", 1)[-1] if isinstance(reg.pattern[1], (ast.Name, ast.Attribute)) else norm(reg.pattern[1])
        if measure not in ("Gaussian", "GaussianMixture") or len(g_.positional) != 3:
            continue
        pm, pi, pr = g_.positional
        reads_inputs_of = {y.value.id for y in ast.walk(g_.node) if isinstance(y, ast.Attribute) and y.attr in ("inputs", "input_vars") and isinstance(y.value, ast.Name)}
        # findings keyed by construct; first witness world kept
        bad: dict = {}
        good: dict = {}
        unk: dict = {}

        def note(table, key, msg, node):
            table.setdefault(key, (msg, node))

        def on_stmt(st, en, g_=g_, pm=pm, pi=pi, pr=pr):
            W = en["<world>"]
            # R13.8: nested Integrate(<component>, ..., R) in a mixture rule
            if measure == "GaussianMixture" and isinstance(st, (ast.Return, ast.Assign, ast.Expr, ast.AugAssign)) and st.value is not None:
                for c in ast.walk(st.value):
                    if isinstance(c, ast.Call) and (refs.resolve(c.func) or "").endswith("Integrate") and len(c.args) == 3 and norm(c.args[0]) != pm:
                        key = f"{g_.fq}::{norm(c)[:60]}"
                        R = sw.ev(c.args[2], en)
                        if not isinstance(R, frozenset):
                            note(unk, key, f"the reduced variables `{norm(c.args[2])}` handed on are not a set expression the evaluator knows", c)
                        elif any(a.dtype != "real" for a in R):
                            note(bad, key, f"reached with an integer variable among `{norm(c.args[2])}` (world: {sorted(map(repr, W))}): the integral is pushed onto the Gaussian component "
                                 "alone, but the discrete component depends on that integer input - the sum over it is taken of the Gaussian's integral only and the weights are "
                                 "multiplied in afterwards, so the result still depends on the variable and has the wrong value", c)
                        else:
                            note(good, key, "on every path that reaches it the reduced variables are all real", c)
            if not isinstance(st, ast.Return) or st.value is None:
                return
            # R13.9: Tensor(data, I).reduce(op, S)
            v = st.value
            if isinstance(v, ast.Call) and isinstance(v.func, ast.Attribute) and v.func.attr == "reduce" and len(v.args) == 2:
                recv = v.func.value
                if isinstance(recv, ast.Name):
                    recv = en.get("<def>" + recv.id)
                if isinstance(recv, ast.Call) and (refs.resolve(recv.func) or "").endswith("Tensor") and len(recv.args) >= 2:
                    key = f"{g_.fq}::{norm(v)[:60]}"
                    I = en.get("<val>" + norm(v.func.value)) if isinstance(v.func.value, ast.Name) else sw.ev(recv.args[1], en)
                    S = sw.ev(v.args[1], en)
                    if not isinstance(I, frozenset) or not isinstance(S, frozenset):
                        note(unk, key, f"inputs `{norm(recv.args[1])}` or reduced set `{norm(v.args[1])}` not evaluated", v)
                        return
                    sides = {"lhs"} | ({"rhs"} if pi in reads_inputs_of else set())
                    rel = frozenset(a for a in W if a.where == "both" or a.where in sides)  # inputs of the operands this rule looks at
                    I, S = I & rel, S & rel
                    ints = frozenset(a for a in rel if a.dtype != "real")
                    if not S <= I:
                        note(bad, key, f"in the world {sorted(map(repr, W))} the result is built over {sorted(map(repr, I))} and then asked to sum {sorted(map(repr, S - I))}, "
                             "which is no longer among its inputs while the data still has that axis: the construction fails (or the axis is attributed to another input) whenever an "
                             "integer variable is reduced together with the real ones", v)
                    elif any(a.dtype == "real" for a in I):
                        note(bad, key, f"in the world {sorted(map(repr, W))} the inputs of the result keep the real input(s) {sorted(repr(a) for a in I if a.dtype == 'real')}, "
                             "which the data (batch axes only) has no axis for", v)
                    elif not ints <= I:
                        note(bad, key, f"in the world {sorted(map(repr, W))} the integer input(s) {sorted(map(repr, ints - I))} are missing from the inputs of the result although the "
                             "data has an axis for each", v)
                    else:
                        note(good, key, "in every world the summed names are inputs of the result, which are exactly the integer inputs of the operands", v)

        def on_stmt_track(st, en):
            on_stmt(st, en)
            if isinstance(st, ast.Assign) and len(st.targets) == 1 and isinstance(st.targets[0], ast.Name) and isinstance(st.value, ast.Call) \
                    and (refs.resolve(st.value.func) or "").endswith("Tensor") and len(st.value.args) >= 2:
                en["<def>" + st.targets[0].id] = st.value
                en["<val>" + st.targets[0].id] = sw.ev(st.value.args[1], en)

        try:
            for W in sw.worlds(3):
                env = {"<world>": W, pm: sw.Operand("lhs"), pi: sw.Operand("rhs"), pr: frozenset(a for a in W if a.reduced)}
                sw.run_paths(g_.node.body, env, on_stmt_track, [20000])
        except OverflowError:
            col.cur = r9
            col.unresolved(f"{g_.fq}", "path budget of the set evaluator exhausted", g_.loc())
            continue
        for table, kind in ((bad, "violation"), (unk, "unresolved"), (good, "ok")):
            for key, (msg, node) in table.items():
                if kind == "ok" and (key in bad or key in unk):
                    continue
                if kind == "unresolved" and key in bad:
                    continue
                col.cur = r8 if "Integrate(" in key.split("::", 2)[-1] else r9
                getattr(col, kind)(key, msg, g_.loc(node))
                if col.cur is r8:
                    n8 += 1
                else:
                    n9 += 1
    col.cur = r9


def run(prog: Program, col: Collector, tier: str, refs: Optional[Refs] = None, cat: Optional[Catalogue] = None):
    refs = refs or Refs(prog)
    cat = cat or Catalogue(prog, refs)
    from . import algebra, c12
    algebra.r_split_reduced_vars_accounted(prog, col, refs, cat, "R13.1")
    f = require_func(prog, "funsor.gaussian::Gaussian.eager_reduce")
    selfn, opn, rv = f.positional[:3]
    # ---------------------------------------------------------------- R13.2
    col.rule("R13.2", "marginalisation takes the blocks of prec_sqrt with the index sets of the split (reduced variables = left set)", floor=1)
    splits = [st for st in ast.walk(f.node) if isinstance(st, ast.Assign) and isinstance(st.value, ast.Call) and norm(st.value.func).endswith("_split_real_inputs")]
    construct = f"{f.fq}::split"
    if len(splits) != 1 or not (isinstance(splits[0].targets[0], ast.Tuple) and len(splits[0].targets[0].elts) == 2):
        col.unresolved(construct, "the call of _split_real_inputs was not found", f.loc())
    else:
        st = splits[0]
        red_n, kept_n = (norm(e) for e in st.targets[0].elts)
        args = [norm(a) for a in st.value.args]
        ok_args = len(args) >= 2 and args[0] == f"{selfn}.inputs" and args[1] in (rv, "reduced_reals")
        blocks = {}
        for a in ast.walk(f.node):
            if isinstance(a, ast.Assign) and isinstance(a.value, ast.Subscript) and norm(a.value.value) == f"{selfn}.prec_sqrt" and isinstance(a.targets[0], ast.Name):
                idx = a.value.slice
                names = [norm(e) for e in (idx.elts if isinstance(idx, ast.Tuple) else [idx])]
                blocks[a.targets[0].id] = names
        used = sorted(n_ for names in blocks.values() for n_ in names if n_ in (red_n, kept_n))
        rows_ok = all(len(names) == 3 and names[0] == "..." and names[2] == ":" for names in blocks.values()) if blocks else False
        # which block is the marginalised one: the helper's third parameter is the block that is integrated out, the fourth the kept one
        role_ok = True
        for c in ast.walk(f.node):
            if isinstance(c, ast.Call) and isinstance(c.func, ast.Attribute) and c.func.attr == "_marginalize_after_split" and len(c.args) >= 4:
                m_blk, k_blk = norm(c.args[2]), norm(c.args[3])
                role_ok = blocks.get(m_blk, [None, None])[1] == red_n and blocks.get(k_blk, [None, None])[1] == kept_n
        ok_args = ok_args and role_ok
        col.check(ok_args and used == sorted([red_n, kept_n]) and rows_ok, construct,
                  f"{red_n}, {kept_n} = _split_real_inputs(self.inputs, {rv}, …); prec_sqrt[..., {kept_n}, :] and prec_sqrt[..., {red_n}, :]",
                  "the marginalised and the kept rows of prec_sqrt are not taken with the two index sets returned by the split of self.inputs at the reduced variables "
                  f"(got arguments {args[:2]}, blocks {blocks}): rows of other inputs would be integrated out", f.loc(st))
    # ---------------------------------------------------------------- R13.3
    col.rule("R13.3", "plate fusion flattens the reduced batch axes into the rank axis, in the same order for both factors", floor=2)
    perms = sorted([st for st in ast.walk(f.node) if isinstance(st, ast.Assign) and isinstance(st.targets[0], ast.Name) and _tokens(st.value) is not None and len(_tokens(st.value)) >= 3],
                   key=lambda s: s.lineno)
    # the two accumulators filled with positions: appended `i` under `k in reduced_vars` / else
    acc = {}
    for c in ast.walk(f.node):
        if isinstance(c, ast.Call) and isinstance(c.func, ast.Attribute) and c.func.attr == "append" and isinstance(c.func.value, ast.Name) and c.args and isinstance(c.args[0], ast.Name):
            guards = [a for a in f.module.ancestors(c) if isinstance(a, ast.If)]
            for g in guards:
                t, neg = g.test, False
                while isinstance(t, ast.UnaryOp) and isinstance(t.op, ast.Not):
                    t, neg = t.operand, not neg
                if isinstance(t, ast.Compare) and len(t.ops) == 1 and isinstance(t.ops[0], (ast.In, ast.NotIn)) and norm(t.comparators[0]) == rv:
                    inside_body = any(c is y for st_ in g.body for y in ast.walk(st_))
                    is_reduced = (inside_body == isinstance(t.ops[0], ast.In)) != neg
                    acc[c.func.value.id] = "reduced" if is_reduced else "kept"
    kept = [k for k, v in acc.items() if v == "kept"]
    red = [k for k, v in acc.items() if v == "reduced"]
    construct = f"{f.fq}::plate fusion"
    if len(kept) != 1 or len(red) != 1 or len(perms) < 2:
        col.unresolved(construct, "kept / reduced position lists or the two permutations not found", f.loc())
    else:
        K, R = kept[0], red[0]
        nname = next((norm(st.targets[0]) for st in ast.walk(f.node) if isinstance(st, ast.Assign) and isinstance(st.targets[0], ast.Name)
                      and norm(st.value) in (f"len({K}) + len({R})", f"len({R}) + len({K})")), None)
        tw, tp = _tokens(perms[0].value), _tokens(perms[1].value)
        ok_w = nname is not None and tw == [K, R, f"[{nname}]"]
        ok_p = nname is not None and tp == [K, f"[{nname}]", R, f"[{nname} + 1]"]
        col.check(ok_w, construct + "::white_vec", f"perm = {K} + {R} + [n]", f"white_vec is permuted with {tw}: the kept batch axes must come first, then the reduced ones, then the rank axis, "
                  "so that the reshape merges exactly the reduced axes into the rank axis", f.loc(perms[0]))
        col.check(ok_p, construct + "::prec_sqrt", f"perm = {K} + [n] + {R} + [n + 1]", f"prec_sqrt is permuted with {tp}: kept batch axes, the real-dim axis, the reduced axes, the rank axis - "
                  "in the same order of the reduced axes as for white_vec", f.loc(perms[1]))
        resh = [c for c in ast.walk(f.node) if isinstance(c, ast.Call) and isinstance(c.func, ast.Attribute) and c.func.attr == "reshape" and c.args and f"len({K})" in norm(c.args[0])]
        pre = sorted(norm(c.args[0]) for c in resh)
        ok_r = len(resh) == 2 and any(f"[:len({K})]" in x.replace(" ", "") for x in pre) and any(f"[:len({K})+1]" in x.replace(" ", "") for x in pre)
        col.check(ok_r, construct + "::reshape", f"white_vec keeps len({K}) leading axes, prec_sqrt len({K}) + 1", f"the reshapes keep {pre}: the reduced batch axes are not the ones merged into the rank axis",
                  f.loc(resh[0]) if resh else f.loc())
        # the positions appended to the two lists number the BATCH axes, i.e. count the integer inputs only: an enumerate() index over all of
        # self.inputs also counts the real inputs, which have no axis of their own
        pos_names = {c.args[0].id for c in ast.walk(f.node) if isinstance(c, ast.Call) and isinstance(c.func, ast.Attribute) and c.func.attr == "append"
                     and isinstance(c.func.value, ast.Name) and c.func.value.id in (K, R) and c.args and isinstance(c.args[0], ast.Name)}
        for pn in sorted(pos_names):
            enum_loops = [lp for lp in ast.walk(f.node) if isinstance(lp, ast.For) and isinstance(lp.iter, ast.Call) and norm(lp.iter.func) == "enumerate" and isinstance(lp.target, ast.Tuple)
                          and norm(lp.target.elts[0]) == pn and any(isinstance(y, ast.Attribute) and y.attr == "inputs" for y in ast.walk(lp.iter))]
            counted = [st for st in ast.walk(f.node) if isinstance(st, ast.Assign) and norm(st.targets[0]) == pn and isinstance(st.value, ast.Call) and norm(st.value.func) == "len"]
            col.check(not enum_loops or bool(counted), construct + f"::position `{pn}`", "axis positions count the integer inputs only",
                      f"`{pn}` is the enumerate() index over all inputs of the Gaussian, real ones included, but white_vec / prec_sqrt have one leading axis per INTEGER input: with a real "
                      "input in front of an integer one the permutation names an axis twice or out of range, and the plate sum does not complete", f.loc(enum_loops[0]) if enum_loops else f.loc())
        raises = [r for r in ast.walk(f.node) if isinstance(r, ast.Raise) and any(isinstance(a, ast.If) and rv in norm(a.test) and "in" in norm(a.test) for a in f.module.ancestors(r))]
        col.check(bool(raises), construct + "::real variables", "summing along a real input raises", "a real input among the reduced variables of a plate sum is not rejected", f.loc())
    # ---------------------------------------------------------------- R13.5 integration is linear: integer variables are summed with add
    col.rule("R13.5", "Integrate rules sum the non-real reduced variables with ops.add", floor=2)
    for reg in cat.registrations:
        g_ = reg.target
        if g_ is None or not reg.pattern or isinstance(g_.node, ast.Lambda) or refs.resolve(reg.pattern[0]) != "funsor.integrate.Integrate":
            continue
        for c in ast.walk(g_.node):
            if isinstance(c, ast.Call) and isinstance(c.func, ast.Attribute) and c.func.attr == "reduce" and len(c.args) == 2 and isinstance(c.args[1], ast.BinOp) and isinstance(c.args[1].op, ast.Sub) \
                    and "reduced" in norm(c.args[1].left):
                o = cat.resolve_op(g_.module, c.args[0]) if isinstance(c.args[0], (ast.Name, ast.Attribute)) else None
                from .. import axioms
                ab = axioms.identify(cat, o) if o is not None else None
                col.check(ab == "ADD", f"{g_.fq}::{norm(c)[:60]}", "the remaining (integer) reduced variables are summed with add",
                          f"`{norm(c)[:60]}` reduces the remaining variables with `{norm(c.args[0])}`: an integral is linear in the measure, so the integer variables of a mixture are summed "
                          "with ops.add (in linear space), whatever op the measure's own normaliser uses", g_.loc(c))
    # ---------------------------------------------------------------- R13.6 after alignment only the aligned factors are read
    col.rule("R13.6", "once a Gaussian was aligned, its raw white_vec / prec_sqrt are not read again in the same function", floor=2)
    for g_ in prog.funcs.values():
        if isinstance(g_.node, ast.Lambda):
            continue
        als = [st for st in ast.walk(g_.node) if isinstance(st, ast.Assign) and isinstance(st.value, ast.Call) and norm(st.value.func).endswith("align_gaussian") and len(st.value.args) >= 2
               and isinstance(st.value.args[1], ast.Name)]
        for a in als:
            X = st_name = a.value.args[1].id
            stale = [y for y in ast.walk(g_.node) if isinstance(y, ast.Attribute) and y.attr in ("white_vec", "prec_sqrt") and isinstance(y.value, ast.Name) and y.value.id == X
                     and getattr(y, "lineno", 0) > a.lineno]
            col.check(not stale, f"{g_.fq}::align_gaussian(…, {X})", f"after the alignment only the aligned factors of `{X}` are used",
                      f"`{norm(stale[0]) if stale else ''}` is read after `{X}` was aligned: the raw factor still has `{X}`'s own order of real inputs and batch layout, so it is combined "
                      "with the other operand's blocks under the wrong inputs whenever the two layouts differ", g_.loc(stale[0]) if stale else g_.loc(a))
            # a raw read in the OTHER arm of a conditional around the alignment is a fast path that skips it: sound only under an order-sensitive test
            from .kernels import _order_sensitive_inputs_test
            seen_ifs = set()
            for y in ast.walk(g_.node):
                if not (isinstance(y, ast.Attribute) and y.attr in ("white_vec", "prec_sqrt") and isinstance(y.value, ast.Name) and y.value.id == X) or y in stale:
                    continue
                for if_ in [x for x in g_.module.ancestors(y) if isinstance(x, ast.If)]:
                    in_body = lambda n_, blk: any(n_ is z for st_ in blk for z in ast.walk(st_))
                    if id(if_) not in seen_ifs and ((in_body(y, if_.body) and in_body(a, if_.orelse)) or (in_body(y, if_.orelse) and in_body(a, if_.body))):
                        seen_ifs.add(id(if_))
                        verdict, why_ = _order_sensitive_inputs_test(if_.test)
                        construct = f"{g_.fq}::align_gaussian(…, {X}) skipped"
                        if verdict is False:
                            col.violation(construct, f"{why_}; `{norm(y)}` is then combined with the other operand's aligned blocks although `{X}` lists its inputs in another order", g_.loc(if_))
                        elif verdict is None:
                            col.unresolved(construct, f"`{X}` is aligned only under `{norm(if_.test)[:50]}`", g_.loc(if_))
                        else:
                            col.ok(construct, "the alignment is skipped only when the inputs agree as ordered mappings", g_.loc(if_))
    # ---------------------------------------------------------------- R13.7 the rank test of the marginalisation helper
    col.rule("R13.7", "what remains after integrating a block out is decided by comparing the rank with the size of THAT block", floor=1)
    h = prog.funcs.get("funsor.gaussian::Gaussian._marginalize_after_split")
    if h is None:
        raise AnalysisError("anchor Gaussian._marginalize_after_split not found")
    blk_a = h.positional[3]
    dims = {norm(st.targets[0]): norm(st.value) for st in walk_no_nested(h.node) if isinstance(st, ast.Assign) and isinstance(st.targets[0], ast.Name) and ".shape[" in norm(st.value)}
    tests = [n_ for n_ in walk_no_nested(h.node) if isinstance(n_, ast.If) and "rank" in norm(n_.test)]
    for t_ in tests:
        names = [y.id for y in ast.walk(t_.test) if isinstance(y, ast.Name) and y.id in dims]
        ok = bool(names) and all(dims[nm].startswith(blk_a + ".") for nm in names)
        col.check(ok, f"{h.fq}::if {norm(t_.test)}", f"the rank is compared with the size of the integrated block `{blk_a}`",
                  f"`{norm(t_.test)}` compares the rank with {', '.join(f'{nm} = {dims[nm]}' for nm in names) or 'something else'}: information about the remaining inputs is left exactly "
                  f"when rank > dim({blk_a}); comparing with the other block drops (or invents) the Gaussian over the remaining inputs for rank-deficient factors", h.loc(t_))
    # ---------------------------------------------------------------- R13.7 (second clause) the "too little information" guard of eager_reduce
    blocks_ = {}
    for a in ast.walk(f.node):
        if isinstance(a, ast.Assign) and isinstance(a.value, ast.Subscript) and norm(a.value.value) == f"{selfn}.prec_sqrt" and isinstance(a.targets[0], ast.Name):
            idx = a.value.slice
            blocks_[a.targets[0].id] = [norm(e) for e in (idx.elts if isinstance(idx, ast.Tuple) else [idx])]
    split_ = next((st for st in ast.walk(f.node) if isinstance(st, ast.Assign) and isinstance(st.value, ast.Call) and norm(st.value.func).endswith("_split_real_inputs")
                   and isinstance(st.targets[0], ast.Tuple) and len(st.targets[0].elts) == 2), None)
    if split_ is not None:
        red_i, kept_i = (norm(e) for e in split_.targets[0].elts)
        dims_ = {norm(st.targets[0]): st.value for st in ast.walk(f.node) if isinstance(st, ast.Assign) and isinstance(st.targets[0], ast.Name) and ".shape[" in norm(st.value)}
        for g_ in ast.walk(f.node):
            if not (isinstance(g_, ast.If) and any(isinstance(r, ast.Raise) for r in g_.body) and "rank" in norm(g_.test)):
                continue
            names = [y.id for y in ast.walk(g_.test) if isinstance(y, ast.Name) and y.id in dims_]
            owners = []
            for nm in names:
                base = next((y.id for y in ast.walk(dims_[nm]) if isinstance(y, ast.Name) and y.id in blocks_), None)
                owners.append(blocks_.get(base, [None, None])[1] if base else None)
            construct = f"{f.fq}::if {norm(g_.test)}: raise"
            if names and all(o == red_i for o in owners):
                col.ok(construct, "the rank is compared with the size of the marginalised block", f.loc(g_))
            elif any(o == kept_i for o in owners):
                col.violation(construct, f"`{norm(g_.test)}` compares the rank with the size of the KEPT block ({', '.join(names)}): marginalising is possible exactly when rank >= dim of the "
                              "marginalised block, so a rank-deficient Gaussian that is informative about the integrated inputs is rejected, and one that is not slips through to a singular "
                              "Cholesky factor", f.loc(g_))
            else:
                col.unresolved(construct, "the dimension compared with the rank is not the row count of one of the two blocks", f.loc(g_))
    # ---------------------------------------------------------------- R13.13 the helper keeps the normaliser it starts with
    col.rule("R13.13", "_marginalize_after_split adds the remaining Gaussian to the normaliser of the integrated block in both arms", floor=2)
    _accumulator_kept(prog, col, refs)
    # ---------------------------------------------------------------- R13.15 the declared rank follows the information that is left
    col.rule("R13.15", "a factor from which a block was projected out does not keep its full column count as the declared rank of the remaining Gaussian", floor=1)
    rk = prog.funcs.get("funsor.gaussian::Gaussian.rank")
    rank_is_columns = rk is not None and any(isinstance(r, ast.Return) and r.value is not None and norm(r.value).endswith("prec_sqrt.shape[-1]") for r in ast.walk(rk.node))
    n15 = 0
    if rank_is_columns:
        for st in ast.walk(h.node):
            # P = B - B @ proj : the rows of B with the directions of `proj` removed - same shape as B, rank lower by the rank of proj
            if not (isinstance(st, ast.Assign) and len(st.targets) == 1 and isinstance(st.targets[0], ast.Name) and isinstance(st.value, ast.BinOp) and isinstance(st.value.op, ast.Sub)
                    and isinstance(st.value.right, ast.BinOp) and isinstance(st.value.right.op, ast.MatMult) and norm(st.value.right.left) == norm(st.value.left)):
                continue
            P = st.targets[0].id
            if not any(st.value.left is y or norm(st.value.left) == pp for pp in h.positional for y in [st.value.left]):
                continue
            # does P reach a Gaussian(...) as its prec_sqrt unchanged (no slicing of the last axis, no compression in between)?
            restores = [x for x in ast.walk(h.node) if isinstance(x, ast.Assign) and norm(x.targets[0]) == P and x is not st]
            ctor = [c for c in ast.walk(h.node) if isinstance(c, ast.Call) and (refs.resolve(c.func) or "").endswith("gaussian.Gaussian") and len(c.args) >= 2 and norm(c.args[1]) == P
                    and getattr(c, "lineno", 0) > st.lineno]
            for c in ctor:
                if any(st.lineno < x.lineno < c.lineno for x in restores):
                    continue
                n15 += 1
                col.violation(f"{h.fq}::projected factor keeps its columns", f"`{norm(st)[:60]}`: `{P}` has the shape of `{norm(st.value.left)}` - all its columns - although `{norm(st.value.right.right)}` projects out as many directions as the "
                              f"integrated block has dimensions; Gaussian.rank is the column count, so the remaining Gaussian declares more information than it carries and the 'too little "
                              "information' tests (rank < dim) pass where they must not: marginalising a rank-2 Gaussian over x, y, z one variable at a time returns a number (a different one "
                              "for each order) instead of raising", h.loc(st))
        if n15 == 0:
            col.ok(f"{h.fq}::declared rank", "no projected factor is handed on with its full column count", h.loc())
    else:
        col.unresolved("funsor.gaussian::Gaussian.rank", "rank is not defined as the column count of prec_sqrt; the clause does not apply as written", "funsor/gaussian.py")
    # ---------------------------------------------------------------- R13.14 the mass that scales a mean is the measure's own normaliser
    col.rule("R13.14", "an Integrate rule that multiplies by the mass of the measure takes it from the measure's log-normaliser (which carries the rank shift)", floor=2)
    for reg in cat.registrations:
        g_ = reg.target
        if g_ is None or not reg.pattern or isinstance(g_.node, ast.Lambda) or refs.resolve(reg.pattern[0]) != "funsor.integrate.Integrate" or len(g_.positional) != 3:
            continue
        if not (isinstance(reg.pattern[1], (ast.Name, ast.Attribute)) and (refs.resolve(reg.pattern[1]) or "").endswith("gaussian.Gaussian")):
            continue
        pm = g_.positional[0]
        defs_ = {}
        for st in ast.walk(g_.node):
            if isinstance(st, ast.Assign) and len(st.targets) == 1 and isinstance(st.targets[0], ast.Name):
                defs_.setdefault(st.targets[0].id, []).append(st.value)

        # the measure, and locals that re-wrap its aligned factors as a Gaussian
        aliases = {pm} | {n_ for n_, ds_ in defs_.items() if any(isinstance(d_, ast.Call) and (refs.resolve(d_.func) or "").endswith("gaussian.Gaussian") for d_ in ds_)}

        def reads(e, seen=()):
            """attributes of the measure that the value of e is computed from (through local definitions)"""
            out = set()
            for y in ast.walk(e):
                if isinstance(y, ast.Attribute) and isinstance(y.value, ast.Name) and y.value.id in aliases:
                    out.add(y.attr)
                if isinstance(y, ast.Name) and y.id in defs_ and y.id not in seen:
                    for d in defs_[y.id]:
                        out |= reads(d, seen + (y.id,))
            return out
        for c in ast.walk(g_.node):
            if isinstance(c, ast.Call) and norm(c.func).rsplit(".", 1)[-1] == "exp" and len(c.args) == 1:
                rd = reads(c.args[0])
                if not rd:
                    continue
                construct = f"{g_.fq}::{norm(c)[:50]}"
                if rd & {"_log_normalizer", "log_normalizer"}:
                    col.ok(construct, "the mass is exp(<measure>._log_normalizer)", g_.loc(c))
                elif rd & {"_precision_chol", "prec_sqrt", "_precision", "_covariance"}:
                    col.violation(construct, f"the mass is recomputed from {sorted(rd)} instead of the measure's `_log_normalizer`: for a wide factor (rank > dim, e.g. g1 + g2) the "
                                  "normaliser includes the shift 1/2 (|w_c|^2 - |w|^2) of the compression, which a determinant alone does not have, so the integral is off by exp(-shift)", g_.loc(c))
                else:
                    col.unresolved(construct, f"exp of a value computed from {sorted(rd)}", g_.loc(c))
    # ---------------------------------------------------------------- R13.11 an unwrapped negation is compensated
    col.rule("R13.11", "an Integrate rule that strips the negation of a term (`t.arg` of a Unary[NegOp, Gaussian]) negates the integral of that term", floor=2)
    for reg in cat.registrations:
        g_ = reg.target
        if g_ is None or not reg.pattern or isinstance(g_.node, ast.Lambda) or refs.resolve(reg.pattern[0]) != "funsor.integrate.Integrate":
            continue
        if not any("NegOp" in norm(p_) for p_ in reg.pattern[1:]):
            continue
        # names that may denote a negated term: the parameter whose pattern mentions NegOp, and loop variables over its `.terms`
        negs = {g_.positional[i] for i, p_ in enumerate(reg.pattern[1:]) if i < len(g_.positional) and "NegOp" in norm(p_)}
        for lp in ast.walk(g_.node):
            if isinstance(lp, (ast.For, ast.comprehension)) and isinstance(lp.target, ast.Name) and isinstance(lp.iter, ast.Attribute) and lp.iter.attr == "terms" \
                    and isinstance(lp.iter.value, ast.Name) and lp.iter.value.id in negs:
                negs.add(lp.target.id)
        for y in ast.walk(g_.node):
            if not (isinstance(y, ast.Attribute) and y.attr == "arg" and isinstance(y.value, ast.Name) and y.value.id in negs):
                continue
            # climb to the arm / statement boundary looking for a negation applied to a value computed from `y`
            compensated = False
            opaque = False
            node = y
            for a in g_.module.ancestors(y):
                if isinstance(a, ast.BinOp) and isinstance(a.op, ast.Mult) and any(isinstance(z, ast.UnaryOp) and isinstance(z.op, ast.USub) or (isinstance(z, ast.Constant) and isinstance(z.value, (int, float)) and z.value < 0)
                                                                                    for z in (a.left, a.right)):
                    compensated = True
                    break
                if isinstance(a, (ast.BinOp, ast.Subscript, ast.Attribute, ast.Lambda)) and not (isinstance(a, ast.BinOp) and isinstance(a.op, ast.Sub)):
                    opaque = True
                if isinstance(a, ast.Call) and not (refs.resolve(a.func) or "").endswith("Integrate") and norm(a.func).rsplit(".", 1)[-1] not in ("neg", "Unary"):
                    opaque = True
                if isinstance(a, ast.UnaryOp) and isinstance(a.op, ast.USub):
                    compensated = True
                    break
                if isinstance(a, ast.Call) and norm(a.func).rsplit(".", 1)[-1] in ("neg", "Unary") and (norm(a.func).endswith("neg") or (a.args and norm(a.args[0]).endswith("neg"))):
                    compensated = True
                    break
                if isinstance(a, ast.BinOp) and isinstance(a.op, ast.Sub) and any(node is z for z in ast.walk(a.right)):
                    compensated = True
                    break
                if isinstance(a, (ast.stmt, ast.comprehension)) or (isinstance(a, ast.IfExp) and (any(node is z for z in ast.walk(a.body)) or any(node is z for z in ast.walk(a.orelse)))
                                                                     and not any(node is z for z in ast.walk(a.test))):
                    # leaving the arm in which the wrapper was stripped
                    if isinstance(a, ast.IfExp):
                        pass
                    break
                node = a
            # the IfExp case: the negation may be applied to the whole arm: `-I(t.arg) if neg else I(t)` has the USub inside the arm (found above)
            if not compensated and opaque:
                col.unresolved(f"{g_.fq}::{norm(y)}", "the value computed from the stripped term passes through an expression the rule does not read", g_.loc(y))
                continue
            col.check(compensated, f"{g_.fq}::{norm(y)}", "the integral of the stripped term is negated (linearity of the integral)",
                      f"`{norm(y)}` strips the negation of a term matched as Unary[NegOp, Gaussian], but no negation is applied to the integral computed from it: Integrate(q, f - h) "
                      "returns I(q, f) + I(q, h)", g_.loc(y))
    # ---------------------------------------------------------------- R13.12 a mixture may itself be reduced
    col.rule("R13.12", "a rule that destructures the `.terms` of a GaussianMixture operand accounts for the operand's own reduction (red_op / reduced_vars)", floor=3)
    SCOPE = ("funsor.integrate", "funsor.joint", "funsor.cnf", "funsor.gaussian")
    for reg in cat.registrations:
        g_ = reg.target
        if g_ is None or not reg.pattern or isinstance(g_.node, ast.Lambda) or g_.module.name not in SCOPE:
            continue
        for i, p_ in enumerate(reg.pattern[1:]):
            if i >= len(g_.positional) or not (isinstance(p_, (ast.Name, ast.Attribute)) and (refs.resolve(p_) or "").endswith("cnf.GaussianMixture")):
                continue
            P = g_.positional[i]
            reads = {y.attr for y in ast.walk(g_.node) if isinstance(y, ast.Attribute) and isinstance(y.value, ast.Name) and y.value.id == P}
            if "terms" not in reads:
                continue
            col.check(bool(reads & {"reduced_vars", "red_op"}), f"{g_.fq}::{P}.terms", f"`{P}.reduced_vars` / `{P}.red_op` is consulted",
                      f"`{P}` matches GaussianMixture = Contraction[LogaddexpOp | NullOp, AddOp, frozenset, (Tensor, Gaussian)], which includes a mixture lazily reduced over some of its "
                      f"inputs; the rule takes `{P}.terms` apart and never looks at `{P}.reduced_vars`, so the bound variables of that reduction leak into the result as inputs "
                      "(Integrate((t + g).reduce(logaddexp, 'i'), x, 'x') returns a tensor over `i__BOUND` instead of the sum)", g_.loc())
    # ---------------------------------------------------------------- R13.8 / R13.9 set bookkeeping of the Integrate rules, in every world
    _integrate_set_bookkeeping(prog, col, refs, cat)
    # ---------------------------------------------------------------- R13.10 a Gaussian declared over merged inputs needs expanded factors
    col.rule("R13.10", "factors aligned to inputs merged from several operands are expanded before a Gaussian is declared over those inputs", floor=2)
    for g_ in prog.funcs.values():
        if isinstance(g_.node, ast.Lambda):
            continue
        als = [st for st in ast.walk(g_.node) if isinstance(st, ast.Assign) and isinstance(st.value, ast.Call) and norm(st.value.func).endswith("align_gaussian") and len(st.value.args) >= 2
               and isinstance(st.value.args[0], ast.Name) and isinstance(st.value.args[1], ast.Name) and isinstance(st.targets[0], ast.Tuple) and len(st.targets[0].elts) == 2]
        for a in als:
            I, X = a.value.args[0].id, a.value.args[1].id
            outs = {norm(e) for e in a.targets[0].elts}
            ctor = [c for c in ast.walk(g_.node) if isinstance(c, ast.Call) and (refs.resolve(c.func) or "").endswith("gaussian.Gaussian")
                    and {norm(x) for x in list(c.args[:2]) + [k.value for k in c.keywords if k.arg in ("white_vec", "prec_sqrt")]} == outs
                    and I in {norm(x) for x in list(c.args[2:3]) + [k.value for k in c.keywords if k.arg == "inputs"]}]
            stores = [y.id for y in ast.walk(g_.node) if isinstance(y, ast.Name) and isinstance(y.ctx, ast.Store) and y.id in outs]
            if not ctor or len(stores) != len(outs):  # rebound names: the constructor may see other values (e.g. after an explicit ops.expand)
                continue
            # which operands' inputs the mapping I is built from
            srcs = set()
            for st in ast.walk(g_.node):
                dfn = None
                if isinstance(st, ast.Assign) and norm(st.targets[0]) == I:
                    dfn = st.value
                elif isinstance(st, ast.Call) and isinstance(st.func, ast.Attribute) and st.func.attr == "update" and norm(st.func.value) == I and st.args:
                    dfn = st.args[0]
                if dfn is None:
                    continue
                loopvars = {}
                for cmp_ in ast.walk(dfn):
                    if isinstance(cmp_, ast.comprehension) and isinstance(cmp_.target, ast.Name) and isinstance(cmp_.iter, (ast.Tuple, ast.List)):
                        loopvars[cmp_.target.id] = [norm(e) for e in cmp_.iter.elts]
                for y in ast.walk(dfn):
                    if isinstance(y, ast.Attribute) and y.attr == "inputs" and isinstance(y.value, ast.Name):
                        srcs.update(loopvars.get(y.value.id, [y.value.id]))
            srcs.discard(I)
            kw = next((k.value for k in a.value.keywords if k.arg == "expand"), a.value.args[2] if len(a.value.args) >= 3 else None)
            construct = f"{g_.fq}::Gaussian(align_gaussian({I}, {X}))"
            if srcs <= {X}:
                col.ok(construct, f"`{I}` is a reordering of `{X}`'s own inputs", g_.loc(a))
            elif kw is None or (isinstance(kw, ast.Constant) and kw.value is False):
                col.violation(construct, f"`{I}` merges the inputs of {sorted(srcs)} but `{X}` is aligned without expand=True: for a batch input that `{X}` lacks the aligned factors have "
                              f"size 1, and the Gaussian declared over `{I}` fails its shape check (an integer input only the other operand has)", g_.loc(a))
            elif isinstance(kw, ast.Constant) and kw.value is True:
                col.ok(construct, "aligned with expand=True", g_.loc(a))
            else:
                col.unresolved(construct, f"expand={norm(kw)} is not a constant", g_.loc(a))
    # ---------------------------------------------------------------- R13.4
    col.rule("R13.4", "offsets and block splits follow the inputs in order (shared with C12 R12.1 / R12.2)", floor=2)
    sub = Collector("C12")
    c12.run(prog, sub, tier, refs, cat)
    for rr in sub.rules:
        if rr.rule in ("R12.1", "R12.2"):
            for o in rr.obligations:
                col.cur.obligations.append(o)
    return col
